#!/bin/sh
# tools/reverttest.sh <commit> <PROP>: revert one fix: commit in a scratch worktree and run the check there
C="$1"; P="$2"
WT=$(mktemp -d /tmp/rt_XXXXXX); rmdir "$WT"
git -C /repo worktree add -q "$WT" HEAD || exit 2
cp /repo/pyyeti/rainflow/*.so "$WT/pyyeti/rainflow/" 2>/dev/null
git -C "$WT" revert --no-commit "$C" >/dev/null 2>&1 || { echo "REVERT FAILED"; git -C /repo worktree remove --force "$WT"; exit 2; }
cd "$(dirname "$0")/.." && PYYETI_REPO="$WT" ./check "$P" 2>&1 | grep -v "RuntimeWarning\|warnings.warn" | grep "VIOLATION\|KNOWN\|INFRA\|seed=" | head -6
git -C /repo worktree remove --force "$WT"; git -C /repo worktree prune
