import json,sys
pid=sys.argv[1]
prop=[json.loads(l) for l in open('/verif/properties.jsonl') if json.loads(l)['id']==pid][0]
print(f"""You are an independent red-team engineer. A verification team claims to have machinery that decides a semantic property of the Python package pyYeti (structural dynamics toolkit). Your job: write realistic code changes that BREAK the property while the package still imports and the existing test-suite still passes, so that we can see whether their machinery notices. You know nothing about their machinery and must not look for it.

THE PROPERTY (id {pid}):
{json.dumps(prop, indent=1)}

IMPORTANT: never use `git stash` (the stash list is shared between all worktrees of the repository and other engineers are working in sibling worktrees); to switch between clean and changed states use `git diff > file`, `git checkout -- .`, `git apply file`.

YOUR WORKSPACE: a scratch git worktree of the pyYeti repository at /tmp/seedwt/{pid} (clean, at the current HEAD). Work ONLY inside /tmp/seedwt/{pid} and your output directory /tmp/seed/{pid}/. Never read, list or modify /repo, /verif, /root or any other worktree under /tmp/seedwt. Python is /venv/bin/python (numpy 2.x, scipy, pandas 3; numba is NOT installed). There is no network. Run code as `cd /tmp/seedwt/{pid} && PYTHONPATH=/tmp/seedwt/{pid} /venv/bin/python …` so that the worktree's pyyeti is the one imported (check `pyyeti.__file__`).

DELIVER TWO different changes (k = 1, 2), each independent of the other (each applies to the clean HEAD on its own), touching different mechanisms of the anchored code. For each:
  * it is a small, realistic defect — the kind of slip a maintainer could make in a refactor, an optimisation, a 'simplification', an off-by-one, a wrong index/sign/side/condition, a stale cache, a dropped corner case, or two cooperating sites that each look fine alone — NOT sabotage (no `raise`, no random noise, no environment-variable triggers, no changes to tests);
  * it must need something SPECIFIC to manifest: an unusual but legitimate input inside the property's quantifier (a particular size, layout, ordering, boundary value, option combination, multi-step sequence of calls, schedule …), not something ordinary use or the existing tests would expose at once;
  * the package still imports, and the existing tests that cover the touched files give exactly the same set of failures with and without your change. (Several tests fail already on the clean tree in this environment — record the FAILED set before and after; they must be identical.) Test command: `cd /tmp/seedwt/{pid} && /venv/bin/python -m pytest -q -p no:cacheprovider --timeout=900 pyyeti/tests/<relevant test files>` (choose every test file that imports the modules you touch; if cheap, run the whole `pyyeti/tests`).
  * write into /tmp/seed/{pid}/<k>/ :
      - patch.diff : `git diff` against HEAD (must apply with `git apply` at the worktree root on a clean tree);
      - demo.py    : a small deterministic demonstration using only pyYeti's public API (plus numpy/scipy): it checks the property's claim on the specific input and exits 0 when the property holds and 1 when it is violated. It must exit 0 on the clean tree and 1 with your change applied; run time < 60 s; it must not depend on its own location (it is run as `cd <some worktree> && PYTHONPATH=<that worktree> /venv/bin/python /path/to/demo.py`); compare against an independent reference (closed form, brute force, plain numpy), not against stored numbers produced by the changed code;
      - meta.json  : {{"summary": what you changed and why it breaks the property, "needs": what exactly is required for it to manifest, "tests_run": the commands and the before/after FAILED sets or counts, "files": [touched files]}}.
  * verify all of this yourself (clean → demo exit 0; apply → demo exit 1; tests same) and leave the worktree clean at the end (`git checkout -- . && git status --short` empty; remove stray files you created inside it).

Aim for changes that a sampling-based checker could plausibly miss (narrow trigger), but that are genuine violations of the property as stated — stay inside the property's quantifier and do not rely on inputs the documentation excludes. Prefer changes to the mechanisms named in the property's anchors. If after honest effort you can only produce one good change, deliver one and say so.

FINAL REPLY: for each k: one paragraph (file/function touched, trigger, effect), the demo's exit codes on clean/changed trees, and the test results before/after.""")
