import json,sys,glob,os,subprocess
pid=sys.argv[1]; rnd=sys.argv[2]
base=subprocess.run(["python3","/tmp/seed/prompt.py",pid],capture_output=True,text=True).stdout
base=base.replace(f"/tmp/seedwt/{pid}",f"/tmp/seedwt/{pid}r{rnd}").replace(f"/tmp/seed/{pid}/",f"/tmp/seed/{pid}r{rnd}/")
seen=[]
for d in sorted(glob.glob(f"/verif/seeded/{pid}-*/meta.json")):
    m=json.load(open(d)); seen.append("- "+m.get("summary","")[:260].replace("\n"," "))
extra="\n\nALREADY EXPLORED by earlier red-teamers (do NOT repeat these ideas or close variants of them; find different mechanisms, different functions among the property's anchors and observation points, different kinds of trigger):\n"+"\n".join(seen) if seen else ""
extra+="\n\nThis is ROUND "+rnd+": earlier rounds concentrated on the central routines. Prefer now the LESS central functions among the property's observation points and anchored files (helpers, option handling, alternative entry points, rarely used keyword arguments, error paths that must refuse bad input, return-value packaging), and defects made of two cooperating edits that each look fine alone."
extra+="\n\nAlso avoid the by-now well-covered trigger families: Fortran-ordered / non-contiguous input arrays with overwrite_a, non-symmetric (gyroscopic) damping, unsorted index vectors, exactly 0 Hz, unit/scale changes crossing an absolute tolerance, integer constants at constant±1, call sequences on one object / stale caches, aliasing of returned arrays, mutation of the caller's arrays, integer / float32 dtypes of inputs. Prefer: option combinations, rarely used keyword arguments, empty or single-element inputs, broadcasting shapes (1-D vs 2-D column), repeated or duplicate entries, results that are right in value but wrong in order/label/shape, state carried between calls on one object, two cooperating sites."
print(base.replace("\nFINAL REPLY:", extra+"\n\nFINAL REPLY:"))
