#!/bin/sh
# tools/seedall.sh [Cxx ...]: re-run every kept seeded change (seeded/<name>/) of the given properties (default: all)
# against the current checks; prints one line per change.  A kept change that no longer ends in VIOLATION is a regression.
HERE="$(cd "$(dirname "$0")/.." && pwd)"
mkdir -p /tmp/seedall
for d in $HERE/seeded/*/; do
  n=$(basename $d); p=$(echo $n | cut -c1-3)
  if [ $# -gt 0 ]; then echo " $* " | grep -q " $p " || continue; fi
  $HERE/tools/seedtest.sh $d $p > /tmp/seedall/$n.log 2>&1
  v=$(grep -c VIOLATION /tmp/seedall/$n.log)
  [ "$v" -gt 0 ] && s=caught || s="MISSED"
  echo "$s $n: $v violation lines; $(grep 'demo:' /tmp/seedall/$n.log); $(grep 'seed=\|INFRA' /tmp/seedall/$n.log | tail -1)"
done
