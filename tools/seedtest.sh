#!/bin/sh
# tools/seedtest.sh <seed-dir> <PROP> [tier]   e.g. tools/seedtest.sh /tmp/seed/C09/1 C09
# Applies <seed-dir>/patch.diff in a scratch worktree of /repo, checks the demonstration (0 clean, 1 patched),
# runs ./check PROP against the patched worktree and prints the verdict.  /repo itself is not touched.
D="$(cd "$1" && pwd)"; P="$2"; T="${3:-quick}"
WT=$(mktemp -d /tmp/st_XXXXXX); rmdir "$WT"
git -C /repo worktree add -q "$WT" HEAD || exit 2
cp /repo/pyyeti/rainflow/*.so "$WT/pyyeti/rainflow/" 2>/dev/null
( cd "$WT" && PYTHONPATH="$WT" /venv/bin/python "$D/demo.py" >/dev/null 2>&1 ); c0=$?
git -C "$WT" apply "$D/patch.diff" || { echo "PATCH DOES NOT APPLY"; git -C /repo worktree remove --force "$WT"; exit 2; }
( cd "$WT" && PYTHONPATH="$WT" /venv/bin/python "$D/demo.py" >/dev/null 2>&1 ); c1=$?
echo "demo: clean=$c0 patched=$c1"
cd "$(dirname "$0")/.." && PYYETI_REPO="$WT" ./check "$P" --tier "$T" 2>&1 | grep -v "RuntimeWarning\|warnings.warn" | tail -4
echo "check exit: $?"
git -C /repo worktree remove --force "$WT"; git -C /repo worktree prune
