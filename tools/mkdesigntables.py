#!/usr/bin/env python3
"""Refresh the generated tables of DESIGN.md (between <!-- GENERATED:x --> and <!-- /GENERATED:x -->):
   findings   from known_findings.json
   seeded     from seeded/*/meta.json
   status     from harness/props/*.py (THEOREMS, PARTIAL, translate) and MANIFEST.json"""
import glob, importlib, json, os, re, sys

VERIF = os.path.dirname(os.path.dirname(os.path.abspath(__file__)))
sys.path.insert(0, os.path.join(VERIF, "harness"))
sys.path.insert(0, "/repo")


def cell(s):
    return str(s).replace("|", "\\|").replace("\n", " ")


def findings():
    k = json.load(open(os.path.join(VERIF, "known_findings.json")))["findings"]
    out = ["| id | property | status | input family (what the check matches on) | what fails | failing input | handling |", "|---|---|---|---|---|---|---|"]
    for f in sorted(k, key=lambda f: int(f["id"][1:])):
        h = ("repaired in /repo by `fix:` commit %s; the check passes on the repaired tree and reports the violation again if the repair is reverted" % f["commit"]
             if f["status"] == "fixed" else "recorded, not repaired: the check prints KNOWN-FINDING for exactly this family and exits 0")
        out.append("| %s | %s | %s | `%s` | %s | %s | %s |" % (f["id"], f["property"], f["status"], f["family"], cell(f["what"]), cell(f.get("input", "")), h))
    return "\n".join(out)


def seeded():
    out = ["| seeded change | property | what it needs to manifest | result of the property's check |", "|---|---|---|---|"]
    for d in sorted(glob.glob(os.path.join(VERIF, "seeded", "*", "meta.json"))):
        m = json.load(open(d))
        name = os.path.basename(os.path.dirname(d))
        out.append("| `%s` | %s | %s | %s |" % (name, m.get("property", ""), cell(m.get("needs", ""))[:400], cell(m.get("check_result", ""))[:500]))
    return "\n".join(out)


def status():
    sys.modules.setdefault("runner", importlib.import_module("runner"))
    man = json.load(open(os.path.join(VERIF, "MANIFEST.json")))
    claimed = {c["property_id"] for c in man["checks"]}
    out = ["| property | claimed | property theorems (Props/Cxx.lean, all audited) | translator | what is not proved (PARTIAL) |", "|---|---|---|---|---|"]
    for p in [json.loads(l) for l in open(os.path.join(VERIF, "properties.jsonl"))]:
        pid = p["id"]
        path = os.path.join(VERIF, "harness", "props", pid.lower() + ".py")
        if not os.path.exists(path):
            out.append("| %s | no | - | - | check not built |" % pid)
            continue
        m = importlib.import_module("props." + pid.lower())
        tr = sorted(os.path.basename(f) for f in glob.glob(os.path.join(VERIF, "harness", "translate", pid.lower() + "_*.py")))
        out.append("| %s | %s | %d: %s | %s | %s |" % (
            pid, "yes" if pid in claimed else "no", len(m.THEOREMS), " ".join("`%s`" % t.split(".")[-1] for t in m.THEOREMS),
            ", ".join(tr) or "-", cell(getattr(m, "PARTIAL", "") or "nothing: full statement proved")))
    return "\n".join(out)


def anchors():
    import subprocess
    r = subprocess.run([sys.executable, os.path.join(VERIF, "tools", "anchorcoverage.py"), "--md"], capture_output=True, text=True)
    return r.stdout.strip()


def main():
    path = os.path.join(VERIF, "DESIGN.md")
    s = open(path).read()
    for name, fn in (("findings", findings), ("seeded", seeded), ("status", status), ("anchors", anchors)):
        pat = re.compile(r"(<!-- GENERATED:%s -->\n).*?(<!-- /GENERATED:%s -->)" % (name, name), re.S)
        if not pat.search(s):
            print("marker missing:", name)
            continue
        body = fn()
        s = pat.sub(lambda m: m.group(1) + body + "\n" + m.group(2), s)
    open(path, "w").write(s)
    print("DESIGN.md tables refreshed")


if __name__ == "__main__":
    main()
