#!/bin/sh
# run seedtest for every complete seed under /tmp/seed/<Cxx or CxxrN>/<k>/ of a claimed property that has no log yet
HERE="$(cd "$(dirname "$0")/.." && pwd)"
CLAIMED=$(python3 -c "import json;print(' '.join(c['property_id'] for c in json.load(open('$HERE/MANIFEST.json'))['checks']))")
mkdir -p /tmp/seedres
for d in /tmp/seed/C*/[12]; do
  g=$(basename $(dirname $d)); p=$(echo $g | cut -c1-3); k=$(basename $d)
  [ -f $d/patch.diff ] && [ -f $d/demo.py ] && [ -f $d/meta.json ] || continue
  echo " $CLAIMED " | grep -q " $p " || continue
  [ -f /tmp/seedres/${g}_$k.log ] && continue
  $HERE/tools/seedtest.sh $d $p > /tmp/seedres/${g}_$k.log 2>&1
  echo "$g/$k: $(grep -c VIOLATION /tmp/seedres/${g}_$k.log) violation lines; $(grep 'demo:' /tmp/seedres/${g}_$k.log); $(grep 'seed=' /tmp/seedres/${g}_$k.log | tail -1)"
done
