#!/bin/sh
# run seedtest for every complete seed of a claimed property that has no log yet
CLAIMED=$(python3 -c "import json;print(' '.join(c['property_id'] for c in json.load(open('/verif/MANIFEST.json'))['checks']))")
for d in /tmp/seed/C*/[12]; do
  p=$(basename $(dirname $d)); k=$(basename $d)
  [ -f $d/patch.diff ] && [ -f $d/demo.py ] && [ -f $d/meta.json ] || continue
  echo " $CLAIMED " | grep -q " $p " || continue
  [ -f /tmp/seedres/${p}_$k.log ] && continue
  /verif/tools/seedtest.sh $d $p > /tmp/seedres/${p}_$k.log 2>&1
  echo "$p/$k: $(grep -c VIOLATION /tmp/seedres/${p}_$k.log) violation lines; $(grep 'demo:' /tmp/seedres/${p}_$k.log); $(grep 'seed=' /tmp/seedres/${p}_$k.log | tail -1)"
done
