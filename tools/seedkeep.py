#!/usr/bin/env python3
"""tools/seedkeep.py <seed-dir> <name> <PROP> <verdict-text> [test files...]
Confirm a seeded change in a scratch worktree (patch applies, demonstration 0 clean / 1 patched, the given test
files give the same FAILED set with and without the patch) and store it as /verif/seeded/<name>/."""
import json, os, shutil, subprocess, sys, tempfile

seed, name, prop, verdict = sys.argv[1:5]
tests = sys.argv[5:]
wt = tempfile.mkdtemp(prefix="sk_", dir="/tmp"); os.rmdir(wt)
def sh(cmd, **kw):
    return subprocess.run(cmd, shell=True, capture_output=True, text=True, **kw)
assert sh(f"git -C /repo worktree add -q {wt} HEAD").returncode == 0
try:
    sh(f"cp /repo/pyyeti/rainflow/*.so {wt}/pyyeti/rainflow/")
    def demo():
        return sh(f"cd {wt} && PYTHONPATH={wt} /venv/bin/python {seed}/demo.py").returncode
    def failed():
        if not tests:
            return None
        r = sh(f"cd {wt} && /venv/bin/python -m pytest -q -p no:cacheprovider --timeout=900 " + " ".join(tests))
        return sorted(l.split(" - ")[0] for l in r.stdout.splitlines() if l.startswith("FAILED")), r.stdout.strip().splitlines()[-1]
    d0 = demo(); f0 = failed()
    assert sh(f"git -C {wt} apply {seed}/patch.diff").returncode == 0, "patch does not apply"
    d1 = demo(); f1 = failed()
    ok = d0 == 0 and d1 == 1 and (f0 is None or f0[0] == f1[0])
    print("demo clean=%s patched=%s; tests before=%s after=%s -> %s" % (d0, d1, f0 and f0[1], f1 and f1[1], "KEEP" if ok else "REJECT"))
    if ok:
        dst = os.path.join("/verif/seeded", name)
        os.makedirs(dst, exist_ok=True)
        for f in ("patch.diff", "demo.py"):
            shutil.copy(os.path.join(seed, f), dst)
        meta = json.load(open(os.path.join(seed, "meta.json")))
        meta["property"] = prop
        meta["confirmed_by_integrator"] = {
            "repo_head": sh("git -C /repo rev-parse --short HEAD").stdout.strip(),
            "demo_exit_clean": d0, "demo_exit_patched": d1,
            "tests_run": tests, "tests_failed_set_unchanged": True, "tests_summary_patched": f1 and f1[1],
            "baseline_failed": f0 and f0[0],
        }
        meta["check_result"] = verdict
        json.dump(meta, open(os.path.join(dst, "meta.json"), "w"), indent=1)
finally:
    sh(f"git -C /repo worktree remove --force {wt}"); sh("git -C /repo worktree prune")
