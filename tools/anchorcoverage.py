#!/usr/bin/env python3
"""tools/anchorcoverage.py [--md]
For every property: the functions / methods defined in its anchored source files (properties.jsonl, anchors.files) and
whether the property's machinery mentions them - in the Lean model/props/driver files of the property (by the module
list of harness/props/cxx.py) or only in the Python harness (correspondence / oracle).  A name that appears nowhere is
code of an anchored file the check does not reach by name (it may still be reached through a caller).
The table is informational (DESIGN.md section 0.6); nothing here is run by a check."""
import ast, importlib, json, os, re, sys

HERE = os.path.dirname(os.path.dirname(os.path.abspath(__file__)))
REPO = os.environ.get("PYYETI_REPO", "/repo")
sys.path.insert(0, os.path.join(HERE, "harness"))
sys.path.insert(0, os.path.join(HERE, "harness", "props"))


def defs(path):
    out = []
    if path.endswith(".c"):
        for m in re.finditer(r"^static\s+\w[\w\s\*]*?\b(\w+)\s*\(", open(path).read(), re.M):
            out.append(m.group(1))
        return sorted(set(out))
    try:
        tree = ast.parse(open(path).read())
    except Exception:
        return out
    for node in tree.body:
        if isinstance(node, (ast.FunctionDef, ast.AsyncFunctionDef)):
            out.append(node.name)
        elif isinstance(node, ast.ClassDef):
            for sub in node.body:
                if isinstance(sub, (ast.FunctionDef, ast.AsyncFunctionDef)) and not (sub.name.startswith("__") and sub.name != "__init__"):
                    out.append(node.name + "." + sub.name)
    return out


def text_of(paths):
    t = []
    for p in paths:
        try:
            t.append(open(p, errors="replace").read())
        except OSError:
            pass
    return "\n".join(t)


def main():
    md = "--md" in sys.argv
    props = [json.loads(l) for l in open(os.path.join(HERE, "properties.jsonl"))]
    rows = []
    for pr in props:
        pid = pr["id"]
        mod = importlib.import_module(pid.lower())
        lean_files = []
        for m in getattr(mod, "LEAN_MODULES", []):
            lean_files.append(os.path.join(HERE, "lean", m.replace(".", "/") + ".lean"))
        lean_dir = os.path.join(HERE, "lean", "PyYetiVerif")
        # also every file the listed modules import from this project
        seen, todo = set(), list(lean_files)
        while todo:
            f = todo.pop()
            if f in seen or not os.path.exists(f):
                continue
            seen.add(f)
            for m in re.findall(r"^import (PyYetiVerif\.[\w\.]+)", open(f).read(), re.M):
                todo.append(os.path.join(HERE, "lean", m.replace(".", "/") + ".lean"))
        drv = os.path.join(HERE, "lean", "Drivers", pid + ".lean")
        lean_txt = text_of(list(seen) + [drv])
        har_txt = text_of([os.path.join(HERE, "harness", "props", pid.lower() + ".py")] +
                          [os.path.join(HERE, "harness", "translate", f) for f in os.listdir(os.path.join(HERE, "harness", "translate"))
                           if f.startswith(pid.lower())])
        for rel in pr["anchors"]["files"]:
            names = defs(os.path.join(REPO, rel))
            inlean, inhar, nowhere = [], [], []
            for n in names:
                short = n.split(".")[-1]
                pat = r"(?<![A-Za-z0-9_])" + re.escape(short) + r"(?![A-Za-z0-9_])"
                if re.search(pat, lean_txt):
                    inlean.append(n)
                elif re.search(pat, har_txt):
                    inhar.append(n)
                else:
                    nowhere.append(n)
            rows.append((pid, rel, len(names), inlean, inhar, nowhere))
    if md:
        print("| property | anchored file | defs | named in the Lean model / theorems / driver | named only in the Python harness (tie, oracle) | not named |")
        print("|---|---|---|---|---|---|")
        for pid, rel, n, a, b, c in rows:
            f = lambda l: (", ".join("`%s`" % x for x in l[:14]) + (" … (+%d)" % (len(l) - 14) if len(l) > 14 else "")) or "-"
            print("| %s | %s | %d | %d: %s | %d: %s | %d: %s |" % (pid, rel, n, len(a), f(a), len(b), f(b), len(c), f(c)))
    else:
        for pid, rel, n, a, b, c in rows:
            print("%s %-34s defs=%3d lean=%3d harness-only=%3d unnamed=%3d" % (pid, rel, n, len(a), len(b), len(c)))


if __name__ == "__main__":
    main()
