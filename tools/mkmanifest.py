#!/usr/bin/env python3
"""Regenerate MANIFEST.json from the property modules present in harness/props (their MANIFEST dict)
and validate it against /root/.vp/MANIFEST.schema.json when jsonschema is importable."""
import importlib
import json
import os
import subprocess
import sys

VERIF = os.path.dirname(os.path.dirname(os.path.abspath(__file__)))
sys.path.insert(0, os.path.join(VERIF, "harness"))
sys.path.insert(0, "/repo")

NOT_BUILT = "check not built yet (design in DESIGN.md section 6); not a statement that the technique cannot apply"


def main():
    props = [json.loads(l) for l in open(os.path.join(VERIF, "properties.jsonl"))]
    only = set(a.upper() for a in sys.argv[1:])  # optional: claim only these
    checks, na = [], []
    for p in props:
        pid = p["id"]
        path = os.path.join(VERIF, "harness", "props", pid.lower() + ".py")
        if not os.path.exists(path) or (only and pid not in only):
            na.append({"property_id": pid, "reason": NOT_BUILT})
            continue
        mod = importlib.import_module("props." + pid.lower())
        m = getattr(mod, "MANIFEST", {})
        checks.append(
            {
                "property_id": pid,
                "quick_cmd": "./check %s --tier quick" % pid,
                "thorough_cmd": "./check %s --tier thorough" % pid,
                "evidence_file": "/verif/evidence/%s.json" % pid,
                "replay_cmd_template": "./check %s --replay {path}" % pid,
                "engine": "lean4-proof+correspondence",
                "level_claimed": {
                    "category": "proof",
                    "text": m.get("level_text", ""),
                    "design_ref": "DESIGN.md section 6, " + pid,
                },
                "level_note": m.get("level_note", ""),
                "technique": m.get("technique", "Lean 4 theorems about an executable model + checked correspondence with /repo"),
            }
        )
    log = subprocess.run(["git", "-C", "/repo", "log", "--format=%h %s"], capture_output=True, text=True).stdout
    fixes = [l.split()[0] for l in log.splitlines() if l.split(" ", 1)[1].startswith("fix:")]
    man = {
        "version": 1,
        "setup_cmd": "cd lean && lake build",
        "hooks": {
            "guard": "PYYETI_VERIF",
            "enable": "no source hooks are needed: checks import pyyeti from /repo's working tree in-process "
            "(c_rain.c is recompiled from the working tree by the C05 check; worker completion orders for C09 "
            "are forced from the harness by wrapping the module-level worker functions)",
            "baseline_off_cmd": "cd /repo && /venv/bin/python -m pytest -ra -q -p no:cacheprovider --timeout=900 --continue-on-collection-errors",
            "source_commits": [],
            "add_only": True,
        },
        "engines": [
            {
                "name": "lean4-proof+correspondence",
                "path": "check",
                "serves_properties": [c["property_id"] for c in checks],
                "kind_free_text": "Lean 4 theorems about executable models (lean/), tied to /repo by Python-ast "
                "translators (harness/translate) and differential correspondence (harness/props); model-free oracles "
                "search for a failing input; verdict logic in harness/runner.py",
            }
        ],
        "checks": checks,
        "notes": "See DESIGN.md. Unguarded 'fix:' commits in /repo (genuine defects repaired, recorded in "
        "known_findings.json): " + ", ".join(fixes) + ". No hook commits.",
        "not_applicable": na,
    }
    json.dump(man, open(os.path.join(VERIF, "MANIFEST.json"), "w"), indent=1)
    try:
        import jsonschema

        jsonschema.validate(man, json.load(open("/root/.vp/MANIFEST.schema.json")))
        print("MANIFEST.json valid;", len(checks), "checks,", len(na), "not claimed")
    except ImportError:
        print("MANIFEST.json written (jsonschema not importable here);", len(checks), "checks")


if __name__ == "__main__":
    main()
