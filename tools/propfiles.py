#!/usr/bin/env python3
"""List the files that belong to the given properties (for selective commits)."""
import glob, importlib, os, sys
VERIF = os.path.dirname(os.path.dirname(os.path.abspath(__file__)))
sys.path.insert(0, os.path.join(VERIF, "harness")); sys.path.insert(0, "/repo")
import runner
sys.modules.setdefault("runner", runner)
out = set()
for pid in sys.argv[1:]:
    mod = importlib.import_module("props." + pid.lower())
    for p in runner.lean_closure(mod):
        out.add(os.path.relpath(p, VERIF))
    for pat in ("harness/props/%s.py", "harness/translate/%s_*.py", "corpus/%s.json", "corpus/%s", "lean/Drivers/%s.lean", "evidence/%s.json"):
        for case in (pid.lower(), pid.upper()):
            out.update(os.path.relpath(p, VERIF) for p in glob.glob(os.path.join(VERIF, pat % case)))
print("\n".join(sorted(out)))
