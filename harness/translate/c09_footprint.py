"""Translator for C09: shared-memory footprints of the parallel worker functions.

Reads pyyeti/srs.py and pyyeti/fdepsd.py with `ast` (the repo code is NOT executed) and writes
lean/PyYetiVerif/Generated/ParFootprint.lean:

  * for every worker (`_dosrs`, `_dosrs_nohist`, `_dosrs_ic`, `_dosrs_nohist_ic`, `_dofde`) the
    list of writes to and reads of the module-level shared arrays (the globals bound by the pool
    initialisers `_mk_par_globals*`), each with its index pattern: the task index `j`, a full
    slice, an integer constant, a local loop variable, or "other";
  * whether the worker's body is, statement for statement, the serial loop body of the calling
    routine after renaming the shared arrays to their serial counterparts.

Grammar accepted (anything else raises TieBroken — the tie is then broken and the runner searches
for a failing input): workers start with `(j, (names…)) = args`; shared arrays are touched only
through `X_[…]` subscripts, bare `X_` loads inside expressions/call arguments, or `X_.shape[…]`;
no aliasing (`y = X_`, `y = X_[…]` views bound to a name that is later written), no `global`
statements, no `del`, no starred/nested subscripts on shared arrays.
"""
import ast
import copy
import os

from runner import TieBroken

WORKERS = {
    "srs.py": ["_dosrs_nohist", "_dosrs", "_dosrs_nohist_ic", "_dosrs_ic"],
    "fdepsd.py": ["_dofde"],
}
INITS = {"srs.py": ["_mk_par_globals", "_mk_par_globals_ic"], "fdepsd.py": ["_mk_par_globals"]}


def _shared_names(tree, inits):
    """Names declared `global` in the pool initialisers = the shared arrays."""
    names = []
    for node in tree.body:
        if isinstance(node, ast.FunctionDef) and node.name in inits:
            for st in node.body:
                if isinstance(st, ast.Global):
                    for n in st.names:
                        if n not in names:
                            names.append(n)
    if not names:
        raise TieBroken("no `global` shared arrays found in %s" % inits)
    return names


def _ix(node, task, loops):
    if isinstance(node, ast.Name):
        if node.id == task:
            return "task"
        if node.id in loops:
            return "loop"
        return "other"
    if isinstance(node, ast.Slice):
        if node.lower is None and node.upper is None and node.step is None:
            return "all"
        return "other"
    if isinstance(node, ast.Constant) and isinstance(node.value, int) and node.value >= 0:
        return "const %d" % node.value
    return "other"


def _index_list(sub, task, loops):
    s = sub.slice
    elts = s.elts if isinstance(s, ast.Tuple) else [s]
    return [_ix(e, task, loops) for e in elts]


class _Scan(ast.NodeVisitor):
    def __init__(self, shared, task, fname):
        self.shared = shared
        self.task = task
        self.fname = fname
        self.loops = set()
        self.writes = []
        self.reads = []

    def bad(self, node, why):
        raise TieBroken("%s line %d: %s" % (self.fname, getattr(node, "lineno", 0), why))

    def _target(self, t, aug):
        if isinstance(t, ast.Subscript) and isinstance(t.value, ast.Name) and t.value.id in self.shared:
            idx = _index_list(t, self.task, self.loops)
            self.writes.append((t.value.id, idx))
            if aug:
                self.reads.append((t.value.id, idx))
            for e in ast.walk(t.slice):
                if isinstance(e, ast.Name) and e.id in self.shared:
                    self.bad(t, "shared array used inside an index")
            return
        if isinstance(t, ast.Name):
            if t.id in self.shared:
                self.bad(t, "shared array name rebound")
            return
        if isinstance(t, (ast.Tuple, ast.List)):
            for e in t.elts:
                self._target(e, aug)
            return
        if isinstance(t, ast.Subscript):
            # write through a local (e.g. resphist[...] = ...): fine unless the base is shared-derived
            self.visit(t.value)
            self.visit(t.slice)
            return
        if isinstance(t, ast.Attribute):
            self.bad(t, "attribute assignment in a worker")
        self.bad(t, "unsupported assignment target")

    def visit_Assign(self, node):
        # aliasing: a shared array (or a basic-index view of it) bound to a local name
        v = node.value
        binds_name = any(
            isinstance(e, ast.Name) for t in node.targets for e in ([t] if not isinstance(t, (ast.Tuple, ast.List)) else t.elts)
        )
        if binds_name and isinstance(v, ast.Name) and v.id in self.shared:
            self.bad(node, "alias of a shared array")
        if binds_name and isinstance(v, ast.Subscript) and isinstance(v.value, ast.Name) and v.value.id in self.shared:
            idx = _index_list(v, self.task, self.loops)
            if any(i in ("all", "other") for i in idx) or len(idx) < 1:
                self.bad(node, "view of a shared array bound to a name")
        for t in node.targets:
            self._target(t, False)
        self.visit(node.value)

    def visit_AugAssign(self, node):
        self._target(node.target, True)
        self.visit(node.value)

    def visit_AnnAssign(self, node):
        self.bad(node, "annotated assignment in a worker")

    def visit_Global(self, node):
        self.bad(node, "`global` statement in a worker")

    def visit_Nonlocal(self, node):
        self.bad(node, "`nonlocal` statement in a worker")

    def visit_Delete(self, node):
        self.bad(node, "`del` in a worker")

    def visit_For(self, node):
        if isinstance(node.target, ast.Name):
            self.loops.add(node.target.id)
        else:
            self.bad(node, "unsupported loop target")
        self.visit(node.iter)
        for st in node.body + node.orelse:
            self.visit(st)

    def visit_Subscript(self, node):
        if isinstance(node.value, ast.Name) and node.value.id in self.shared:
            self.reads.append((node.value.id, _index_list(node, self.task, self.loops)))
            self.visit(node.slice)
            return
        if (
            isinstance(node.value, ast.Attribute)
            and isinstance(node.value.value, ast.Name)
            and node.value.value.id in self.shared
        ):
            if node.value.attr != "shape":
                self.bad(node, "attribute %s of a shared array" % node.value.attr)
            return  # metadata only
        self.generic_visit(node)

    def visit_Attribute(self, node):
        if isinstance(node.value, ast.Name) and node.value.id in self.shared:
            if node.attr not in ("shape", "size", "ndim"):
                self.bad(node, "attribute/method %s of a shared array" % node.attr)
            return
        self.generic_visit(node)

    def visit_Name(self, node):
        if node.id in self.shared:
            if not isinstance(node.ctx, ast.Load):
                self.bad(node, "shared array name stored")
            self.reads.append((node.id, ["whole"]))


def _task_var(fn, fname):
    """`(j, (…)) = args` must be the first real statement."""
    body = [s for s in fn.body if not (isinstance(s, ast.Expr) and isinstance(s.value, ast.Constant))]
    if not body or not isinstance(body[0], ast.Assign):
        raise TieBroken("%s.%s: first statement is not the argument unpacking" % (fname, fn.name))
    t = body[0].targets[0]
    if (
        isinstance(t, ast.Tuple)
        and len(t.elts) == 2
        and isinstance(t.elts[0], ast.Name)
        and isinstance(t.elts[1], ast.Tuple)
        and isinstance(body[0].value, ast.Name)
    ):
        return t.elts[0].id, [e.id for e in t.elts[1].elts if isinstance(e, ast.Name)], body[1:]
    raise TieBroken("%s.%s: unexpected argument unpacking" % (fname, fn.name))


# ---------------------------------------------------------------------------------------
# serial body == worker body up to renaming


class _Rename(ast.NodeTransformer):
    """Rewrite the worker's shared-array accesses into the serial routine's spelling."""

    def __init__(self, kind, task):
        self.kind = kind
        self.task = task

    def visit_Subscript(self, node):
        node = self.generic_visit(node)
        v = node.value
        if isinstance(v, ast.Name):
            if self.kind == "srs":
                if v.id == "WN_":
                    return ast.Subscript(ast.Name("wn", ast.Load()), node.slice, node.ctx)
                if v.id == "SRSmax_":
                    return ast.Subscript(ast.Name("SRSmax", ast.Load()), node.slice, node.ctx)
                if v.id == "HIST_":
                    return ast.Subscript(
                        ast.Subscript(ast.Name("resp", ast.Load()), ast.Constant("hist"), ast.Load()),
                        node.slice,
                        node.ctx,
                    )
            else:
                if v.id == "WN_":  # WN_[j]  ->  wn   (loop variable of `enumerate(Wn)`)
                    return ast.Name("wn", ast.Load())
                if v.id == "ASV_" and isinstance(node.slice, ast.Tuple) and len(node.slice.elts) == 2:
                    k, j = node.slice.elts
                    if isinstance(k, ast.Constant) and k.value in (0, 1, 2):
                        nm = {0: "Amax", 1: "SRSmax", 2: "Var"}[k.value]
                        return ast.Subscript(ast.Name(nm, ast.Load()), j, node.ctx)
                if v.id in ("BinAmps_", "Count_"):
                    return ast.Subscript(ast.Name(v.id[:-1], ast.Load()), node.slice, node.ctx)
        if (
            self.kind == "fde"
            and isinstance(v, ast.Attribute)
            and isinstance(v.value, ast.Name)
            and v.value.id == "BinAmps_"
            and v.attr == "shape"
            and isinstance(node.slice, ast.Constant)
            and node.slice.value == 1
        ):
            return ast.Name("nbins", ast.Load())
        return node

    def visit_Name(self, node):
        if self.kind == "srs":
            if node.id == "SIG_":
                return ast.Name("sig", node.ctx)
            if node.id == "ICVALS_":
                return ast.Name("icvals", node.ctx)
        else:
            if node.id == "SIG_":
                return ast.Name("sig", node.ctx)
        return node


def _dump(stmts):
    return [ast.dump(s, annotate_fields=True, include_attributes=False) for s in stmts]


def _strip_getresp(stmts):
    """`if getresp: resp["hist"][...] = …`  ->  the inner statements (worker with history) or
    nothing (worker without)."""
    with_h, without_h = [], []
    for s in stmts:
        if isinstance(s, ast.If) and isinstance(s.test, ast.Name) and s.test.id == "getresp" and not s.orelse:
            with_h += s.body
        else:
            with_h.append(s)
            without_h.append(s)
    return with_h, without_h


def _serial_loops_srs(tree):
    """The two `for j in range(LF):` loops of srs.srs (with and without initial conditions)."""
    fn = [n for n in tree.body if isinstance(n, ast.FunctionDef) and n.name == "srs"]
    if not fn:
        raise TieBroken("srs.srs not found")
    loops = []
    for node in ast.walk(fn[0]):
        if (
            isinstance(node, ast.For)
            and isinstance(node.target, ast.Name)
            and node.target.id == "j"
            and isinstance(node.iter, ast.Call)
            and getattr(node.iter.func, "id", None) == "range"
            and len(node.iter.args) == 1
            and getattr(node.iter.args[0], "id", None) == "LF"
        ):
            src = ast.dump(node)
            if "lfilter" in src:
                loops.append(node)
    if len(loops) != 2:
        raise TieBroken("expected two serial per-frequency loops in srs.srs, found %d" % len(loops))
    ic = [l for l in loops if "icvals" in ast.dump(l)]
    no = [l for l in loops if "icvals" not in ast.dump(l)]
    if len(ic) != 1 or len(no) != 1:
        raise TieBroken("cannot tell the ic / no-ic serial loops of srs.srs apart")
    return ic[0].body, no[0].body


def _serial_loop_fde(tree):
    fn = [n for n in tree.body if isinstance(n, ast.FunctionDef) and n.name == "fdepsd"]
    if not fn:
        raise TieBroken("fdepsd.fdepsd not found")
    for node in ast.walk(fn[0]):
        if (
            isinstance(node, ast.For)
            and isinstance(node.iter, ast.Call)
            and getattr(node.iter.func, "id", None) == "enumerate"
            and "lfilter" in ast.dump(node)
        ):
            return node.body
    raise TieBroken("serial per-frequency loop of fdepsd.fdepsd not found")


def _norm_verbose(stmts):
    """The progress print differs only in how the frequency is spelled; compare the rest."""
    out = []
    for s in stmts:
        if isinstance(s, ast.If) and isinstance(s.test, ast.Name) and s.test.id == "verbose":
            continue
        out.append(s)
    return out


def _worker_eq_serial(kind, fname, fn, task, rest, tree):
    body = [_Rename(kind, task).visit(copy.deepcopy(s)) for s in rest]
    for s in body:
        ast.fix_missing_locations(s)
    if kind == "srs":
        ic_body, no_body = _serial_loops_srs(tree)
        serial = ic_body if fn.name.endswith("_ic") else no_body
        with_h, without_h = _strip_getresp(serial)
        serial = without_h if "nohist" in fn.name else with_h
        # the serial loop uses the precomputed `dT`; the worker receives it as an argument: same name
        return _dump(body) == _dump(serial)
    serial = _norm_verbose(_serial_loop_fde(tree))
    return _dump(_norm_verbose(body)) == _dump(serial)


# ---------------------------------------------------------------------------------------


def extract(repo):
    """-> list of dicts (one per worker); raises TieBroken on anything outside the grammar."""
    out = []
    for fname, workers in WORKERS.items():
        path = os.path.join(repo, "pyyeti", fname)
        tree = ast.parse(open(path).read())
        shared = _shared_names(tree, INITS[fname])
        fns = {n.name: n for n in tree.body if isinstance(n, ast.FunctionDef)}
        for w in workers:
            if w not in fns:
                raise TieBroken("%s: worker %s not found" % (fname, w))
            fn = fns[w]
            task, argnames, rest = _task_var(fn, fname)
            sc = _Scan(shared, task, "%s.%s" % (fname, w))
            for st in rest:
                sc.visit(st)
            kind = "srs" if fname == "srs.py" else "fde"
            same = _worker_eq_serial(kind, fname, fn, task, rest, tree)
            out.append(
                {
                    "name": w,
                    "module": fname[:-3],
                    "shared": shared,
                    "writes": sc.writes,
                    "reads": sc.reads,
                    "serial_same": same,
                }
            )
        # the function handed to the pool must be one of the analysed workers
        main = fns["srs" if fname == "srs.py" else "fdepsd"]
        for node in ast.walk(main):
            if isinstance(node, ast.Call) and getattr(node.func, "attr", None) in (
                "imap_unordered", "imap", "map", "apply_async", "map_async", "starmap"):
                if node.func.attr != "imap_unordered":
                    raise TieBroken("%s: pool call %s is not imap_unordered" % (fname, node.func.attr))
                f0 = node.args[0]
                if not (isinstance(f0, ast.Name) and f0.id == "func"):
                    raise TieBroken("%s: unexpected callable handed to the pool" % fname)
        handed = set()
        for node in ast.walk(main):
            if isinstance(node, ast.Assign) and any(getattr(t, "id", None) == "func" for t in node.targets):
                for e in ast.walk(node.value):
                    if isinstance(e, ast.Name) and e.id.startswith("_do"):
                        handed.add(e.id)
        if handed != set(workers):
            raise TieBroken("%s: functions handed to the pool %s != analysed workers %s" % (fname, sorted(handed), workers))
    return out


def _lean_ix(i):
    if i == "task":
        return ".task"
    if i == "all":
        return ".all"
    if i == "loop":
        return ".loop"
    if i == "whole":
        return ".whole"
    if i.startswith("const "):
        return "(.const %s)" % i.split()[1]
    return ".other"


def render(ws):
    L = [
        "import PyYetiVerif.Model.ParSched",
        "/-! GENERATED by harness/translate/c09_footprint.py from pyyeti/srs.py and pyyeti/fdepsd.py.",
        "Do not edit: regenerated from /repo's working tree on every run of `./check C09`. -/",
        "namespace PyYetiVerif.Generated.ParFootprint",
        "open PyYetiVerif.ParSched",
        "",
    ]

    def acc(lst):
        seen = []
        for a in lst:
            if a not in seen:
                seen.append(a)
        return "[" + ", ".join(
            '⟨"%s", [%s]⟩' % (arr, ", ".join(_lean_ix(i) for i in idx)) for arr, idx in seen
        ) + "]"

    for w in ws:
        L.append("def %s : Footprint :=" % w["name"].lstrip("_"))
        L.append('  { name := "%s.%s"' % (w["module"], w["name"]))
        L.append("    shared := [%s]" % ", ".join('"%s"' % s for s in w["shared"]))
        L.append("    writes := %s" % acc(w["writes"]))
        L.append("    reads := %s" % acc(w["reads"]))
        L.append("    serialSame := %s }" % ("true" if w["serial_same"] else "false"))
        L.append("")
    L.append("def workers : List Footprint := [%s]" % ", ".join(w["name"].lstrip("_") for w in ws))
    L.append("")
    L.append("end PyYetiVerif.Generated.ParFootprint")
    return "\n".join(L) + "\n"


def generate(repo, lean_dir):
    ws = extract(repo)
    txt = render(ws)
    path = os.path.join(lean_dir, "PyYetiVerif", "Generated", "ParFootprint.lean")
    old = open(path).read() if os.path.exists(path) else None
    if old != txt:
        open(path, "w").write(txt)
    return ws
