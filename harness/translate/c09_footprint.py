"""Translator for C09: shared-memory footprints of the parallel worker functions.

Reads pyyeti/srs.py and pyyeti/fdepsd.py with `ast` (the repo code is NOT executed) and writes
lean/PyYetiVerif/Generated/ParFootprint.lean:

  * for every worker (`_dosrs`, `_dosrs_nohist`, `_dosrs_ic`, `_dosrs_nohist_ic`, `_dofde`) the
    list of writes to and reads of the module-level shared arrays (the globals bound by the pool
    initialisers `_mk_par_globals*`), each with its index pattern: the task index `j`, a full
    slice, an integer constant, a local loop variable, or "other";
  * whether the worker's body is, statement for statement, the serial loop body of the calling
    routine after renaming the shared arrays to their serial counterparts.

The renaming and the serial loop each worker is compared with come from c09_parent (the parent side:
which array is copied into / viewed from which shared array, at which pool site the worker is used).

Grammar accepted (anything else raises TieBroken — the tie is then broken and the runner searches
for a failing input): workers start with `(j, (names…)) = args`; shared arrays are touched only
through `X_[…]` subscripts, bare `X_` loads inside expressions/call arguments, or `X_.shape[…]`;
no aliasing (`y = X_`, `y = X_[…]` views bound to a name that is later written), no `global`
statements, no `del`, no starred/nested subscripts on shared arrays.
"""
import ast
import copy
import os

from runner import TieBroken

WORKERS = {
    "srs.py": ["_dosrs_nohist", "_dosrs", "_dosrs_nohist_ic", "_dosrs_ic"],
    "fdepsd.py": ["_dofde"],
}
INITS = {"srs.py": ["_mk_par_globals", "_mk_par_globals_ic"], "fdepsd.py": ["_mk_par_globals"]}


def _shared_names(tree, inits):
    """Names declared `global` in the pool initialisers = the shared arrays."""
    names = []
    for node in tree.body:
        if isinstance(node, ast.FunctionDef) and node.name in inits:
            for st in node.body:
                if isinstance(st, ast.Global):
                    for n in st.names:
                        if n not in names:
                            names.append(n)
    if not names:
        raise TieBroken("no `global` shared arrays found in %s" % inits)
    return names


def _ix(node, task, loops):
    if isinstance(node, ast.Name):
        if node.id == task:
            return "task"
        if node.id in loops:
            return "loop"
        return "other"
    if isinstance(node, ast.Slice):
        if node.lower is None and node.upper is None and node.step is None:
            return "all"
        return "other"
    if isinstance(node, ast.Constant) and isinstance(node.value, int) and node.value >= 0:
        return "const %d" % node.value
    return "other"


def _index_list(sub, task, loops):
    s = sub.slice
    elts = s.elts if isinstance(s, ast.Tuple) else [s]
    return [_ix(e, task, loops) for e in elts]


class _Scan(ast.NodeVisitor):
    def __init__(self, shared, task, fname):
        self.shared = shared
        self.task = task
        self.fname = fname
        self.loops = set()
        self.writes = []
        self.reads = []

    def bad(self, node, why):
        raise TieBroken("%s line %d: %s" % (self.fname, getattr(node, "lineno", 0), why))

    def _target(self, t, aug):
        if isinstance(t, ast.Subscript) and isinstance(t.value, ast.Name) and t.value.id in self.shared:
            idx = _index_list(t, self.task, self.loops)
            self.writes.append((t.value.id, idx))
            if aug:
                self.reads.append((t.value.id, idx))
            for e in ast.walk(t.slice):
                if isinstance(e, ast.Name) and e.id in self.shared:
                    self.bad(t, "shared array used inside an index")
            return
        if isinstance(t, ast.Name):
            if t.id in self.shared:
                self.bad(t, "shared array name rebound")
            return
        if isinstance(t, (ast.Tuple, ast.List)):
            for e in t.elts:
                self._target(e, aug)
            return
        if isinstance(t, ast.Subscript):
            # write through a local (e.g. resphist[...] = ...): fine unless the base is shared-derived
            self.visit(t.value)
            self.visit(t.slice)
            return
        if isinstance(t, ast.Attribute):
            self.bad(t, "attribute assignment in a worker")
        self.bad(t, "unsupported assignment target")

    def visit_Assign(self, node):
        # aliasing: a shared array (or a basic-index view of it) bound to a local name
        v = node.value
        binds_name = any(
            isinstance(e, ast.Name) for t in node.targets for e in ([t] if not isinstance(t, (ast.Tuple, ast.List)) else t.elts)
        )
        if binds_name and isinstance(v, ast.Name) and v.id in self.shared:
            self.bad(node, "alias of a shared array")
        if binds_name and isinstance(v, ast.Subscript) and isinstance(v.value, ast.Name) and v.value.id in self.shared:
            idx = _index_list(v, self.task, self.loops)
            if any(i in ("all", "other") for i in idx) or len(idx) < 1:
                self.bad(node, "view of a shared array bound to a name")
        for t in node.targets:
            self._target(t, False)
        self.visit(node.value)

    def visit_AugAssign(self, node):
        self._target(node.target, True)
        self.visit(node.value)

    def visit_AnnAssign(self, node):
        self.bad(node, "annotated assignment in a worker")

    def visit_Global(self, node):
        self.bad(node, "`global` statement in a worker")

    def visit_Nonlocal(self, node):
        self.bad(node, "`nonlocal` statement in a worker")

    def visit_Delete(self, node):
        self.bad(node, "`del` in a worker")

    def visit_For(self, node):
        if isinstance(node.target, ast.Name):
            self.loops.add(node.target.id)
        else:
            self.bad(node, "unsupported loop target")
        self.visit(node.iter)
        for st in node.body + node.orelse:
            self.visit(st)

    def visit_Subscript(self, node):
        if isinstance(node.value, ast.Name) and node.value.id in self.shared:
            self.reads.append((node.value.id, _index_list(node, self.task, self.loops)))
            self.visit(node.slice)
            return
        if (
            isinstance(node.value, ast.Attribute)
            and isinstance(node.value.value, ast.Name)
            and node.value.value.id in self.shared
        ):
            if node.value.attr != "shape":
                self.bad(node, "attribute %s of a shared array" % node.value.attr)
            return  # metadata only
        self.generic_visit(node)

    def visit_Attribute(self, node):
        if isinstance(node.value, ast.Name) and node.value.id in self.shared:
            if node.attr not in ("shape", "size", "ndim"):
                self.bad(node, "attribute/method %s of a shared array" % node.attr)
            return
        self.generic_visit(node)

    def visit_Name(self, node):
        if node.id in self.shared:
            if not isinstance(node.ctx, ast.Load):
                self.bad(node, "shared array name stored")
            self.reads.append((node.id, ["whole"]))


def _task_var(fn, fname):
    """`(j, (…)) = args` must be the first real statement."""
    body = [s for s in fn.body if not (isinstance(s, ast.Expr) and isinstance(s.value, ast.Constant))]
    if not body or not isinstance(body[0], ast.Assign):
        raise TieBroken("%s.%s: first statement is not the argument unpacking" % (fname, fn.name))
    t = body[0].targets[0]
    if (
        isinstance(t, ast.Tuple)
        and len(t.elts) == 2
        and isinstance(t.elts[0], ast.Name)
        and isinstance(t.elts[1], ast.Tuple)
        and isinstance(body[0].value, ast.Name)
    ):
        return t.elts[0].id, [e.id for e in t.elts[1].elts if isinstance(e, ast.Name)], body[1:]
    raise TieBroken("%s.%s: unexpected argument unpacking" % (fname, fn.name))


# ---------------------------------------------------------------------------------------
# serial body == worker body up to renaming


class _Rename(ast.NodeTransformer):
    """Rewrite the worker's shared-array accesses into the serial routine's spelling.  The renaming is
    DERIVED by c09_parent from the parent's code (what is copied into / viewed from which shared array),
    not written down here: `rename[glob]` is
      ("name", expr)  : `X_` is the shared copy / view of the parent's `expr`        X_[i] -> expr[i]
      ("elem", v)     : the serial loop is `for j, v in enumerate(src)`, X_ copies src   X_[j] -> v
      ("rows", {k:n}) : after the pool `n = X[k]`                                      X_[k, j] -> n[j]
    `shapes[glob]` are the symbolic dimensions of a shared output: X_.shape[i] -> that expression."""

    def __init__(self, rename, shapes, task):
        self.rename = rename
        self.shapes = shapes
        self.task = task

    @staticmethod
    def _expr(text):
        return ast.parse(text, mode="eval").body

    def visit_Subscript(self, node):
        v = node.value
        # X_.shape[i]
        if (
            isinstance(v, ast.Attribute)
            and isinstance(v.value, ast.Name)
            and v.value.id in self.shapes
            and v.attr == "shape"
            and isinstance(node.slice, ast.Constant)
            and isinstance(node.slice.value, int)
            and node.slice.value < len(self.shapes[v.value.id])
        ):
            return self._expr(self.shapes[v.value.id][node.slice.value])
        if isinstance(v, ast.Name) and v.id in self.rename:
            kind, tgt = self.rename[v.id]
            sl = self.visit(node.slice)
            if kind == "elem":
                if isinstance(sl, ast.Name) and sl.id == self.task:
                    return ast.Name(tgt, ast.Load())
                return ast.Subscript(v, sl, node.ctx)  # not the task's own element: left alone (comparison fails)
            if kind == "rows":
                if isinstance(sl, ast.Tuple) and len(sl.elts) == 2 and isinstance(sl.elts[0], ast.Constant) and sl.elts[0].value in tgt:
                    return ast.Subscript(ast.Name(tgt[sl.elts[0].value], ast.Load()), sl.elts[1], node.ctx)
                return ast.Subscript(v, sl, node.ctx)
            e = self._expr(tgt)
            return ast.Subscript(e, sl, node.ctx)
        return self.generic_visit(node)

    def visit_Name(self, node):
        if node.id in self.rename and self.rename[node.id][0] == "name":
            e = self._expr(self.rename[node.id][1])
            if isinstance(e, ast.Name):
                e.ctx = node.ctx
            return e
        return node


def _dump(stmts):
    return [ast.dump(s, annotate_fields=True, include_attributes=False) for s in stmts]


def _strip_getresp(stmts):
    """`if getresp: resp["hist"][...] = …`  ->  the inner statements (worker with history) or
    nothing (worker without)."""
    with_h, without_h = [], []
    for s in stmts:
        if isinstance(s, ast.If) and isinstance(s.test, ast.Name) and s.test.id == "getresp" and not s.orelse:
            with_h += s.body
        else:
            with_h.append(s)
            without_h.append(s)
    return with_h, without_h


def _norm_verbose(stmts):
    """The progress print differs only in how the frequency is spelled; compare the rest."""
    out = []
    for s in stmts:
        if isinstance(s, ast.If) and isinstance(s.test, ast.Name) and s.test.id == "verbose":
            continue
        out.append(s)
    return out


def _worker_eq_serial(site, fn, task, rest):
    """worker body == body of the serial loop of ITS pool site, after the derived renaming; the serial
    loop's task variable must be spelled like the worker's"""
    shapes = {d["glob"]: d["dims"][0] for d in site["shared"] if d["kind"] != "copy" and d["dims"]}
    body = [_Rename(site["rename"], shapes, task).visit(copy.deepcopy(s)) for s in rest]
    for s in body:
        ast.fix_missing_locations(s)
    if site["serial_task_var"] != task:
        return False
    serial = site["_serial_loop"].body
    if site["select"]:
        # `func = A if getresp else B`: A is the body with, B the body without the `if getresp:` statements
        if site["select"] != "getresp":
            raise TieBroken("%s: workers selected by `%s`" % (site["routine"], site["select"]))
        with_h, without_h = _strip_getresp(serial)
        if site["worker_hist"] == site["worker_nohist"]:
            raise TieBroken("%s: one worker selected twice" % site["routine"])
        serial = with_h if fn.name == site["worker_hist"] else without_h
    return _dump(_norm_verbose(body)) == _dump(_norm_verbose(serial))


# ---------------------------------------------------------------------------------------


def worker_signatures(repo):
    """pass 1: per file, per worker: the task variable, the parameter list, the body, the number of peak calls"""
    out = {}
    for fname, workers in WORKERS.items():
        path = os.path.join(repo, "pyyeti", fname)
        tree = ast.parse(open(path).read())
        fns = {n.name: n for n in tree.body if isinstance(n, ast.FunctionDef)}
        out[fname] = {}
        for w in workers:
            if w not in fns:
                raise TieBroken("%s: worker %s not found" % (fname, w))
            task, argnames, rest = _task_var(fns[w], fname)
            calls = sum(1 for st in rest for n in ast.walk(st)
                        if isinstance(n, ast.Call) and isinstance(n.func, ast.Name) and n.func.id == "methfunc")
            out[fname][w] = {"params": argnames, "task": task, "rest": rest, "fn": fns[w], "meth_calls": calls,
                             "tree": tree}
    return out


def extract(repo):
    """-> (list of dicts, one per worker; the parent-side facts); raises TieBroken on anything outside the grammar."""
    from translate import c09_parent

    sigs = worker_signatures(repo)
    parent = c09_parent.extract(repo, sigs)
    out = []
    for fname, workers in WORKERS.items():
        tree = next(iter(sigs[fname].values()))["tree"]
        shared = _shared_names(tree, INITS[fname])
        routine = [r for r in parent["routines"] if r["routine"].startswith(fname[:-3] + ".")][0]
        handed = set()
        for w in workers:
            sg = sigs[fname][w]
            task, rest, fn = sg["task"], sg["rest"], sg["fn"]
            sc = _Scan(shared, task, "%s.%s" % (fname, w))
            for st in rest:
                sc.visit(st)
            mine = [s for s in routine["sites"] if w in (s["worker_hist"], s["worker_nohist"])]
            if len(mine) != 1:
                raise TieBroken("%s: worker %s is handed to the pool at %d sites" % (fname, w, len(mine)))
            handed.add(w)
            same = _worker_eq_serial(mine[0], fn, task, rest)
            out.append(
                {
                    "name": w,
                    "module": fname[:-3],
                    "shared": shared,
                    "writes": sc.writes,
                    "reads": sc.reads,
                    "serial_same": same,
                }
            )
        # the functions handed to the pool must be exactly the analysed workers
        for s in routine["sites"]:
            handed |= {s["worker_hist"], s["worker_nohist"]}
        if handed != set(workers):
            raise TieBroken("%s: functions handed to the pool %s != analysed workers %s" % (fname, sorted(handed), workers))
    return out, parent, sigs


def _lean_ix(i):
    if i == "task":
        return ".task"
    if i == "all":
        return ".all"
    if i == "loop":
        return ".loop"
    if i == "whole":
        return ".whole"
    if i.startswith("const "):
        return "(.const %s)" % i.split()[1]
    return ".other"


def render(ws):
    L = [
        "import PyYetiVerif.Model.ParSched",
        "/-! GENERATED by harness/translate/c09_footprint.py from pyyeti/srs.py and pyyeti/fdepsd.py.",
        "Do not edit: regenerated from /repo's working tree on every run of `./check C09`. -/",
        "namespace PyYetiVerif.Generated.ParFootprint",
        "open PyYetiVerif.ParSched",
        "",
    ]

    def acc(lst):
        seen = []
        for a in lst:
            if a not in seen:
                seen.append(a)
        return "[" + ", ".join(
            '⟨"%s", [%s]⟩' % (arr, ", ".join(_lean_ix(i) for i in idx)) for arr, idx in seen
        ) + "]"

    for w in ws:
        L.append("def %s : Footprint :=" % w["name"].lstrip("_"))
        L.append('  { name := "%s.%s"' % (w["module"], w["name"]))
        L.append("    shared := [%s]" % ", ".join('"%s"' % s for s in w["shared"]))
        L.append("    writes := %s" % acc(w["writes"]))
        L.append("    reads := %s" % acc(w["reads"]))
        L.append("    serialSame := %s }" % ("true" if w["serial_same"] else "false"))
        L.append("")
    L.append("def workers : List Footprint := [%s]" % ", ".join(w["name"].lstrip("_") for w in ws))
    L.append("")
    L.append("end PyYetiVerif.Generated.ParFootprint")
    return "\n".join(L) + "\n"


def _write(path, txt):
    old = open(path).read() if os.path.exists(path) else None
    if old != txt:
        open(path, "w").write(txt)


def generate(repo, lean_dir):
    from translate import c09_parent

    ws, parent, sigs = extract(repo)
    ptxt = c09_parent.render(parent, sigs)
    _write(os.path.join(lean_dir, "PyYetiVerif", "Generated", "ParFootprint.lean"), render(ws))
    _write(os.path.join(lean_dir, "PyYetiVerif", "Generated", "ParFootprintParent.lean"), ptxt)
    return ws, parent
