"""Translator for C05: pyyeti/rainflow/c_rain.c -> lean/PyYetiVerif/Generated/CRain.lean

`rainflow1` and `rainflow2` (the counting routines; ~60 lines of plain C each) are read with a small
C-subset parser (the file is NOT compiled or executed here) and re-emitted as a shallow embedding in
Lean, in the same style and over the same run-time (Model/RainflowImp.lean) as the translation of
py_rain.py: one state record per function holding every C variable, one `def` per loop body,
straight-line code as an `Option`-monad `do` block in source order.  The text is preprocessed for
BOTH settings of `USE_FASTER_RAINFLOW_ROUTINE` (`#ifdef/#ifndef … #endif` regions are kept or
dropped); which of the two the file itself selects (`#define` present or not) is emitted as
`shippedFast`.  Lemmas/RainflowGenC*.lean prove, for all inputs, that the emitted programs never
fail and return the model's table.

C subset accepted inside the two functions (anything else raises TieBroken):

    decl   ::= type declarator ['=' init] {',' declarator ['=' init]} ';'
               type ::= double | npy_intp | PyArrayObject | PyObject ; declarator ::= {'*'} NAME ['[' INT ']']
    stmt   ::= decl | expr ';' | 'for' '(' NAME '=' '0' ';' NAME '<' iexpr ';' '++' NAME ')' stmt
             | 'while' '(' cmp ')' stmt | 'if' '(' cmp ')' 'break' ';' | 'if' '(' cmp ')' stmt ['else' stmt]
             | '{' stmt* '}' | 'goto' 'fail' ';' | 'return' expr ';' | 'fail' ':'
    expr   ::= NAME '=' e | NAME '[' ix ']' '=' e | '*' NAME '++' '=' e | '++' NAME | NAME ('-='|'+=') INT
    ix     ::= iexpr | '++' NAME                        (`pts[++j] = …`: the increment comes first)
    iexpr  ::= INT | '-' INT | int NAME | iexpr ('+'|'-') iexpr | int-array '[' iexpr ']'
    fexpr  ::= '0.5' | '1.0' | double NAME | double-array '[' iexpr ']' | fexpr ('+'|'-') fexpr
             | 'fabs' '(' fexpr ')' | fexpr '/' '2'
    cmp    ::= iexpr ('>'|'<'|'=='|'>='|'<='|'!=') iexpr | fexpr '<' fexpr

plus these Python/numpy C-API idioms, matched structurally and given the meaning stated:

    double *peaks = (double*)PyArray_DATA(peaks_array);          the input vector
    V = calloc(L, sizeof(T));                                    work array of L cells (modelled as UNWRITTEN cells:
                                                                 stricter than calloc's zeros — the proof shows none is read)
    npy_intp dims[2] = {e, INT};   dims[1] = INT;                two integers
    V_array = (PyArrayObject *) PyArray_SimpleNew(2, dims, NPY_DOUBLE | NPY_INTP);      a dims[0] x dims[1] array, unwritten
    T *p = (T *)PyArray_DATA(V_array);                           a cursor into V_array, initially 0; `*p++ = e` writes the
                                                                 flat cell `p` (row-major) and advances
    if (V == NULL [|| W == NULL]) goto fail;  Py_DECREF(..);  free(..);                  no effect on the result
    if (c) { stop = PyLong_FromSsize_t(e); slice = PySlice_New(NULL, stop, NULL);
             srf = (..)PyObject_GetItem((..)rf_array, slice); [if (srf) sos = (..)PyObject_GetItem((..)os_array, slice);]
             … return Py_BuildValue("N"|"NN", srf[, sos]); }     return the slices `[:e]`
    return Py_BuildValue("N"|"NN", rf_array[, os_array]);        return the arrays
    fail: …                                                      (allocation failure: not modelled)
"""
import os
import re

from runner import TieBroken

SRC = os.path.join("pyyeti", "rainflow", "c_rain.c")
OUT = os.path.join("PyYetiVerif", "Generated", "CRain.lean")
MACRO = "USE_FASTER_RAINFLOW_ROUTINE"
TYPES = {"double", "npy_intp", "PyArrayObject", "PyObject", "int", "char"}


def bad(why):
    raise TieBroken("c_rain.c: " + why)


# ---------------------------------------------------------------------------------------------
# text level: comments, preprocessor regions, function bodies


def strip_comments(t):
    t = re.sub(r"/\*.*?\*/", lambda m: " " * 0 + "\n" * m.group(0).count("\n"), t, flags=re.S)
    return re.sub(r"//[^\n]*", "", t)


def shipped_fast(text):
    return any(l.strip() == "#define " + MACRO for l in strip_comments(text).split("\n"))


def preprocess(body, fast):
    """keep / drop `#ifdef MACRO` / `#ifndef MACRO` … `#endif` regions (no nesting, no #else)"""
    out = []
    keep = True
    inside = False
    for line in body.split("\n"):
        st = line.strip()
        if st.startswith("#"):
            m = re.fullmatch(r"#\s*(ifdef|ifndef)\s+(\w+)", st)
            if m:
                if inside or m.group(2) != MACRO:
                    bad("preprocessor conditional outside the grammar: %s" % st)
                inside = True
                keep = fast if m.group(1) == "ifdef" else not fast
                continue
            if re.fullmatch(r"#\s*endif", st):
                if not inside:
                    bad("#endif without #ifdef")
                inside, keep = False, True
                continue
            bad("preprocessor line inside a function: %s" % st)
        if keep:
            out.append(line)
    if inside:
        bad("unterminated #ifdef")
    return "\n".join(out)


def function_body(text, name):
    m = list(re.finditer(r"static\s+PyObject\s*\*\s*%s\s*\(\s*PyArrayObject\s*\*\s*peaks_array\s*,\s*npy_intp\s+L\s*\)\s*\{"
                         % name, text))
    if len(m) != 1:
        bad("expected exactly one definition `static PyObject *%s(PyArrayObject *peaks_array, npy_intp L)`" % name)
    i = m[0].end()
    depth = 1
    j = i
    while depth:
        if j >= len(text):
            bad("unbalanced braces in %s" % name)
        depth += {"{": 1, "}": -1}.get(text[j], 0)
        j += 1
    return text[i:j - 1]


# ---------------------------------------------------------------------------------------------
# tokens and a small recursive-descent parser

TOK = re.compile(r'\s*(?:(\d+\.\d+|\d+)|([A-Za-z_]\w*)|("(?:[^"\\]|\\.)*")|(\+\+|--|-=|\+=|==|!=|<=|>=|&&|\|\||->|[-+*/<>=!(){}\[\];,:&]))')


def tokenize(t):
    out = []
    i = 0
    t = t.rstrip()
    while i < len(t):
        m = TOK.match(t, i)
        if not m or m.end() == i:
            if t[i:].strip() == "":
                break
            bad("cannot tokenize near %r" % t[i:i + 30])
        num, ident, string, op = m.groups()
        if num is not None:
            out.append(("num", num))
        elif ident is not None:
            out.append(("id", ident))
        elif string is not None:
            out.append(("str", string))
        else:
            out.append(("op", op))
        i = m.end()
    return out


class P:
    def __init__(self, toks):
        self.t = toks
        self.i = 0

    def peek(self, k=0):
        return self.t[self.i + k] if self.i + k < len(self.t) else ("eof", "")

    def eat(self, val=None):
        tk = self.peek()
        if val is not None and tk[1] != val:
            bad("expected %r, found %r" % (val, tk[1]))
        self.i += 1
        return tk

    def at(self, val):
        return self.peek()[1] == val and self.peek()[0] != "str"

    # expressions: tuples ("num", s) ("id", s) ("str", s) ("call", f, args) ("index", a, i) ("cast", e)
    # ("un", op, e) ("post", op, e) ("bin", op, a, b) ("assign", op, lhs, rhs) ("init", [e…])
    def is_cast(self):
        if not self.at("("):
            return False
        k = 1
        if self.peek(k)[0] != "id" or self.peek(k)[1] not in TYPES:
            return False
        k += 1
        while self.peek(k)[1] == "*":
            k += 1
        return self.peek(k)[1] == ")"

    def primary(self):
        tk = self.peek()
        if self.is_cast():
            self.eat("(")
            while not self.at(")"):
                self.eat()
            self.eat(")")
            return ("cast", self.unary())
        if tk[0] in ("num", "id", "str"):
            self.eat()
            e = tk
        elif self.at("("):
            self.eat("(")
            e = self.expr()
            self.eat(")")
        elif self.at("{"):
            self.eat("{")
            items = [self.assign()]
            while self.at(","):
                self.eat(",")
                items.append(self.assign())
            self.eat("}")
            return ("init", items)
        else:
            bad("unexpected token %r in an expression" % (tk[1],))
        while True:
            if self.at("("):
                self.eat("(")
                args = []
                if not self.at(")"):
                    args.append(self.assign())
                    while self.at(","):
                        self.eat(",")
                        args.append(self.assign())
                self.eat(")")
                e = ("call", e, args)
            elif self.at("["):
                self.eat("[")
                ix = self.expr()
                self.eat("]")
                e = ("index", e, ix)
            elif self.at("++") or self.at("--"):
                e = ("post", self.eat()[1], e)
            else:
                return e

    def unary(self):
        if self.peek()[0] == "op" and self.peek()[1] in ("++", "--", "*", "-", "!", "&"):
            op = self.eat()[1]
            return ("un", op, self.unary())
        return self.primary()

    def binary(self, level=0):
        levels = [("||",), ("&&",), ("==", "!="), ("<", ">", "<=", ">="), ("+", "-"), ("*", "/")]
        if level == len(levels):
            return self.unary()
        e = self.binary(level + 1)
        while self.peek()[0] == "op" and self.peek()[1] in levels[level]:
            op = self.eat()[1]
            e = ("bin", op, e, self.binary(level + 1))
        return e

    def assign(self):
        e = self.binary()
        if self.peek()[0] == "op" and self.peek()[1] in ("=", "-=", "+="):
            op = self.eat()[1]
            return ("assign", op, e, self.assign())
        return e

    def expr(self):
        return self.assign()

    # statements: ("decl", type, [(stars, name, arraylen, init)]) ("expr", e) ("for", init, cond, step, body)
    # ("while", cond, body) ("if", cond, then, else) ("block", [..]) ("break",) ("goto", l) ("return", e) ("label", l)
    def stmt(self):
        tk = self.peek()
        if self.at("{"):
            self.eat("{")
            out = []
            while not self.at("}"):
                out.append(self.stmt())
            self.eat("}")
            return ("block", out)
        if tk[0] == "id" and tk[1] in TYPES:
            ty = self.eat()[1]
            decls = []
            while True:
                stars = 0
                while self.at("*"):
                    self.eat("*")
                    stars += 1
                name = self.eat()
                if name[0] != "id":
                    bad("declarator expected")
                alen = None
                if self.at("["):
                    self.eat("[")
                    alen = self.eat()[1]
                    self.eat("]")
                init = None
                if self.at("="):
                    self.eat("=")
                    init = self.assign()
                decls.append((stars, name[1], alen, init))
                if self.at(","):
                    self.eat(",")
                    continue
                break
            self.eat(";")
            return ("decl", ty, decls)
        if tk == ("id", "for"):
            self.eat()
            self.eat("(")
            init = self.expr()
            self.eat(";")
            cond = self.expr()
            self.eat(";")
            step = self.expr()
            self.eat(")")
            return ("for", init, cond, step, self.stmt())
        if tk == ("id", "while"):
            self.eat()
            self.eat("(")
            cond = self.expr()
            self.eat(")")
            return ("while", cond, self.stmt())
        if tk == ("id", "if"):
            self.eat()
            self.eat("(")
            cond = self.expr()
            self.eat(")")
            then = self.stmt()
            els = None
            if self.peek() == ("id", "else"):
                self.eat()
                els = self.stmt()
            return ("if", cond, then, els)
        if tk == ("id", "break"):
            self.eat()
            self.eat(";")
            return ("break",)
        if tk == ("id", "goto"):
            self.eat()
            lab = self.eat()[1]
            self.eat(";")
            return ("goto", lab)
        if tk == ("id", "return"):
            self.eat()
            e = self.expr()
            self.eat(";")
            return ("return", e)
        if tk[0] == "id" and self.peek(1) == ("op", ":"):
            self.eat()
            self.eat(":")
            return ("label", tk[1])
        e = self.expr()
        self.eat(";")
        return ("expr", e)


def parse_body(text):
    p = P(tokenize(text))
    out = []
    while p.peek()[0] != "eof":
        out.append(p.stmt())
    return out


def show(e):
    """C-ish rendering of an expression / statement head, for comments and messages"""
    k = e[0]
    if k in ("num", "id", "str"):
        return e[1]
    if k == "call":
        return "%s(%s)" % (show(e[1]), ", ".join(show(a) for a in e[2]))
    if k == "index":
        return "%s[%s]" % (show(e[1]), show(e[2]))
    if k == "cast":
        return "(…)" + show(e[1])
    if k == "un":
        return e[1] + show(e[2])
    if k == "post":
        return show(e[2]) + e[1]
    if k == "bin":
        a, b = show(e[2]), show(e[3])
        if e[2][0] == "bin":
            a = "(%s)" % a
        if e[3][0] == "bin":
            b = "(%s)" % b
        return "%s %s %s" % (a, e[1], b)
    if k == "assign":
        return "%s %s %s" % (show(e[2]), e[1], show(e[3]))
    if k == "init":
        return "{%s}" % ", ".join(show(a) for a in e[1])
    return str(e)


# ---------------------------------------------------------------------------------------------
# translation

INT, FLOAT, FARR, IARR, FTAB, ITAB, FCUR, ICUR = "int", "float", "farr", "iarr", "ftab", "itab", "fcur", "icur"
LEAN_TY = {INT: "Int", FLOAT: "Option α", FARR: "Arr α", IARR: "Arr Int", FTAB: "Arr2 α", ITAB: "Arr2 Int",
           FCUR: "Int", ICUR: "Int"}
LEAN_INIT = {INT: "0", FLOAT: "none", FARR: "⟨#[]⟩", IARR: "⟨#[]⟩", FTAB: "⟨0, 0, #[]⟩", ITAB: "⟨0, 0, #[]⟩",
             FCUR: "0", ICUR: "0"}
CMP = {">": ">", "<": "<", "==": "=", ">=": "≥", "<=": "≤", "!=": "≠"}


class CFunc:
    def __init__(self, name, variant, stmts):
        self.cname = name
        self.name = "%s_%s" % (name, variant)
        self.st = name[0].upper() + name[1:] + variant.capitalize() + "St"
        self.stmts = stmts
        self.types = {}          # state fields, in order
        self.params = {"peaks": FARR, "L": INT}
        self.pointers = {}       # declared pointer names -> declared base type
        self.cursor_of = {}      # cursor name -> table name
        self.defs = []
        self.nfor = self.nwhile = self.tmp = 0
        self.peaks_alias = False
        self.nresults = 0

    def fresh(self):
        self.tmp += 1
        return "t%d" % self.tmp

    def declare(self, name, ty):
        if name in self.params:
            bad("%s: parameter %r is redeclared" % (self.cname, name))
        if self.types.setdefault(name, ty) != ty:
            bad("%s: %r changes its kind (%s -> %s)" % (self.cname, name, self.types[name], ty))

    def vtype(self, name):
        if name in self.params:
            return self.params[name]
        if name not in self.types:
            bad("%s: %r is used before it is declared/bound" % (self.cname, name))
        return self.types[name]

    def ref(self, name):
        return name if name in self.params else "s." + name

    # ---- expressions ---------------------------------------------------------------------
    def etype(self, e):
        k = e[0]
        if k == "num":
            return FLOAT if "." in e[1] else INT
        if k == "id":
            t = self.vtype(e[1])
            return t if t in (INT, FLOAT) else None
        if k == "index" and e[1][0] == "id":
            return {FARR: FLOAT, IARR: INT}.get(self.vtype(e[1][1]))
        if k == "un" and e[1] == "-":
            return self.etype(e[2])
        if k == "bin":
            if e[1] == "/":
                return FLOAT
            a, b = self.etype(e[2]), self.etype(e[3])
            return a if a == b else None
        if k == "call":
            return FLOAT
        return None

    def iexpr(self, e, pre):
        k = e[0]
        if k == "num" and "." not in e[1]:
            return e[1]
        if k == "un" and e[1] == "-" and e[2][0] == "num" and "." not in e[2][1]:
            return "(-%s)" % e[2][1]
        if k == "id" and self.vtype(e[1]) == INT:
            return self.ref(e[1])
        if k == "bin" and e[1] in ("+", "-"):
            return "(%s %s %s)" % (self.iexpr(e[2], pre), e[1], self.iexpr(e[3], pre))
        if k == "index" and e[1][0] == "id" and self.vtype(e[1][1]) == IARR:
            i = self.iexpr(e[2], pre)
            t = self.fresh()
            pre.append("let %s ← %s.get %s" % (t, self.ref(e[1][1]), i))
            return t
        bad("%s: integer expression outside the grammar: %s" % (self.cname, show(e)))

    def fexpr(self, e, pre):
        k = e[0]
        if k == "num" and e[1] == "0.5":
            return "Ops.c05"
        if k == "num" and e[1] == "1.0":
            return "Ops.c1"
        if k == "id" and self.vtype(e[1]) == FLOAT:
            t = self.fresh()
            pre.append("let %s ← %s" % (t, self.ref(e[1])))
            return t
        if k == "index" and e[1][0] == "id" and self.vtype(e[1][1]) == FARR:
            i = self.iexpr(e[2], pre)
            t = self.fresh()
            pre.append("let %s ← %s.get %s" % (t, self.ref(e[1][1]), i))
            return t
        if k == "bin" and e[1] in ("+", "-"):
            return "(%s %s %s)" % (self.fexpr(e[2], pre), e[1], self.fexpr(e[3], pre))
        if k == "bin" and e[1] == "/" and e[3] == ("num", "2"):
            return "(Ops.half %s)" % self.fexpr(e[2], pre)
        if k == "call" and e[1] == ("id", "fabs") and len(e[2]) == 1:
            return "(Ops.abs %s)" % self.fexpr(e[2][0], pre)
        bad("%s: double expression outside the grammar: %s" % (self.cname, show(e)))

    def expr(self, e, pre):
        t = self.etype(e)
        if t == INT:
            return INT, self.iexpr(e, pre)
        if t == FLOAT:
            return FLOAT, self.fexpr(e, pre)
        bad("%s: expression outside the grammar (mixed or unknown type): %s" % (self.cname, show(e)))

    def cmp(self, e, pre):
        if e[0] != "bin" or e[1] not in CMP:
            bad("%s: condition outside the grammar: %s" % (self.cname, show(e)))
        ta, tb = self.etype(e[2]), self.etype(e[3])
        if ta == INT and tb == INT:
            return "%s %s %s" % (self.iexpr(e[2], pre), CMP[e[1]], self.iexpr(e[3], pre))
        if ta == FLOAT and tb == FLOAT and e[1] == "<":
            return "%s < %s" % (self.fexpr(e[2], pre), self.fexpr(e[3], pre))
        bad("%s: comparison outside the grammar: %s" % (self.cname, show(e)))

    # ---- statements ----------------------------------------------------------------------
    def flat(self, st):
        return st[1] if st[0] == "block" else [st]

    def assign_stmt(self, e, out, pad):
        """one expression statement"""
        pre = []
        if e[0] == "un" and e[1] == "++" and e[2][0] == "id" and self.vtype(e[2][1]) == INT:
            out.append(pad + "let s := { s with %s := s.%s + 1 }" % (e[2][1], e[2][1]))
            return
        if e[0] == "assign" and e[1] in ("-=", "+=") and e[2][0] == "id" and self.vtype(e[2][1]) == INT \
                and e[3][0] == "num" and "." not in e[3][1]:
            out.append(pad + "let s := { s with %s := s.%s %s %s }" % (e[2][1], e[2][1], e[1][0], e[3][1]))
            return
        if e[0] != "assign" or e[1] != "=":
            bad("%s: statement outside the grammar: %s" % (self.cname, show(e)))
        lhs, rhs = e[2], e[3]
        if lhs[0] == "id":
            name = lhs[1]
            ty, v = self.expr(rhs, pre)
            if self.vtype(name) != ty:
                bad("%s: type mismatch in %s" % (self.cname, show(e)))
            out += [pad + p for p in pre]
            out.append(pad + "let s := { s with %s := %s }" % (name, v if ty == INT else "some " + v))
            return
        if lhs[0] == "index" and lhs[1][0] == "id":
            name = lhs[1][1]
            aty = self.vtype(name)
            if name in self.params or aty not in (FARR, IARR):
                bad("%s: write outside the grammar: %s" % (self.cname, show(e)))
            ix = lhs[2]
            if ix[0] == "un" and ix[1] == "++" and ix[2][0] == "id" and self.vtype(ix[2][1]) == INT:
                out.append(pad + "let s := { s with %s := s.%s + 1 }" % (ix[2][1], ix[2][1]))
                ix = ix[2]
            ty, v = self.expr(rhs, pre)
            if {FARR: FLOAT, IARR: INT}[aty] != ty:
                bad("%s: element type mismatch in %s" % (self.cname, show(e)))
            i = self.iexpr(ix, pre)
            t = self.fresh()
            out += [pad + p for p in pre]
            out.append(pad + "let %s ← s.%s.set %s %s" % (t, name, i, v))
            out.append(pad + "let s := { s with %s := %s }" % (name, t))
            return
        if lhs[0] == "un" and lhs[1] == "*" and lhs[2][0] == "post" and lhs[2][1] == "++" and lhs[2][2][0] == "id":
            cur = lhs[2][2][1]
            cty = self.vtype(cur)
            if cty not in (FCUR, ICUR):
                bad("%s: `*%s++` but %s is not a cursor into an output array" % (self.cname, cur, cur))
            ty, v = self.expr(rhs, pre)
            if {FCUR: FLOAT, ICUR: INT}[cty] != ty:
                bad("%s: element type mismatch in %s" % (self.cname, show(e)))
            tab = self.cursor_of[cur]
            t = self.fresh()
            out += [pad + p for p in pre]
            out.append(pad + "let %s ← s.%s.setAt s.%s %s" % (t, tab, cur, v))
            out.append(pad + "let s := { s with %s := %s }" % (tab, t))
            out.append(pad + "let s := { s with %s := s.%s + 1 }" % (cur, cur))
            return
        bad("%s: assignment outside the grammar: %s" % (self.cname, show(e)))

    def block(self, stmts, ind, in_while, tail, direct=False):
        out = []
        pad = " " * ind
        for st in stmts:
            k = st[0]
            if k == "expr":
                out.append(pad + "-- " + show(st[1]) + ";")
                self.assign_stmt(st[1], out, pad)
            elif k == "for":
                _, init, cond, step, body = st
                ok = (init[0] == "assign" and init[1] == "=" and init[2][0] == "id" and init[3] == ("num", "0")
                      and cond[0] == "bin" and cond[1] == "<" and cond[2] == init[2]
                      and step == ("un", "++", init[2]) and self.vtype(init[2][1]) == INT)
                if not ok or in_while:
                    bad("%s: for loop outside the grammar: for (%s; %s; %s)" % (self.cname, show(init), show(cond), show(step)))
                var = init[2][1]
                pre = []
                n = self.iexpr(cond[3], pre)
                if pre:
                    bad("%s: for bound reads an array" % self.cname)
                self.nfor += 1
                fname = "%s_for%d_body" % (self.name, self.nfor)
                head = "for (%s; %s; %s)" % (show(init), show(cond), show(step))
                body_lines = self.block(self.flat(body), 2, False, ["pure s"])
                self.defs.append(
                    "/-- body of `%s` -/\n" % head
                    + "def %s (fuel : Nat) (peaks : Arr α) (L : Int) (%s_ : Int) (s : %s α) :\n    Option (%s α) := do\n"
                    % (fname, var, self.st, self.st)
                    + "  let s := { s with %s := %s_ }\n" % (var, var)
                    + "\n".join(body_lines) + "\n")
                out.append(pad + "-- " + head)
                out.append(pad + "let s ← forRange %s (%s fuel peaks L) s" % (n, fname))
            elif k == "while":
                if in_while:
                    bad("%s: nested while" % self.cname)
                pre = []
                c = self.cmp(st[1], pre)
                if pre:
                    bad("%s: while condition reads an array or a double variable" % self.cname)
                self.nwhile += 1
                cname = "%s_while%d_cond" % (self.name, self.nwhile)
                bname = "%s_while%d_body" % (self.name, self.nwhile)
                head = "while (%s)" % show(st[1])
                body_lines = self.block(self.flat(st[2]), 2, True, ["pure (Ctl.next s)"], direct=True)
                self.defs.append(
                    "/-- condition of `%s` -/\n" % head
                    + "def %s (peaks : Arr α) (L : Int) (s : %s α) : Bool := decide (%s)\n\n" % (cname, self.st, c)
                    + "/-- body of `%s` -/\n" % head
                    + "def %s (peaks : Arr α) (L : Int) (s : %s α) :\n    Option (Ctl (%s α)) := do\n"
                    % (bname, self.st, self.st)
                    + "\n".join(body_lines) + "\n")
                out.append(pad + "-- " + head)
                out.append(pad + "let s ← whileLoop (%s peaks L) (%s peaks L) fuel s" % (cname, bname))
            elif k == "if":
                pre = []
                c = self.cmp(st[1], pre)
                out.append(pad + "-- if (%s)" % show(st[1]))
                out += [pad + p for p in pre]
                then = self.flat(st[2])
                if then == [("break",)]:
                    if not direct or st[3] is not None:
                        bad("%s: `break` outside the grammar" % self.cname)
                    out.append(pad + "if %s then pure (Ctl.brk s) else do" % c)
                    continue
                a = self.block(then, ind + 4, in_while, ["pure s"])
                b = self.block(self.flat(st[3]) if st[3] is not None else [], ind + 4, in_while, ["pure s"])
                out.append(pad + "let s ← (if %s then do" % c)
                out += a
                out.append(pad + "  else do")
                out += b
                out[-1] += ")"
            else:
                bad("%s: statement outside the grammar below the top level: %s" % (self.cname, k))
        out += [" " * ind + t for t in tail]
        return out

    # ---- top level: declarations and C-API idioms ------------------------------------------
    def is_null_check(self, st):
        if st[0] != "if" or st[3] is not None or self.flat(st[2]) != [("goto", "fail")]:
            return False

        def nulls(e):
            if e[0] == "bin" and e[1] == "||":
                return nulls(e[2]) and nulls(e[3])
            return e[0] == "bin" and e[1] == "==" and e[2][0] == "id" and e[3] == ("id", "NULL")
        return nulls(st[1])

    def noeffect(self, st):
        if self.is_null_check(st):
            return True
        if st[0] == "expr" and st[1][0] == "call" and st[1][1][0] == "id" \
                and st[1][1][1] in ("Py_DECREF", "Py_XDECREF", "free") and len(st[1][2]) == 1 and st[1][2][0][0] == "id":
            return True
        return False

    def uncast(self, e):
        while e[0] == "cast":
            e = e[1]
        return e

    def slice_return(self, st, lines):
        """`if (c) { … return Py_BuildValue(fmt, slices…) }`"""
        pre = []
        c = self.cmp(st[1], pre)
        if pre or st[3] is not None:
            bad("%s: slicing block outside the grammar" % self.cname)
        stop = None
        slice_name = None
        got = {}
        ret = None
        body = list(self.flat(st[2]))
        flat = []
        for b in body:
            if b[0] == "if" and b[3] is None and b[1][0] == "id" and len(self.flat(b[2])) == 1:
                flat.append(self.flat(b[2])[0])      # `if (srf) sos = …`
            else:
                flat.append(b)
        for b in flat:
            if b[0] == "decl" and b[1] == "PyObject" and len(b[2]) == 1 and b[2][0][0] == 1 and b[2][0][3] is not None:
                init = b[2][0][3]
                if init[0] == "call" and init[1] == ("id", "PyLong_FromSsize_t") and len(init[2]) == 1:
                    stop = (b[2][0][1], init[2][0])
                    continue
                if init[0] == "call" and init[1] == ("id", "PySlice_New") and stop is not None \
                        and init[2] == [("id", "NULL"), ("id", stop[0]), ("id", "NULL")]:
                    slice_name = b[2][0][1]
                    continue
            if b[0] == "expr" and b[1][0] == "assign" and b[1][1] == "=" and b[1][2][0] == "id":
                rhs = self.uncast(b[1][3])
                if rhs[0] == "call" and rhs[1] == ("id", "PyObject_GetItem") and len(rhs[2]) == 2 \
                        and rhs[2][1] == ("id", slice_name) and self.uncast(rhs[2][0])[0] == "id":
                    got[b[1][2][1]] = self.uncast(rhs[2][0])[1]
                    continue
            if b[0] == "return":
                ret = b[1]
                continue
            if self.noeffect(b):
                continue
            bad("%s: statement outside the slicing idiom: %s" % (self.cname, b[0]))
        if stop is None or slice_name is None or ret is None:
            bad("%s: slicing idiom incomplete" % self.cname)
        names = self.build_value(ret)
        srcs = []
        for n in names:
            if n not in got:
                bad("%s: returned %r is not a slice made in this block" % (self.cname, n))
            srcs.append(got[n])
        spre = []
        stop_e = self.iexpr(stop[1], spre)
        if spre:
            bad("%s: slice stop reads an array" % self.cname)
        tys = [self.vtype(n) for n in srcs]
        lines.append("  -- if (%s) { … return Py_BuildValue(…, %s) }   with the slices `[:%s]` of %s"
                     % (show(st[1]), ", ".join(names), show(stop[1]), ", ".join(srcs)))
        lines.append("  if %s then do" % c)
        ts = []
        for n in srcs:
            t = self.fresh()
            lines.append("    let %s ← s.%s.take %s" % (t, n, stop_e))
            ts.append(t)
        lines.append("    pure %s" % (ts[0] if len(ts) == 1 else "(%s)" % ", ".join(ts)))
        lines.append("  else do")
        return tys

    def build_value(self, e):
        if not (e[0] == "call" and e[1] == ("id", "Py_BuildValue") and e[2] and e[2][0][0] == "str"
                and all(a[0] == "id" for a in e[2][1:]) and e[2][0][1] == '"%s"' % ("N" * (len(e[2]) - 1))):
            bad("%s: return value outside the grammar: %s" % (self.cname, show(e)))
        return [a[1] for a in e[2][1:]]

    def translate(self):
        lines = []
        rty = None
        done = False
        sliced = None
        for st in self.stmts:
            if done:
                break
            k = st[0]
            if k == "label":
                if st[1] != "fail":
                    bad("%s: label %s" % (self.cname, st[1]))
                done = True
                continue
            if self.noeffect(st):
                continue
            if k == "decl":
                ty = st[1]
                for stars, name, alen, init in st[2]:
                    if stars:
                        init_u = self.uncast(init) if init is not None else None
                        if init is None or init == ("id", "NULL"):
                            self.pointers[name] = ty
                            continue
                        if init_u[0] == "call" and init_u[1] == ("id", "PyArray_DATA") and len(init_u[2]) == 1 \
                                and init_u[2][0][0] == "id":
                            src = init_u[2][0][1]
                            if src == "peaks_array":
                                if name != "peaks" or ty != "double":
                                    bad("%s: the input vector must be `double *peaks`" % self.cname)
                                self.peaks_alias = True
                                continue
                            tty = self.vtype(src)
                            if (tty, ty) not in ((FTAB, "double"), (ITAB, "npy_intp")):
                                bad("%s: cursor %s into %s has the wrong element type" % (self.cname, name, src))
                            self.declare(name, FCUR if tty == FTAB else ICUR)
                            self.cursor_of[name] = src
                            lines.append("  -- %s *%s = (%s *)PyArray_DATA(%s);" % (ty, name, ty, src))
                            lines.append("  let s := { s with %s := 0 }" % name)
                            continue
                        bad("%s: pointer declaration outside the grammar: %s" % (self.cname, name))
                    if alen is not None:
                        if ty != "npy_intp" or alen != "2" or init is None or init[0] != "init" or len(init[1]) != 2:
                            bad("%s: array declaration outside the grammar: %s" % (self.cname, name))
                        for i, e in enumerate(init[1]):
                            pre = []
                            v = self.iexpr(e, pre)
                            if pre:
                                bad("%s: dims initialiser reads an array" % self.cname)
                            self.declare("%s_%d" % (name, i), INT)
                            lines.append("  -- %s[%d] = %s;" % (name, i, show(e)))
                            lines.append("  let s := { s with %s_%d := %s }" % (name, i, v))
                        continue
                    if ty not in ("double", "npy_intp"):
                        bad("%s: scalar of type %s" % (self.cname, ty))
                    self.declare(name, FLOAT if ty == "double" else INT)
                    if init is not None:
                        lines.append("  -- %s %s = %s;" % (ty, name, show(init)))
                        self.assign_stmt(("assign", "=", ("id", name), init), lines, "  ")
                continue
            if k == "expr" and st[1][0] == "assign" and st[1][1] == "=":
                lhs, rhs = st[1][2], self.uncast(st[1][3])
                # V = calloc(L, sizeof(T))
                if lhs[0] == "id" and rhs[0] == "call" and rhs[1] == ("id", "calloc") and len(rhs[2]) == 2 \
                        and rhs[2][1][0] == "call" and rhs[2][1][1] == ("id", "sizeof"):
                    elt = rhs[2][1][2][0][1] if rhs[2][1][2] and rhs[2][1][2][0][0] == "id" else None
                    if self.pointers.get(lhs[1]) != elt or elt not in ("double", "npy_intp"):
                        bad("%s: calloc element type does not match the pointer %s" % (self.cname, lhs[1]))
                    pre = []
                    n = self.iexpr(rhs[2][0], pre)
                    self.declare(lhs[1], FARR if elt == "double" else IARR)
                    t = self.fresh()
                    lines.append("  -- %s = calloc(%s, sizeof(%s));" % (lhs[1], show(rhs[2][0]), elt))
                    lines.append("  let %s ← Arr.empty %s" % (t, n))
                    lines.append("  let s := { s with %s := %s }" % (lhs[1], t))
                    continue
                # V_array = (PyArrayObject *) PyArray_SimpleNew(2, dims, NPY_X)
                if lhs[0] == "id" and rhs[0] == "call" and rhs[1] == ("id", "PyArray_SimpleNew") and len(rhs[2]) == 3 \
                        and rhs[2][0] == ("num", "2") and rhs[2][1][0] == "id" \
                        and rhs[2][2] in (("id", "NPY_DOUBLE"), ("id", "NPY_INTP")) \
                        and self.pointers.get(lhs[1]) == "PyArrayObject":
                    d = rhs[2][1][1]
                    self.vtype(d + "_0"), self.vtype(d + "_1")
                    self.declare(lhs[1], FTAB if rhs[2][2][1] == "NPY_DOUBLE" else ITAB)
                    t = self.fresh()
                    lines.append("  -- %s = PyArray_SimpleNew(2, %s, %s);" % (lhs[1], d, rhs[2][2][1]))
                    lines.append("  let %s ← Arr2.empty s.%s_0 s.%s_1" % (t, d, d))
                    lines.append("  let s := { s with %s := %s }" % (lhs[1], t))
                    continue
                # dims[1] = INT
                if lhs[0] == "index" and lhs[1][0] == "id" and (lhs[1][1] + "_0") in self.types and lhs[2][0] == "num":
                    pre = []
                    v = self.iexpr(rhs, pre)
                    lines.append("  -- %s;" % show(st[1]))
                    lines.append("  let s := { s with %s_%s := %s }" % (lhs[1][1], lhs[2][1], v))
                    continue
            if k == "if" and any(b[0] == "return" for b in self.flat(st[2])):
                tys = self.slice_return(st, lines)
                sliced = tys
                continue
            if k == "return":
                names = self.build_value(st[1])
                tys = [self.vtype(n) for n in names]
                if sliced is not None and sliced != tys:
                    bad("%s: the two returns have different shapes" % self.cname)
                ind = "    " if sliced is not None else "  "
                lines.append(ind + "-- return Py_BuildValue(…, %s);" % ", ".join(names))
                lines.append(ind + "pure %s" % ("s." + names[0] if len(names) == 1
                                                else "(%s)" % ", ".join("s." + n for n in names)))
                if tys == [FTAB]:
                    rty = "Arr2 α"
                elif tys == [FTAB, ITAB]:
                    rty = "Arr2 α × Arr2 Int"
                else:
                    bad("%s: return type outside the grammar" % self.cname)
                self.nresults = len(tys)
                done = True
                continue
            # ordinary statements of the grammar
            lines += self.block([st], 2, False, [])
        if rty is None:
            bad("%s: no return found" % self.cname)
        if not self.peaks_alias:
            bad("%s: `double *peaks = (double*)PyArray_DATA(peaks_array);` not found" % self.cname)
        rest = self.stmts[self.stmts.index(("label", "fail")) + 1:] if ("label", "fail") in self.stmts else []
        for st in rest:
            if not (self.noeffect(st) or st == ("return", ("id", "NULL"))):
                bad("%s: statement other than cleanup after `fail:`" % self.cname)
        fields = "\n".join("  %s : %s" % (n, LEAN_TY[t]) for n, t in self.types.items())
        init = ", ".join("%s := %s" % (n, LEAN_INIT[t]) for n, t in self.types.items())
        txt = "/-- the variables of `%s` -/\nstructure %s (α : Type) where\n%s\n\n" % (self.cname, self.st, fields)
        txt += "def %s.init {α : Type} : %s α := { %s }\n\n" % (self.st, self.st, init)
        txt += "\n".join(self.defs) + "\n"
        txt += "/-- `%s(peaks_array, L)` -/\n" % self.cname
        txt += "def %s (fuel : Nat) (peaks : Arr α) (L : Int) : Option (%s) := do\n" % (self.name, rty)
        txt += "  let s : %s α := %s.init\n" % (self.st, self.st)
        txt += "\n".join(lines) + "\n"
        return txt


def render(repo):
    path = os.path.join(repo, SRC)
    try:
        raw = open(path, encoding="utf-8").read()
    except OSError as e:
        raise TieBroken("cannot read %s: %s" % (SRC, e))
    text = strip_comments(raw)
    fast_shipped = shipped_fast(raw)
    parts = []
    for variant, fast in (("fast", True), ("slow", False)):
        for fn in ("rainflow1", "rainflow2"):
            body = preprocess(function_body(text, fn), fast)
            f = CFunc(fn, variant, parse_body(body))
            parts.append(f.translate())
    hdr = (
        "/- GENERATED by harness/translate/c05_crain.py from pyyeti/rainflow/c_rain.c — do not edit.\n"
        "   Shallow embedding of `rainflow1` / `rainflow2` for both settings of USE_FASTER_RAINFLOW_ROUTINE\n"
        "   (`_fast`: macro defined, `_slow`: not defined); C subset, idioms and semantics: see the translator's\n"
        "   docstring and Model/RainflowImp.lean. -/\n"
        "import PyYetiVerif.Model.RainflowImp\n"
        "set_option linter.unusedVariables false\n"
        "namespace PyYetiVerif.Generated.CRain\n"
        "open PyYetiVerif.RainflowImp\n\n"
        "/-- does the file itself `#define USE_FASTER_RAINFLOW_ROUTINE`? -/\n"
        "def shippedFast : Bool := %s\n\n"
        "variable {α : Type} [Ops α]\n\n" % ("true" if fast_shipped else "false")
    )
    return hdr + "\n".join(parts) + "\nend PyYetiVerif.Generated.CRain\n"


def generate(repo, lean_dir):
    txt = render(repo)
    path = os.path.join(lean_dir, OUT)
    old = open(path, encoding="utf-8").read() if os.path.exists(path) else None
    if old != txt:
        with open(path, "w", encoding="utf-8") as f:
            f.write(txt)
    return txt
