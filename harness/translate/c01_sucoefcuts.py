"""Translator for C01: the regime cut-offs of pyyeti/ode -> lean/PyYetiVerif/Generated/SuCoefCuts.lean

Read with Python `ast` (the repo code is NOT executed).  Extracted, each from one fixed place and with the
comparison operator checked:

  _utilities.py  get_su_coef
      pvrb = (wo2 < <rbTolCoef>).astype(int)
      pvrb_damped = (abs(C) > <veloNum> / np.sqrt(h)) & pvrb
      pvundr[pvel] = rat >= <underTol>
      pvcrit[pvel] = abs(rat) < <critTol>
      pvover[pvel] = rat <= -<overTol>
      pvdisp = (abs(C[pvvelo]) > <dispFactor> * (<dispBase> / h) ** (<dispRootNum> / <dispRootDen>)).nonzero()[0]
  solveunc.py    SolveUnc._get_complex_su_coefs
      abslam = abs(lam) ; rb = abslam < <cplxSmallTol>
  _base_ode_class.py  _BaseODE._make_rb_el
      tol = <rbTolPart>   and every comparison of that function is `abs(...)[.max(axis=..)] < tol`
                          (one in the uncoupled branch, four in the coupled one)

A literal is emitted twice: as `(mantissa, exponent10)` (what the theorems of Props/C01Cuts.lean are about) and
as a Lean `Float` literal with the digits of the source (what the driver's regime dispatch uses).
Anything outside these shapes raises Unparsable (-> runner.TieBroken).
"""
import ast
import os
from decimal import Decimal

OUT = os.path.join("PyYetiVerif", "Generated", "SuCoefCuts.lean")
UTIL = os.path.join("pyyeti", "ode", "_utilities.py")
UNC = os.path.join("pyyeti", "ode", "solveunc.py")
BASE = os.path.join("pyyeti", "ode", "_base_ode_class.py")


class Unparsable(Exception):
    pass


def _parse(repo, rel):
    path = os.path.join(repo, rel)
    try:
        src = open(path).read()
        return src, ast.parse(src)
    except (OSError, SyntaxError) as e:
        raise Unparsable("cannot parse %s: %s" % (rel, e))


def _func(body, name, where):
    hits = [n for n in body if isinstance(n, ast.FunctionDef) and n.name == name]
    if len(hits) != 1:
        raise Unparsable("%s: function %s not found" % (where, name))
    return hits[0]


def _cls(tree, name, where):
    hits = [n for n in tree.body if isinstance(n, ast.ClassDef) and n.name == name]
    if len(hits) != 1:
        raise Unparsable("%s: class %s not found" % (where, name))
    return hits[0]


def _num(src, node, what):
    """a non-negative numeric literal -> (mantissa, exponent10, text as written)"""
    if not (isinstance(node, ast.Constant) and type(node.value) in (int, float)):
        raise Unparsable("%s is not a numeric literal" % what)
    text = ast.get_source_segment(src, node)
    try:
        d = Decimal(text.replace("_", ""))
    except Exception:
        raise Unparsable("%s: cannot read the literal %r" % (what, text))
    if d < 0 or not d.is_finite():
        raise Unparsable("%s: literal %r out of range" % (what, text))
    sign, digits, exp = d.as_tuple()
    mant = int("".join(str(x) for x in digits))
    while mant and mant % 10 == 0:
        mant //= 10
        exp += 1
    if mant == 0:
        exp = 0
    return mant, int(exp), text


def _assigns(fn, pred):
    return [n for n in ast.walk(fn) if isinstance(n, ast.Assign) and len(n.targets) == 1 and pred(n.targets[0])]


def _name_target(name):
    return lambda t: isinstance(t, ast.Name) and t.id == name


def _sub_target(name):
    return lambda t: isinstance(t, ast.Subscript) and isinstance(t.value, ast.Name) and t.value.id == name


def _one(lst, what):
    if len(lst) != 1:
        raise Unparsable("expected exactly one %s, found %d" % (what, len(lst)))
    return lst[0]


def _is_name(n, name):
    return isinstance(n, ast.Name) and n.id == name


def _is_abs_of(n, pred):
    return (isinstance(n, ast.Call) and isinstance(n.func, ast.Name) and n.func.id == "abs" and len(n.args) == 1
            and pred(n.args[0]))


def _compare(n, op, what):
    if not (isinstance(n, ast.Compare) and len(n.ops) == 1 and isinstance(n.ops[0], op) and len(n.comparators) == 1):
        raise Unparsable("%s is not a single `%s` comparison" % (what, op.__name__))
    return n.left, n.comparators[0]


def extract(repo):
    c = {}
    # ---- get_su_coef -------------------------------------------------------------------------------
    src, tree = _parse(repo, UTIL)
    fn = _func(tree.body, "get_su_coef", UTIL)
    # pvrb = (wo2 < 0.005).astype(int)       (the other assignment to pvrb is np.zeros(n, int))
    hits = []
    for a in _assigns(fn, _name_target("pvrb")):
        v = a.value
        if (isinstance(v, ast.Call) and isinstance(v.func, ast.Attribute) and v.func.attr == "astype"
                and isinstance(v.func.value, ast.Compare)):
            hits.append(v.func.value)
    left, right = _compare(_one(hits, "`pvrb = (wo2 < c).astype(int)`"), ast.Lt, "pvrb auto-detection")
    if not _is_name(left, "wo2"):
        raise Unparsable("pvrb auto-detection does not test wo2")
    c["rbTolCoef"] = _num(src, right, "rigid-body tolerance of get_su_coef")
    # pvrb_damped = (abs(C) > 1e-5 / np.sqrt(h)) & pvrb
    v = _one(_assigns(fn, _name_target("pvrb_damped")), "`pvrb_damped = ...`").value
    if not (isinstance(v, ast.BinOp) and isinstance(v.op, ast.BitAnd) and _is_name(v.right, "pvrb")):
        raise Unparsable("pvrb_damped is not `(...) & pvrb`")
    left, right = _compare(v.left, ast.Gt, "velocity cut-off")
    ok = (_is_abs_of(left, lambda x: _is_name(x, "C")) and isinstance(right, ast.BinOp) and isinstance(right.op, ast.Div)
          and isinstance(right.right, ast.Call) and isinstance(right.right.func, ast.Attribute)
          and right.right.func.attr == "sqrt" and len(right.right.args) == 1 and _is_name(right.right.args[0], "h"))
    if not ok:
        raise Unparsable("velocity cut-off is not `abs(C) > c / np.sqrt(h)`")
    c["veloNum"] = _num(src, right.left, "numerator of the velocity cut-off")
    # pvundr[pvel] = rat >= 1.0e-8 ; pvcrit[pvel] = abs(rat) < 1.0e-8 ; pvover[pvel] = rat <= -1e-8
    left, right = _compare(_one(_assigns(fn, _sub_target("pvundr")), "`pvundr[pvel] = ...`").value, ast.GtE, "pvundr")
    if not _is_name(left, "rat"):
        raise Unparsable("pvundr does not test rat")
    c["underTol"] = _num(src, right, "under-damped tolerance")
    left, right = _compare(_one(_assigns(fn, _sub_target("pvcrit")), "`pvcrit[pvel] = ...`").value, ast.Lt, "pvcrit")
    if not _is_abs_of(left, lambda x: _is_name(x, "rat")):
        raise Unparsable("pvcrit does not test abs(rat)")
    c["critTol"] = _num(src, right, "critical tolerance")
    left, right = _compare(_one(_assigns(fn, _sub_target("pvover")), "`pvover[pvel] = ...`").value, ast.LtE, "pvover")
    if not (_is_name(left, "rat") and isinstance(right, ast.UnaryOp) and isinstance(right.op, ast.USub)):
        raise Unparsable("pvover is not `rat <= -c`")
    c["overTol"] = _num(src, right.operand, "over-damped tolerance")
    # pvdisp = (abs(C[pvvelo]) > 10 * (1e-10 / h) ** (1 / 3)).nonzero()[0]
    v = _one(_assigns(fn, _name_target("pvdisp")), "`pvdisp = ...`").value
    try:
        cmp_ = v.value.func.value
        assert isinstance(v, ast.Subscript) and v.value.func.attr == "nonzero"
    except (AttributeError, AssertionError):
        raise Unparsable("pvdisp is not `(...).nonzero()[0]`")
    left, right = _compare(cmp_, ast.Gt, "displacement cut-off")
    ok = (_is_abs_of(left, lambda x: isinstance(x, ast.Subscript) and _is_name(x.value, "C"))
          and isinstance(right, ast.BinOp) and isinstance(right.op, ast.Mult)
          and isinstance(right.right, ast.BinOp) and isinstance(right.right.op, ast.Pow)
          and isinstance(right.right.left, ast.BinOp) and isinstance(right.right.left.op, ast.Div)
          and _is_name(right.right.left.right, "h")
          and isinstance(right.right.right, ast.BinOp) and isinstance(right.right.right.op, ast.Div))
    if not ok:
        raise Unparsable("displacement cut-off is not `abs(C[pvvelo]) > f * (c / h) ** (p / q)`")
    c["dispFactor"] = _num(src, right.left, "factor of the displacement cut-off")
    c["dispBase"] = _num(src, right.right.left.left, "base of the displacement cut-off")
    c["dispRootNum"] = _num(src, right.right.right.left, "exponent numerator of the displacement cut-off")
    c["dispRootDen"] = _num(src, right.right.right.right, "exponent denominator of the displacement cut-off")
    # ---- _get_complex_su_coefs -------------------------------------------------------------------
    src, tree = _parse(repo, UNC)
    fn = _func(_cls(tree, "SolveUnc", UNC).body, "_get_complex_su_coefs", UNC)
    v = _one(_assigns(fn, _name_target("abslam")), "`abslam = ...`").value
    if not _is_abs_of(v, lambda x: _is_name(x, "lam")):
        raise Unparsable("abslam is not abs(lam)")
    left, right = _compare(_one(_assigns(fn, _name_target("rb")), "`rb = abslam < c`").value, ast.Lt, "small-eigenvalue test")
    if not _is_name(left, "abslam"):
        raise Unparsable("small-eigenvalue test does not test abslam")
    c["cplxSmallTol"] = _num(src, right, "small-eigenvalue tolerance")
    # ---- _make_rb_el -----------------------------------------------------------------------------
    src, tree = _parse(repo, BASE)
    fn = _func(_cls(tree, "_BaseODE", BASE).body, "_make_rb_el", BASE)
    c["rbTolPart"] = _num(src, _one(_assigns(fn, _name_target("tol")), "`tol = c` in _make_rb_el").value,
                          "rigid-body tolerance of _make_rb_el")
    cmps = [n for n in ast.walk(fn) if isinstance(n, ast.Compare)]
    tolcmp = [n for n in cmps if any(_is_name(x, "tol") for x in n.comparators) or _is_name(n.left, "tol")]
    for n in tolcmp:
        left, right = _compare(n, ast.Lt, "a tolerance test of _make_rb_el")
        if not _is_name(right, "tol"):
            raise Unparsable("a tolerance test of _make_rb_el is not `... < tol`")
        inner = left
        if (isinstance(inner, ast.Call) and isinstance(inner.func, ast.Attribute) and inner.func.attr == "max"):
            inner = inner.func.value
        if not _is_abs_of(inner, lambda x: isinstance(x, ast.Attribute) and x.attr in ("k", "b")):
            raise Unparsable("a tolerance test of _make_rb_el is not on abs(self.k) / abs(self.b)")
    if len(tolcmp) != 5:
        raise Unparsable("_make_rb_el: expected 5 tests `< tol` (1 uncoupled, 4 coupled), found %d" % len(tolcmp))
    return c


DOC = {
    "rbTolCoef": "get_su_coef: `pvrb = (wo2 < c)` (rbmodes is None)",
    "veloNum": "get_su_coef: `pvrb_damped = (abs(C) > c / np.sqrt(h)) & pvrb`",
    "underTol": "get_su_coef: `pvundr[pvel] = rat >= c`",
    "critTol": "get_su_coef: `pvcrit[pvel] = abs(rat) < c`",
    "overTol": "get_su_coef: `pvover[pvel] = rat <= -c`",
    "dispFactor": "get_su_coef: `abs(C[pvvelo]) > f * (c / h) ** (p / q)`: f",
    "dispBase": "get_su_coef: `abs(C[pvvelo]) > f * (c / h) ** (p / q)`: c",
    "dispRootNum": "get_su_coef: `abs(C[pvvelo]) > f * (c / h) ** (p / q)`: p",
    "dispRootDen": "get_su_coef: `abs(C[pvvelo]) > f * (c / h) ** (p / q)`: q",
    "cplxSmallTol": "SolveUnc._get_complex_su_coefs: `rb = abslam < c`",
    "rbTolPart": "_BaseODE._make_rb_el: `tol = c` (all five tests are `abs(...) < tol`)",
}
ORDER = ["rbTolCoef", "underTol", "critTol", "overTol", "veloNum", "dispFactor", "dispBase", "dispRootNum",
         "dispRootDen", "cplxSmallTol", "rbTolPart"]


def _float_text(text):
    """the source's digits as a Lean Float literal (Lean wants a digit on both sides of the point)"""
    t = text.replace("_", "")
    if t.lower().startswith("."):
        t = "0" + t
    if "." not in t and "e" not in t.lower():
        t += ".0"
    if "." in t:
        a, b = t.split(".", 1)
        if b == "" or b[0] in "eE":
            t = a + ".0" + b
    return t


def render(c):
    out = ["/- GENERATED by harness/translate/c01_sucoefcuts.py from pyyeti/ode/_utilities.py, solveunc.py,",
           "_base_ode_class.py — do not edit.  Each literal as (mantissa, exponent10) and as the Float the source reads. -/",
           "namespace PyYetiVerif.Generated.SuCoefCuts", ""]
    for k in ORDER:
        mant, exp, text = c[k]
        out.append("/-- %s -/" % DOC[k])
        out.append("def %s : Nat × Int := (%d, %d)" % (k, mant, exp))
        out.append("def %sF : Float := %s" % (k, _float_text(text)))
    out += ["", "end PyYetiVerif.Generated.SuCoefCuts", ""]
    return "\n".join(out)


def run(repo, lean):
    c = extract(repo)
    text = render(c)
    path = os.path.join(lean, OUT)
    old = open(path).read() if os.path.exists(path) else None
    if old != text:
        with open(path, "w") as f:
            f.write(text)
    return {k: "%de%d" % (v[0], v[1]) for k, v in c.items()}


if __name__ == "__main__":
    import sys

    repo = sys.argv[1] if len(sys.argv) > 1 else "/repo"
    print(render(extract(repo)))
