"""Translator for C04/C11: pyyeti/nastran/op4.py -> lean/PyYetiVerif/Generated/Op4Consts.lean

Read with Python `ast` (the repo code is NOT executed).  Extracted, each from one fixed place:

  OP4.__init__                self._rows4bigmat = <int> ; self._rowsCutoff = <int>
  OP4._write_ascii_header     numlen = digits + <int> + self._expdigits ; perline = <int> // numlen
  OP4._write_binary_header    struct.pack(endian + "5i8si", <reclen>, cols, rows, form, mtype, name, <reclen>)
  OP4._write_{binary,ascii}_nonbigmat   IS = (r0 + 1) + ((L + 1) << <int>)      (both writers, must agree)
  OP4._rd_nonbigmat_{binary,ascii}, _skipop4_ascii
                              L = (IS >> <int>) - 1 ; r = IS - ((L + 1) << <int>) - 1   (all must agree)
  OP4._loadop4_ascii          perline = <int> ; numlen = <int>  (the defaults when no format is announced);
                              the title-line slices of the `|I16` branch and of the plain branch must be
                              (0,w) (w,2w) (2w,2w+8) (2w+8,2w+16) (2w+16,2w+24) with w = <int> each
  OP4._rd_{dense,bigmat,nonbigmat}_ascii, _skipop4_ascii, _loadop4_ascii (second pair)
                              c_slice/r_slice/e_slice must be slice(0,8)/slice(8,16)/slice(16,24)
                              (the Lean reader model spells these three as literals)

Anything outside these shapes raises Unparsable (-> runner.TieBroken).
"""
import ast
import os

SRC = os.path.join("pyyeti", "nastran", "op4.py")
OUT = os.path.join("PyYetiVerif", "Generated", "Op4Consts.lean")


class Unparsable(Exception):
    pass


def _func(cls, name):
    for n in cls.body:
        if isinstance(n, ast.FunctionDef) and n.name == name:
            return n
    raise Unparsable("OP4.%s not found" % name)


def _int(node, what):
    if isinstance(node, ast.Constant) and type(node.value) is int and node.value >= 0:
        return node.value
    raise Unparsable("%s is not a non-negative int literal" % what)


def _self_assign(fn, attr):
    vals = []
    for n in ast.walk(fn):
        if isinstance(n, ast.Assign) and len(n.targets) == 1:
            t = n.targets[0]
            if isinstance(t, ast.Attribute) and isinstance(t.value, ast.Name) and t.value.id == "self" and t.attr == attr:
                vals.append(_int(n.value, "self." + attr))
    if len(vals) != 1:
        raise Unparsable("expected exactly one `self.%s = <int>` in %s" % (attr, fn.name))
    return vals[0]


def _name_assign(fn, name):
    hits = [n for n in ast.walk(fn) if isinstance(n, ast.Assign) and len(n.targets) == 1
            and isinstance(n.targets[0], ast.Name) and n.targets[0].id == name]
    if len(hits) != 1:
        raise Unparsable("expected exactly one `%s = ...` in %s" % (name, fn.name))
    return hits[0].value


def _shifts(fn, op):
    out = []
    for n in ast.walk(fn):
        if isinstance(n, ast.BinOp) and isinstance(n.op, op):
            out.append(_int(n.right, "shift amount in " + fn.name))
    return out


def extract(repo):
    path = os.path.join(repo, SRC)
    try:
        tree = ast.parse(open(path).read())
    except (OSError, SyntaxError) as e:
        raise Unparsable("cannot parse %s: %s" % (SRC, e))
    cls = [n for n in tree.body if isinstance(n, ast.ClassDef) and n.name == "OP4"]
    if len(cls) != 1:
        raise Unparsable("class OP4 not found")
    cls = cls[0]
    c = {}
    init = _func(cls, "__init__")
    c["rows4bigmat"] = _self_assign(init, "_rows4bigmat")
    c["rowsCutoff"] = _self_assign(init, "_rowsCutoff")

    hdr = _func(cls, "_write_ascii_header")
    v = _name_assign(hdr, "numlen")
    # digits + K + self._expdigits
    ok = (isinstance(v, ast.BinOp) and isinstance(v.op, ast.Add) and isinstance(v.left, ast.BinOp)
          and isinstance(v.left.op, ast.Add) and isinstance(v.left.left, ast.Name) and v.left.left.id == "digits"
          and isinstance(v.right, ast.Attribute) and v.right.attr == "_expdigits")
    if not ok:
        raise Unparsable("numlen is not `digits + <int> + self._expdigits`")
    c["numlenBase"] = _int(v.left.right, "numlen constant")
    v = _name_assign(hdr, "perline")
    if not (isinstance(v, ast.BinOp) and isinstance(v.op, ast.FloorDiv) and isinstance(v.right, ast.Name) and v.right.id == "numlen"):
        raise Unparsable("perline is not `<int> // numlen`")
    c["lineWidth"] = _int(v.left, "line width")

    bh = _func(cls, "_write_binary_header")
    packs = [n for n in ast.walk(bh) if isinstance(n, ast.Call) and isinstance(n.func, ast.Attribute) and n.func.attr == "pack"]
    if len(packs) != 1:
        raise Unparsable("expected one struct.pack in _write_binary_header")
    p = packs[0]
    fmt = p.args[0]
    if not (isinstance(fmt, ast.BinOp) and isinstance(fmt.right, ast.Constant) and fmt.right.value == "5i8si" and len(p.args) == 8):
        raise Unparsable("binary header is not struct.pack(endian + '5i8si', 7 values)")
    a, b = _int(p.args[1], "header reclen"), _int(p.args[7], "header reclen")
    order = [getattr(x, "id", None) for x in p.args[2:7]]
    if a != b or order != ["cols", "rows", "form", "mtype", "name"]:
        raise Unparsable("binary header fields are not (reclen, cols, rows, form, mtype, name, reclen)")
    c["hdrReclen"] = a

    w = []
    for fn in ("_write_binary_nonbigmat", "_write_ascii_nonbigmat"):
        s = _shifts(_func(cls, fn), ast.LShift)
        if len(s) != 1:
            raise Unparsable("expected exactly one `<<` in " + fn)
        w += s
    if len(set(w)) != 1:
        raise Unparsable("the two nonbigmat writers shift by different amounts: %s" % w)
    c["isShiftW"] = w[0]
    r = []
    for fn in ("_rd_nonbigmat_binary", "_rd_nonbigmat_ascii"):
        f = _func(cls, fn)
        a, b = _shifts(f, ast.RShift), _shifts(f, ast.LShift)
        if len(a) != 1 or len(b) != 1:
            raise Unparsable("expected one `>>` and one `<<` in " + fn)
        r += a + b
    r += _shifts(_func(cls, "_skipop4_ascii"), ast.RShift)
    if len(set(r)) != 1:
        raise Unparsable("the nonbigmat readers shift by different amounts: %s" % r)
    c["isShiftR"] = r[0]

    # ---- ASCII reader -------------------------------------------------------------------------
    la = _func(cls, "_loadop4_ascii")
    for nm, key in (("perline", "defaultPerline"), ("numlen", "defaultNumlen")):
        lits = [n.value for n in ast.walk(la) if isinstance(n, ast.Assign) and len(n.targets) == 1
                and isinstance(n.targets[0], ast.Name) and n.targets[0].id == nm and isinstance(n.value, ast.Constant)]
        if len(lits) != 1:
            raise Unparsable("expected exactly one `%s = <int>` default in _loadop4_ascii" % nm)
        c[key] = _int(lits[0], "default " + nm)

    def slices(stmts, where):
        out = {}
        for st in stmts:
            if (isinstance(st, ast.Assign) and len(st.targets) == 1 and isinstance(st.targets[0], ast.Name)
                    and st.targets[0].id.endswith("_slice")):
                v = st.value
                if not (isinstance(v, ast.Call) and isinstance(v.func, ast.Name) and v.func.id == "slice" and len(v.args) == 2):
                    raise Unparsable("%s: %s is not slice(<int>, <int>)" % (where, st.targets[0].id))
                key = st.targets[0].id
                val = (_int(v.args[0], key), _int(v.args[1], key))
                if key in out and out[key] != val:
                    raise Unparsable("%s: %s assigned two different slices" % (where, key))
                out[key] = val
        return out

    ifs = [n for n in ast.walk(la) if isinstance(n, ast.If) and isinstance(n.test, ast.Call)
           and isinstance(n.test.func, ast.Attribute) and n.test.func.attr == "endswith"
           and len(n.test.args) == 1 and isinstance(n.test.args[0], ast.Constant) and n.test.args[0].value == "|I16"]
    if len(ifs) != 1:
        raise Unparsable("expected one `if line.endswith('|I16')` in _loadop4_ascii")
    cut = [st for st in ifs[0].body if isinstance(st, ast.Assign) and isinstance(st.targets[0], ast.Name) and st.targets[0].id == "line"]
    ok = (len(cut) == 1 and isinstance(cut[0].value, ast.Subscript) and isinstance(cut[0].value.slice, ast.Slice)
          and cut[0].value.slice.lower is None and isinstance(cut[0].value.slice.upper, ast.UnaryOp)
          and isinstance(cut[0].value.slice.upper.op, ast.USub) and _int(cut[0].value.slice.upper.operand, "cut") == 4)
    if not ok:
        raise Unparsable("the |I16 branch does not cut the line with line[:-4]")
    for stmts, key in ((ifs[0].body, "hdrWidthBig"), (ifs[0].orelse, "hdrWidthSmall")):
        sl = slices(stmts, "_loadop4_ascii title line")
        if set(sl) != {"c_slice", "r_slice", "f_slice", "t_slice", "n_slice"}:
            raise Unparsable("title-line slices are not c/r/f/t/n")
        w = sl["c_slice"][1]
        want = {"c_slice": (0, w), "r_slice": (w, 2 * w), "f_slice": (2 * w, 2 * w + 8), "t_slice": (2 * w + 8, 2 * w + 16),
                "n_slice": (2 * w + 16, 2 * w + 24)}
        if sl != want:
            raise Unparsable("title-line slices %s are not the contiguous layout of width %d" % (sl, w))
        c[key] = w
    # the column-header slices (literals in the Lean model)
    direct = slices(la.body, "_loadop4_ascii column header")
    if direct != {"c_slice": (0, 8), "r_slice": (8, 16)}:
        raise Unparsable("_loadop4_ascii reads the first column header with %s" % direct)
    for fn, want in (("_rd_dense_ascii", {"c_slice": (0, 8), "r_slice": (8, 16), "e_slice": (16, 24)}),
                     ("_rd_bigmat_ascii", {"c_slice": (0, 8), "r_slice": (8, 16), "e_slice": (16, 24)}),
                     ("_rd_nonbigmat_ascii", {"c_slice": (0, 8), "e_slice": (16, 24)}),
                     ("_skipop4_ascii", {"c_slice": (0, 8), "r_slice": (8, 16), "e_slice": (16, 24)})):
        got = slices(_func(cls, fn).body, fn)
        if got != want:
            raise Unparsable("%s: column-header slices are %s, the model has %s" % (fn, got, want))
    return c


ORDER = ["rows4bigmat", "rowsCutoff", "numlenBase", "lineWidth", "hdrReclen", "isShiftW", "isShiftR",
         "defaultPerline", "defaultNumlen", "hdrWidthSmall", "hdrWidthBig"]
DOC = {
    "rows4bigmat": "OP4.__init__: self._rows4bigmat",
    "rowsCutoff": "OP4.__init__: self._rowsCutoff (struct.unpack vs numpy.fromfile switch)",
    "numlenBase": "_write_ascii_header: numlen = digits + numlenBase + expdigits",
    "lineWidth": "_write_ascii_header: perline = lineWidth // numlen",
    "hdrReclen": "_write_binary_header: record length of the 5i8si header record",
    "isShiftW": "nonbigmat writers: IS = (r0 + 1) + ((L + 1) << isShiftW)",
    "isShiftR": "nonbigmat readers: L = (IS >> isShiftR) - 1",
    "defaultPerline": "_loadop4_ascii: values per line when the title line announces no format",
    "defaultNumlen": "_loadop4_ascii: field width when the title line announces no format",
    "hdrWidthSmall": "_loadop4_ascii: width of the cols/rows fields of a plain title line",
    "hdrWidthBig": "_loadop4_ascii: width of the cols/rows fields of a title line ending in |I16",
}


def render(c):
    lines = [
        "/- GENERATED by harness/translate/c04_op4consts.py from pyyeti/nastran/op4.py — do not edit. -/",
        "namespace PyYetiVerif.Generated.Op4Consts",
        "",
    ]
    for k in ORDER:
        lines.append("/-- %s -/" % DOC[k])
        lines.append("def %s : Nat := %d" % (k, c[k]))
    lines += ["", "end PyYetiVerif.Generated.Op4Consts", ""]
    return "\n".join(lines)


def run(repo, lean_dir):
    c = extract(repo)
    text = render(c)
    out = os.path.join(lean_dir, OUT)
    old = open(out).read() if os.path.exists(out) else None
    if old != text:
        os.makedirs(os.path.dirname(out), exist_ok=True)
        with open(out, "w") as f:
            f.write(text)
    return c
