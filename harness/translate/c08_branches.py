"""Translator for C08: which generator branch writes which array at which index.

Reads pyyeti/ode/solveunc.py and pyyeti/ode/solveexp2.py with `ast` (the repo code is NOT
executed) and writes lean/PyYetiVerif/Generated/GenMachineBranches.lean: for every `while True:`
loop of the four generator functions

    SolveUnc._solve_real_unc_generator, SolveUnc._solve_real_unc_generator_cdforces,
    SolveUnc._solve_complex_unc_generator, SolveExp2._solve_se2_generator

and for each of its two branches (`j < 0`: add-on; otherwise: (re)solve step `i = j`) the list of
accesses to the shared arrays (`Force`, `d`, `v`, `a` and their views `D = d[kdof]`,
`V = v[kdof]`, `drf = d[rf]`, `drb = d[rb]`, `vrb = v[rb]`, `arb = a[rb]`): array, row part,
column index (`i`, `i - 1`, anything else), plain or augmented assignment, and the value of an
enclosing `order == 1` test if there is one; plus which of the persistent locals `i`, `i_last`,
`dmpfrc1` the branch assigns, and whether `i = j` is the branch's first statement.

Grammar accepted (anything else raises TieBroken — the tie is then broken and the runner searches
for a failing input): the loop body is `j, F1 = yield` followed by one `if j < 0: … else: …`;
branches consist of assignments, augmented assignments and nested `if`s; shared arrays are
touched only through 2-d subscripts `X[rows, col]`; views are bound outside the loops by
`X = base[part]` with `part` a plain name, consistently within a function; `Force = self._force`.
"""
import ast
import os

from runner import TieBroken

FUNCS = [
    ("solveunc.py", "SolveUnc", "_solve_real_unc_generator", "realUnc"),
    ("solveunc.py", "SolveUnc", "_solve_real_unc_generator_cdforces", "realUncCdf"),
    ("solveunc.py", "SolveUnc", "_solve_complex_unc_generator", "cplx"),
    ("solveexp2.py", "SolveExp2", "_solve_se2_generator", "se2"),
]
BASES = ("d", "v", "a")
PARTS = ("kdof", "rb", "rf")
PERSIST = ("i", "i_last", "dmpfrc1")


def _src(node):
    return ast.unparse(node)


class _Fn:
    def __init__(self, fname, node):
        self.fname = fname
        self.node = node
        self.alias = {"Force": ("Force", "all"), "d": ("d", "all"), "v": ("v", "all"), "a": ("a", "all")}
        self.force_bound = False
        self.branches = []

    def bad(self, node, why):
        raise TieBroken("%s line %d: %s" % (self.fname, getattr(node, "lineno", 0), why))

    # -- views ------------------------------------------------------------------------------
    def collect_aliases(self):
        for st in ast.walk(self.node):
            if isinstance(st, ast.Assign) and len(st.targets) == 1 and isinstance(st.targets[0], ast.Name):
                name = st.targets[0].id
                val = st.value
                if name == "Force":
                    if not (isinstance(val, ast.Attribute) and _src(val) == "self._force"):
                        self.bad(st, "`Force` is not bound to self._force")
                    self.force_bound = True
                elif isinstance(val, ast.Subscript) and isinstance(val.value, ast.Name) and val.value.id in BASES \
                        and isinstance(val.slice, ast.Name):
                    part = val.slice.id
                    if part not in PARTS:
                        self.bad(st, "view %s = %s: unknown row partition" % (name, _src(val)))
                    ent = (val.value.id, part)
                    if self.alias.get(name, ent) != ent:
                        self.bad(st, "view %s bound inconsistently" % name)
                    self.alias[name] = ent
                elif name in self.alias and name not in ("Force",):
                    self.bad(st, "shared array name %s rebound to %s" % (name, _src(val)))
        if not self.force_bound:
            self.bad(self.node, "no `Force = self._force`")

    # -- loops ------------------------------------------------------------------------------
    def scan(self, body, guards):
        for st in body:
            if isinstance(st, ast.While):
                if not (isinstance(st.test, ast.Constant) and st.test.value is True) or st.orelse:
                    self.bad(st, "loop is not `while True:`")
                self.loop(st, guards)
            elif isinstance(st, ast.If):
                t = _src(st.test)
                self.scan(st.body, guards + [(t, True)])
                self.scan(st.orelse, guards + [(t, False)])
            elif isinstance(st, (ast.For, ast.With, ast.Try, ast.FunctionDef)):
                self.bad(st, "unexpected compound statement in a generator function")

    def loop(self, wh, guards):
        body = wh.body
        if len(body) != 2:
            self.bad(wh, "loop body is not `j, F1 = yield` + one `if`")
        y, br = body
        ok = (isinstance(y, ast.Assign) and isinstance(y.value, ast.Yield) and y.value.value is None
              and isinstance(y.targets[0], ast.Tuple) and [e.id for e in y.targets[0].elts] == ["j", "F1"])
        if not ok:
            self.bad(y, "loop does not start with `j, F1 = yield`")
        if not (isinstance(br, ast.If) and _src(br.test) == "j < 0" and br.orelse):
            self.bad(br, "loop does not branch on `j < 0` with an else part")
        for neg, stmts in ((True, br.body), (False, br.orelse)):
            b = dict(fn=self.fname, guards=guards, neg=neg, line=stmts[0].lineno, acc=[], assigns=[],
                     sets_i_first=False,
                     rf_only=any(taken and t.replace("self.", "") in ("not ksize",) for t, taken in guards))
            first = stmts[0]
            if isinstance(first, ast.Assign) and _src(first) == "i = j":
                b["sets_i_first"] = True
            self.block(stmts, b, self.order_of(guards))
            self.branches.append(b)

    @staticmethod
    def order_of(guards, base=None):
        o = base
        for t, taken in guards:
            tt = t.replace("self.", "")
            if tt == "order == 1":
                o = taken
            elif tt == "order == 0":
                o = not taken
        return o

    def block(self, stmts, b, order):
        for st in stmts:
            if isinstance(st, ast.If):
                t = _src(st.test)
                self.reads(st.test, b, order)
                self.block(st.body, b, self.order_of([(t, True)], order))
                self.block(st.orelse, b, self.order_of([(t, False)], order))
            elif isinstance(st, ast.Assign):
                if len(st.targets) != 1:
                    self.bad(st, "chained assignment")
                self.target(st.targets[0], False, b, order, st)
                self.reads(st.value, b, order)
            elif isinstance(st, ast.AugAssign):
                if not isinstance(st.op, ast.Add):
                    self.bad(st, "augmented assignment other than +=")
                self.target(st.target, True, b, order, st)
                self.reads(st.value, b, order)
            else:
                self.bad(st, "statement other than assignment / if inside a generator branch: %s" % type(st).__name__)

    def col(self, node):
        if isinstance(node, ast.Name) and node.id == "i":
            return "cur"
        if isinstance(node, ast.BinOp) and isinstance(node.op, ast.Sub) and isinstance(node.left, ast.Name) \
                and node.left.id == "i" and isinstance(node.right, ast.Constant) and node.right.value == 1:
            return "prev"
        return "other"

    def access(self, sub, st):
        name = sub.value.id
        base, part = self.alias[name]
        sl = sub.slice
        if not (isinstance(sl, ast.Tuple) and len(sl.elts) == 2):
            self.bad(st, "shared array %s is not subscripted `[rows, column]`" % name)
        rows, colx = sl.elts
        if isinstance(rows, ast.Slice) and rows.lower is None and rows.upper is None and rows.step is None:
            pass
        elif isinstance(rows, ast.Name) and rows.id in PARTS and part == "all":
            part = rows.id
        else:
            self.bad(st, "row index of %s is neither `:` nor a partition name" % name)
        return base, part, self.col(colx)

    def target(self, tg, aug, b, order, st):
        if isinstance(tg, ast.Name):
            if tg.id in self.alias:
                self.bad(st, "shared array name %s rebound inside a branch" % tg.id)
            if tg.id in PERSIST:
                b["assigns"].append(tg.id)
            return
        if isinstance(tg, ast.Tuple):
            for e in tg.elts:
                self.target(e, aug, b, order, st)
            return
        if isinstance(tg, ast.Subscript) and isinstance(tg.value, ast.Name):
            if tg.value.id in self.alias:
                base, part, col = self.access(tg, st)
                b["acc"].append(dict(write=True, base=base, part=part, col=col, aug=aug, order=order))
                if aug:  # += reads the cell too
                    b["acc"].append(dict(write=False, base=base, part=part, col=col, aug=False, order=order))
                return
            return  # a local vector
        self.bad(st, "unexpected assignment target")

    def reads(self, expr, b, order):
        for node in ast.walk(expr):
            if isinstance(node, ast.Subscript) and isinstance(node.value, ast.Name) and node.value.id in self.alias:
                base, part, col = self.access(node, node)
                b["acc"].append(dict(write=False, base=base, part=part, col=col, aug=False, order=order))
            elif isinstance(node, ast.Name) and node.id in self.alias and isinstance(node.ctx, ast.Load):
                pass  # (inside a Subscript handled above; a bare load would be caught next)
        for node in ast.walk(expr):
            if isinstance(node, ast.Name) and node.id in self.alias:
                # must be the `.value` of a Subscript
                par_ok = any(isinstance(p, ast.Subscript) and p.value is node for p in ast.walk(expr))
                if not par_ok:
                    self.bad(expr, "shared array %s used without `[rows, column]`" % node.id)


def _find(tree, cls, fn):
    for node in tree.body:
        if isinstance(node, ast.ClassDef) and node.name == cls:
            for st in node.body:
                if isinstance(st, ast.FunctionDef) and st.name == fn:
                    return st
    return None


def extract(repo):
    out = []
    trees = {}
    for fname, cls, fn, tag in FUNCS:
        path = os.path.join(repo, "pyyeti", "ode", fname)
        if fname not in trees:
            try:
                trees[fname] = ast.parse(open(path, encoding="utf-8").read())
            except (OSError, SyntaxError) as e:
                raise TieBroken("cannot parse %s: %s" % (path, e))
        node = _find(trees[fname], cls, fn)
        if node is None:
            raise TieBroken("%s.%s not found in %s" % (cls, fn, fname))
        f = _Fn(tag, node)
        f.collect_aliases()
        f.scan(node.body, [])
        if not f.branches:
            raise TieBroken("%s.%s: no `while True:` loop found" % (cls, fn))
        out += f.branches
    return out


def _lean_opt(o):
    return "none" if o is None else ("(some true)" if o else "(some false)")


def render(branches):
    L = []
    L.append("/-")
    L.append("GENERATED by harness/translate/c08_branches.py from pyyeti/ode/solveunc.py and")
    L.append("pyyeti/ode/solveexp2.py — do not edit.  One entry per branch of every `while True:` loop of")
    L.append("the four generator functions: the accesses to the shared arrays and the persistent locals")
    L.append("assigned.  Core Lean only.")
    L.append("-/")
    L.append("namespace PyYetiVerif.Generated.GenBranches")
    L.append("")
    L.append("inductive Fn where | realUnc | realUncCdf | cplx | se2 deriving DecidableEq, Repr")
    L.append("inductive Arr where | Force | d | v | a deriving DecidableEq, Repr")
    L.append("inductive Rows where | all | kdof | rb | rf deriving DecidableEq, Repr")
    L.append("inductive Col where | cur | prev | other deriving DecidableEq, Repr")
    L.append("inductive Loc where | i | i_last | dmpfrc1 deriving DecidableEq, Repr")
    L.append("")
    L.append("/-- `order`: the value of an enclosing `order == 1` test, if any -/")
    L.append("structure Access where")
    L.append("  write : Bool")
    L.append("  arr : Arr")
    L.append("  rows : Rows")
    L.append("  col : Col")
    L.append("  aug : Bool")
    L.append("  order : Option Bool")
    L.append("  deriving DecidableEq, Repr")
    L.append("")
    L.append("/-- `neg`: the `j < 0` (add-on) branch; `line`: source line of its first statement; `rfOnly`: the")
    L.append("loop under `if not ksize` (a solver with residual-flexibility rows only) -/")
    L.append("structure Branch where")
    L.append("  fn : Fn")
    L.append("  line : Nat")
    L.append("  neg : Bool")
    L.append("  setsIFirst : Bool")
    L.append("  rfOnly : Bool")
    L.append("  assigns : List Loc")
    L.append("  acc : List Access")
    L.append("  deriving Repr")
    L.append("")
    L.append("def branches : List Branch := [")
    rows = []
    for b in branches:
        acc = ",\n      ".join(
            "⟨%s, .%s, .%s, .%s, %s, %s⟩" % ("true" if a["write"] else "false", a["base"], a["part"], a["col"],
                                             "true" if a["aug"] else "false", _lean_opt(a["order"]))
            for a in b["acc"])
        rows.append("  { fn := .%s, line := %d, neg := %s, setsIFirst := %s, rfOnly := %s,\n    assigns := [%s],\n    acc := [\n      %s] }"
                    % (b["fn"], b["line"], "true" if b["neg"] else "false", "true" if b["sets_i_first"] else "false",
                       "true" if b["rf_only"] else "false",
                       ", ".join("." + x for x in b["assigns"]), acc))
    L.append(",\n".join(rows))
    L.append("]")
    L.append("")
    L.append("end PyYetiVerif.Generated.GenBranches")
    return "\n".join(L) + "\n"


def generate(repo, lean_dir):
    branches = extract(repo)
    text = render(branches)
    path = os.path.join(lean_dir, "PyYetiVerif", "Generated", "GenMachineBranches.lean")
    old = open(path, encoding="utf-8").read() if os.path.exists(path) else None
    if old != text:
        with open(path, "w", encoding="utf-8") as f:
            f.write(text)
    return branches
