"""Translator for C18: pyyeti/nastran/n2p.py::mkusetmask -> lean/PyYetiVerif/Generated/UsetMask.lean

The function body is read with Python `ast` (the repo code is NOT executed here).  Grammar accepted:

    <name> = <expr>                       (any number of straight-line assignments)
    usetmask = { "<key>": <expr>, ... }   (exactly one dict assignment)
    <expr> ::= non-negative int literal | <name> already assigned | <expr> '|' <expr>
             | <expr> '<<' <expr> | '(' <expr> ')'

followed by the `if isinstance(nasset, str): ... return usetmask1` / `return usetmask` tail whose
shape (split on "+", fold with `|`, index the dict) is checked structurally.  Anything else raises
`Unparsable`, which the property module turns into runner.TieBroken.

Output: one Lean `def` per assignment (expressions are copied, not evaluated, so the Lean kernel
does the arithmetic) and `def mask : SetName -> Nat` built from the dict, by cases on the
hand-written `SetName` of Model/UsetNames.lean.  A dict whose key set differs from `SetName`'s
constructors therefore does not compile.
"""
import ast
import os

SRC = os.path.join("pyyeti", "nastran", "n2p.py")
OUT = os.path.join("PyYetiVerif", "Generated", "UsetMask.lean")


class Unparsable(Exception):
    pass


def _expr(node, known):
    if isinstance(node, ast.Constant):
        if type(node.value) is int and node.value >= 0:
            return str(node.value)
        raise Unparsable("literal %r is not a non-negative int" % (node.value,))
    if isinstance(node, ast.Name):
        if node.id not in known:
            raise Unparsable("name %r used before assignment" % node.id)
        return "v_" + node.id
    if isinstance(node, ast.BinOp):
        if isinstance(node.op, ast.BitOr):
            op = "|||"
        elif isinstance(node.op, ast.LShift):
            op = "<<<"
        else:
            raise Unparsable("operator %s is outside the grammar" % type(node.op).__name__)
        return "(%s %s %s)" % (_expr(node.left, known), op, _expr(node.right, known))
    raise Unparsable("expression %s is outside the grammar" % ast.dump(node)[:80])


_TAIL = (
    "If(test=Call(func=Name(id='isinstance'), args=[Name(id='nasset'), Name(id='str')]), "
    "body=[Assign(targets=[Name(id='sets')], value=Call(func=Attribute(value=Name(id='nasset'), "
    "attr='split'), args=[Constant(value='+')])), Assign(targets=[Name(id='usetmask1')], "
    "value=Constant(value=0)), For(target=Name(id='set_'), iter=Name(id='sets'), "
    "body=[Assign(targets=[Name(id='usetmask1')], value=BinOp(left=Name(id='usetmask1'), op=BitOr(), "
    "right=Subscript(value=Name(id='usetmask'), slice=Name(id='set_'))))]), "
    "Return(value=Name(id='usetmask1'))])"
)


def _strip_ctx(s):
    for c in (", ctx=Load()", ", ctx=Store()", ", keywords=[]", ", orelse=[]", ", type_comment=None"):
        s = s.replace(c, "")
    return s


def parse(repo):
    path = os.path.join(repo, SRC)
    tree = ast.parse(open(path, encoding="utf-8").read())
    fn = [n for n in tree.body if isinstance(n, ast.FunctionDef) and n.name == "mkusetmask"]
    if len(fn) != 1:
        raise Unparsable("expected exactly one top-level def mkusetmask")
    fn = fn[0]
    if [a.arg for a in fn.args.args] != ["nasset"]:
        raise Unparsable("signature of mkusetmask changed")
    body = list(fn.body)
    if body and isinstance(body[0], ast.Expr) and isinstance(getattr(body[0], "value", None), ast.Constant):
        body = body[1:]  # docstring
    assigns = []  # (name, lean expr)
    known = set()
    table = None
    k = 0
    while k < len(body) and isinstance(body[k], ast.Assign):
        st = body[k]
        if len(st.targets) != 1 or not isinstance(st.targets[0], ast.Name):
            raise Unparsable("assignment target outside the grammar (line %d)" % st.lineno)
        name = st.targets[0].id
        if isinstance(st.value, ast.Dict):
            if name != "usetmask" or table is not None:
                raise Unparsable("unexpected dict assignment %r" % name)
            table = []
            for kk, vv in zip(st.value.keys, st.value.values):
                if not (isinstance(kk, ast.Constant) and isinstance(kk.value, str)):
                    raise Unparsable("dict key is not a string literal")
                if any(kk.value == t[0] for t in table):
                    raise Unparsable("duplicate dict key %r" % kk.value)
                table.append((kk.value, _expr(vv, known)))
        else:
            if table is not None:
                raise Unparsable("assignment after the dict")
            if name in known:
                raise Unparsable("name %r assigned twice" % name)
            assigns.append((name, _expr(st.value, known)))
            known.add(name)
        k += 1
    if table is None:
        raise Unparsable("dict `usetmask` not found")
    tail = body[k:]
    if len(tail) != 2:
        raise Unparsable("tail of mkusetmask has %d statements, expected 2" % len(tail))
    if _strip_ctx(ast.dump(tail[0])) != _TAIL:
        raise Unparsable("the '+'-combination branch of mkusetmask changed shape")
    if _strip_ctx(ast.dump(tail[1])) != "Return(value=Name(id='usetmask'))":
        raise Unparsable("final return of mkusetmask changed")
    return assigns, table


def render(assigns, table):
    out = [
        "import PyYetiVerif.Model.UsetNames",
        "/-! GENERATED by harness/translate/c18_usetmask.py from pyyeti/nastran/n2p.py::mkusetmask.",
        "Do not edit: regenerated from /repo's working tree on every `./check C18`. -/",
        "namespace PyYetiVerif.Generated.UsetMask",
        "open PyYetiVerif.Uset",
        "",
    ]
    for name, e in assigns:
        out.append("def v_%s : Nat := %s" % (name, e))
    out.append("")
    out.append("/-- the dict `usetmask`, in source order -/")
    out.append("def mask : SetName → Nat")
    for key, e in table:
        out.append("  | .%s => %s" % (key, e))
    out.append("")
    out.append("/-- keys of the dict, in source order -/")
    out.append("def keys : List SetName := [%s]" % ", ".join("." + k for k, _ in table))
    out.append("")
    out.append("end PyYetiVerif.Generated.UsetMask")
    return "\n".join(out) + "\n"


def run(repo, lean_dir):
    assigns, table = parse(repo)
    for key, _ in table:
        if not key.isidentifier():
            raise Unparsable("dict key %r is not an identifier" % key)
    text = render(assigns, table)
    path = os.path.join(lean_dir, OUT)
    old = open(path, encoding="utf-8").read() if os.path.exists(path) else None
    if old != text:
        with open(path, "w", encoding="utf-8") as f:
            f.write(text)
    return ["UsetMask"], table


if __name__ == "__main__":
    import sys

    repo = sys.argv[1] if len(sys.argv) > 1 else "/repo"
    a, t = parse(repo)
    sys.stdout.write(render(a, t))
