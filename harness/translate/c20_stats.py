"""Translator for C20: pyyeti/stats.py -> lean/PyYetiVerif/Generated/C20Stats.lean

Read with Python `ast` (the repo code is NOT executed).  Two kinds of output.

1. CONSTANTS and SWITCH POINTS, each taken from one fixed syntactic place (anything else -> Unparsable):

   _getr            MAXLOOPS = <int> ; the `while` test is `np.any(abs(r - rold) > tol) and loops < MAXLOOPS`;
                    `rold = r + <int>` (the offset that forces the first pass)
                    r = norm.ppf(prob + (1 - prob) / <int>) * (1 + 1 / (<int> * n))     (starting point)
   ksingle, kdouble `n = np.asarray(n, dtype=float)` is the only assignment to n (extracted as a Bool fact: fix cd7a6f7 / F55)
   kdouble          signature default `tol=<float literal>` (written m e-k: kept as the pair (m, k)); the call
                    `_getr(n, p, tol)` passes it on unchanged
   order_stats      the chain `if which == "c" / elif "r" / elif "n" / elif "p"` (order kept) ending in
                    `raise ValueError(...)`; per branch the argument order of `np.broadcast(x, y, z)`
                    ('c' has none: scipy broadcasts `binom.sf(r - 1, n, 1 - p)`);
                    'r': `if r.ndim == 0: return int(r[()])` present (python int for scalars);
                    'p': `if n.ndim == 0: return n[()]` present;  'n': result is `np.ceil(n).astype(int)`;
                    _run_brentq: first statement `r = int(r)` (Bool fact: fix cd7a6f7 / F54); `a = r`; `b = <int> * a` (twice, equal); `loops < <int>`;
                    `brentq(_func, a, b, args=...)` with no tolerance keywords (scipy defaults xtol=2e-12, rtol=4 eps);
                    'p': `brentq(_func, <int>, <int>, args=...)` the fixed bracket, no tolerance keywords
   signature        order_stats(which, *, p=None, c=None, n=None, r=None): keyword-only, all default None

2. EFFECT SKELETONS (for `arguments_unchanged`): for each of ksingle, _getr, kdouble, order_stats and the
   nested _func/_run_brentq the statements that matter for aliasing and in-place modification, as a
   `Effects.Prog` (Model/OrderStatsEffects.lean):

       x = np.asarray(y[, dtype=…]) | x = y   -> share x y    (x may share y's buffer)
       x = <fresh expression>             -> fresh x          (arithmetic, whitelisted calls, literals, comprehensions)
       x.attr = ... | x[...] = ... | x op= ...   -> write x    (writes x's buffer)
       if/elif/else -> alt ; while -> loop ; return / raise / docstring / nested def -> skip

   A right-hand side that is neither an alias form nor built from the whitelisted fresh-making forms, a call
   with an `out=` keyword, or any other statement kind is outside the grammar (Unparsable).

Unparsable is turned into runner.TieBroken by harness/props/c20.py.
"""
import ast
import os

SRC = os.path.join("pyyeti", "stats.py")
OUT = os.path.join("PyYetiVerif", "Generated", "C20Stats.lean")


class Unparsable(Exception):
    pass


# ----------------------------------------------------------------------------------------------
# small ast helpers


def _d(node):
    return ast.dump(node)


def _src(node):
    try:
        return ast.unparse(node)
    except Exception:  # pragma: no cover
        return _d(node)[:80]


def _same(node, text):
    """node is (structurally) the expression `text`"""
    return _d(node) == _d(ast.parse(text, mode="eval").body)


def _int(node, what):
    if isinstance(node, ast.Constant) and type(node.value) is int and node.value >= 0:
        return node.value
    raise Unparsable("%s is not a non-negative int literal: %s" % (what, _src(node)))


def _func(body, name, where):
    hits = [n for n in body if isinstance(n, ast.FunctionDef) and n.name == name]
    if len(hits) != 1:
        raise Unparsable("expected exactly one def %s in %s" % (name, where))
    return hits[0]


def _nodoc(body):
    body = list(body)
    if body and isinstance(body[0], ast.Expr) and isinstance(body[0].value, ast.Constant) and isinstance(body[0].value.value, str):
        body = body[1:]
    return body


def _assigns(fn, name):
    return [n for n in ast.walk(fn) if isinstance(n, ast.Assign) and len(n.targets) == 1
            and isinstance(n.targets[0], ast.Name) and n.targets[0].id == name]


def _one_assign(fn, name):
    hits = _assigns(fn, name)
    if len(hits) != 1:
        raise Unparsable("expected exactly one `%s = ...` in %s, found %d" % (name, fn.name, len(hits)))
    return hits[0].value


def _calls(node, pred):
    return [n for n in ast.walk(node) if isinstance(n, ast.Call) and pred(n.func)]


def _is_name(f, name):
    return isinstance(f, ast.Name) and f.id == name


def _is_attr(f, base, attr):
    return isinstance(f, ast.Attribute) and f.attr == attr and isinstance(f.value, ast.Name) and f.value.id == base


# ----------------------------------------------------------------------------------------------
# constants


def _float_literal(node, src_text, what):
    """a literal written as <digits>e-<digits> (e.g. 1e-12) -> (mantissa, negative exponent)"""
    if not (isinstance(node, ast.Constant) and type(node.value) is float):
        raise Unparsable("%s is not a float literal" % what)
    seg = ast.get_source_segment(src_text, node) or ""
    s = seg.strip().lower()
    if "e-" not in s:
        raise Unparsable("%s: literal %r is not written as <m>e-<k>" % (what, seg))
    m, k = s.split("e-", 1)
    if m.endswith(".0"):
        m = m[:-2]
    if not (m.isdigit() and k.isdigit()):
        raise Unparsable("%s: literal %r is not written as <m>e-<k>" % (what, seg))
    if float("%se-%s" % (m, k)) != node.value:  # pragma: no cover
        raise Unparsable("%s: literal %r misread" % (what, seg))
    return int(m), int(k)


def _consts(tree, src_text):
    c = {}
    # ---- _getr -----------------------------------------------------------------------------
    g = _func(tree.body, "_getr", "stats.py")
    if [a.arg for a in g.args.args] != ["n", "prob", "tol"]:
        raise Unparsable("_getr signature is not (n, prob, tol)")
    c["getrMaxLoops"] = _int(_one_assign(g, "MAXLOOPS"), "MAXLOOPS")
    whiles = [n for n in ast.walk(g) if isinstance(n, ast.While)]
    if len(whiles) != 1:
        raise Unparsable("_getr: expected exactly one while loop")
    if not _same(whiles[0].test, "np.any(abs(r - rold) > tol) and loops < MAXLOOPS"):
        raise Unparsable("_getr: loop test is not `np.any(abs(r - rold) > tol) and loops < MAXLOOPS`: %s" % _src(whiles[0].test))
    if not _same(_one_assign(g, "loops"), "0"):
        raise Unparsable("_getr: loops does not start at 0")
    incs = [n for n in ast.walk(whiles[0]) if isinstance(n, ast.AugAssign) and isinstance(n.target, ast.Name) and n.target.id == "loops"]
    if len(incs) != 1 or not isinstance(incs[0].op, ast.Add) or _int(incs[0].value, "loops increment") != 1 or incs[0] not in whiles[0].body:
        raise Unparsable("_getr: `loops += 1` is not executed once per pass")
    # rold: one assignment before the loop (r + K), one as the first statement of the body (rold = r)
    ro = _assigns(g, "rold")
    pre = [a for a in ro if a not in list(ast.walk(whiles[0]))]
    inl = [a for a in ro if a in whiles[0].body]
    if len(ro) != 2 or len(pre) != 1 or len(inl) != 1 or whiles[0].body[0] is not inl[0] or not _same(inl[0].value, "r"):
        raise Unparsable("_getr: rold is not set once before the loop and by `rold = r` first in the loop")
    v = pre[0].value
    if not (isinstance(v, ast.BinOp) and isinstance(v.op, ast.Add) and _same(v.left, "r")):
        raise Unparsable("_getr: rold is not initialised as r + <int>")
    c["getrRoldOffset"] = _int(v.right, "rold offset")
    # starting point
    rs = [a for a in _assigns(g, "r") if a not in list(ast.walk(whiles[0]))]
    if len(rs) != 1:
        raise Unparsable("_getr: expected one starting value of r before the loop")
    v = rs[0].value
    ok = (isinstance(v, ast.BinOp) and isinstance(v.op, ast.Mult) and isinstance(v.left, ast.Call)
          and _is_attr(v.left.func, "norm", "ppf") and len(v.left.args) == 1 and not v.left.keywords)
    if ok:
        a, b = v.left.args[0], v.right
        ok = (isinstance(a, ast.BinOp) and isinstance(a.op, ast.Add) and _same(a.left, "prob") and isinstance(a.right, ast.BinOp)
              and isinstance(a.right.op, ast.Div) and _same(a.right.left, "1 - prob")
              and isinstance(b, ast.BinOp) and isinstance(b.op, ast.Add) and _same(b.left, "1") and isinstance(b.right, ast.BinOp)
              and isinstance(b.right.op, ast.Div) and _same(b.right.left, "1") and isinstance(b.right.right, ast.BinOp)
              and isinstance(b.right.right.op, ast.Mult) and _same(b.right.right.right, "n"))
    if not ok:
        raise Unparsable("_getr: starting point is not norm.ppf(prob + (1 - prob) / K) * (1 + 1 / (M * n)): %s" % _src(v))
    c["getrStartHalf"] = _int(a.right.right, "K of the starting point")
    c["getrStartInvN"] = _int(b.right.right.left, "M of the starting point")
    # the update inside the loop
    inr = [a for a in _assigns(g, "r") if a in whiles[0].body]
    if len(inr) != 1 or not _same(inr[0].value, "rold - num / den"):
        raise Unparsable("_getr: the loop does not update r by `r = rold - num / den`")
    # ---- kdouble ---------------------------------------------------------------------------
    k = _func(tree.body, "kdouble", "stats.py")
    if [a.arg for a in k.args.args] != ["p", "c", "n", "tol"] or len(k.args.defaults) != 1:
        raise Unparsable("kdouble signature is not (p, c, n, tol=<default>)")
    c["kdoubleTolMant"], c["kdoubleTolNegExp"] = _float_literal(k.args.defaults[0], src_text, "kdouble tol default")
    gc = _calls(k, lambda f: _is_name(f, "_getr"))
    if len(gc) != 1 or [_src(a) for a in gc[0].args] != ["n", "p", "tol"] or gc[0].keywords:
        raise Unparsable("kdouble does not call _getr(n, p, tol) exactly once")
    ks = _func(tree.body, "ksingle", "stats.py")
    if [a.arg for a in ks.args.args] != ["p", "c", "n"] or ks.args.defaults:
        raise Unparsable("ksingle signature is not (p, c, n)")
    # the sample sizes are converted to float64 before any arithmetic (fix cd7a6f7, F55): a FACT, not a grammar rule, so
    # that taking the conversion away fails the Lean side condition `stats_dtype_tie` rather than the translator
    for fn, key in ((ks, "ksingleNFloat"), (k, "kdoubleNFloat")):
        hits = _assigns(fn, "n")
        c[key] = len(hits) == 1 and _same(hits[0].value, "np.asarray(n, dtype=float)") and hits[0] in _nodoc(fn.body)
    # ---- order_stats -----------------------------------------------------------------------
    o = _func(tree.body, "order_stats", "stats.py")
    if ([a.arg for a in o.args.args] != ["which"] or [a.arg for a in o.args.kwonlyargs] != ["p", "c", "n", "r"]
            or o.args.defaults or any(not _same(d, "None") for d in o.args.kw_defaults) or o.args.vararg or o.args.kwarg):
        raise Unparsable("order_stats signature is not (which, *, p=None, c=None, n=None, r=None)")
    body = _nodoc(o.body)
    if len(body) != 2 or not isinstance(body[0], ast.If) or not isinstance(body[1], ast.Raise):
        raise Unparsable("order_stats is not one if/elif chain followed by raise")
    rz = body[1].exc
    if not (isinstance(rz, ast.Call) and _is_name(rz.func, "ValueError")):
        raise Unparsable("order_stats does not end in raise ValueError(...)")
    chain = []
    node = body[0]
    while True:
        t = node.test
        if not (isinstance(t, ast.Compare) and _same(t.left, "which") and len(t.ops) == 1 and isinstance(t.ops[0], ast.Eq)
                and isinstance(t.comparators[0], ast.Constant) and isinstance(t.comparators[0].value, str)):
            raise Unparsable("order_stats: a branch test is not `which == \"<str>\"`")
        chain.append((t.comparators[0].value, node.body))
        if len(node.orelse) == 1 and isinstance(node.orelse[0], ast.If):
            node = node.orelse[0]
        elif not node.orelse:
            break
        else:
            raise Unparsable("order_stats: the if/elif chain has an else branch")
    c["whichOrder"] = [w for w, _ in chain]
    if sorted(c["whichOrder"]) != ["c", "n", "p", "r"]:
        raise Unparsable("order_stats: branches are %s, the model has c, r, n, p" % c["whichOrder"])
    br = dict(chain)

    def bcast(stmts, w):
        hits = []
        for st in stmts:
            hits += _calls(st, lambda f: _is_attr(f, "np", "broadcast")) if not isinstance(st, ast.FunctionDef) else []
        if len(hits) != 1 or hits[0].keywords or not all(isinstance(a, ast.Name) for a in hits[0].args):
            raise Unparsable("order_stats('%s'): expected exactly one np.broadcast(<names>)" % w)
        return [a.id for a in hits[0].args]

    for w in "rnp":
        c["bcast_" + w] = bcast(br[w], w)
        if sorted(c["bcast_" + w]) != sorted(set("pcnr") - {w}):
            raise Unparsable("order_stats('%s') broadcasts %s" % (w, c["bcast_" + w]))
    # 'c'
    rets = [s for s in br["c"] if isinstance(s, ast.Return)]
    if len(rets) != 1 or not _same(rets[0].value, "binom.sf(r - 1, n, 1 - p)"):
        raise Unparsable("order_stats('c') does not return binom.sf(r - 1, n, 1 - p)")
    # 'r': scalar rule
    def scalar_rule(stmts, var, ret, w):
        ifs = [s for s in stmts if isinstance(s, ast.If) and _same(s.test, "%s.ndim == 0" % var)]
        if not (len(ifs) == 1 and len(ifs[0].body) == 1
                and isinstance(ifs[0].body[0], ast.Return) and _same(ifs[0].body[0].value, ret) and not ifs[0].orelse):
            raise Unparsable("order_stats('%s'): scalar rule is not `if %s.ndim == 0: return %s`" % (w, var, ret))
    scalar_rule(br["r"], "r", "int(r[()])", "r")
    if not (isinstance(br["r"][-1], ast.Return) and _same(br["r"][-1].value, "r.astype(int)")):
        raise Unparsable("order_stats('r') does not end in return r.astype(int)")
    scalar_rule(br["p"], "n", "n[()]", "p")
    if not (isinstance(br["p"][-1], ast.Return) and _same(br["p"][-1].value, "n")):
        raise Unparsable("order_stats('p') does not end in return n")
    if not (isinstance(br["n"][-1], ast.Return) and _same(br["n"][-1].value, "np.ceil(n).astype(int)")):
        raise Unparsable("order_stats('n') does not end in return np.ceil(n).astype(int)")
    # 'n': the bracket search
    rb = _func(br["n"], "_run_brentq", "order_stats('n')")
    if [a.arg for a in rb.args.args] != ["c", "r", "p"]:
        raise Unparsable("_run_brentq signature is not (c, r, p)")
    # the rank is converted to a Python int before the bracket is built (fix cd7a6f7, F54): a fact, see above
    first_st = _nodoc(rb.body)[0] if _nodoc(rb.body) else None
    c["nRankToInt"] = (isinstance(first_st, ast.Assign) and len(first_st.targets) == 1 and isinstance(first_st.targets[0], ast.Name) and first_st.targets[0].id == "r"
                       and _same(first_st.value, "int(r)"))
    aa = _assigns(rb, "a")
    if not aa or not _same(aa[0].value, "r"):
        raise Unparsable("_run_brentq: the bracket does not start at a = r")
    fac = []
    for a in _assigns(rb, "b"):
        v = a.value
        if not (isinstance(v, ast.BinOp) and isinstance(v.op, ast.Mult) and _same(v.right, "a")):
            raise Unparsable("_run_brentq: b is not <int> * a")
        fac.append(_int(v.left, "doubling factor"))
    if len(fac) != 2 or fac[0] != fac[1]:
        raise Unparsable("_run_brentq: expected `b = K * a` before and inside the loop with the same K")
    c["nGrowFactor"] = fac[0]
    wh = [n for n in ast.walk(rb) if isinstance(n, ast.While)]
    if len(wh) != 1 or not (isinstance(wh[0].test, ast.BoolOp) and isinstance(wh[0].test.op, ast.And) and len(wh[0].test.values) == 2):
        raise Unparsable("_run_brentq: expected one `while <test> and loops < K`")
    t0, t1 = wh[0].test.values
    if not _same(t0, "_func(b, 1 - c, r - 1, 1 - p) < 0"):
        raise Unparsable("_run_brentq: loop test is not `_func(b, 1 - c, r - 1, 1 - p) < 0`")
    if not (isinstance(t1, ast.Compare) and _same(t1.left, "loops") and len(t1.ops) == 1 and isinstance(t1.ops[0], ast.Lt)):
        raise Unparsable("_run_brentq: loop limit is not `loops < K`")
    c["nGrowLoops"] = _int(t1.comparators[0], "doubling limit")
    first = [s for s in rb.body if isinstance(s, ast.If)]
    if not (first and _same(first[0].test, "_func(a, 1 - c, r - 1, 1 - p) >= 0") and len(first[0].body) == 1
            and isinstance(first[0].body[0], ast.Return) and _same(first[0].body[0].value, "a")):
        raise Unparsable("_run_brentq: the n = r boundary test `if _func(a, ...) >= 0: return a` is missing")
    bq = _calls(rb, lambda f: _is_name(f, "brentq"))
    if len(bq) != 1 or [_src(a) for a in bq[0].args] != ["_func", "a", "b"] or [k.arg for k in bq[0].keywords] != ["args"]:
        raise Unparsable("_run_brentq: brentq is not called as brentq(_func, a, b, args=...)")
    # 'p'
    bq = []
    for st in br["p"]:
        if not isinstance(st, ast.FunctionDef):
            bq += _calls(st, lambda f: _is_name(f, "brentq"))
    if len(bq) != 1 or len(bq[0].args) != 3 or not _same(bq[0].args[0], "_func") or [k.arg for k in bq[0].keywords] != ["args"]:
        raise Unparsable("order_stats('p'): brentq is not called as brentq(_func, lo, hi, args=...)")
    c["pBracketLo"] = _int(bq[0].args[1], "lower end of the 'p' bracket")
    c["pBracketHi"] = _int(bq[0].args[2], "upper end of the 'p' bracket")
    return c


# ----------------------------------------------------------------------------------------------
# effect skeletons

_FRESH_NP = {"sqrt", "exp", "empty", "ceil", "any", "broadcast",
             # further functions that return new objects (never views of their arguments) unless given out=/copy=
             "zeros", "ones", "full", "empty_like", "zeros_like", "ones_like", "array", "where", "floor", "round", "log",
             "abs", "all", "isnan", "isfinite", "maximum", "minimum", "square", "power", "errstate"}
_FRESH_MODS = {"norm": {"ppf", "cdf"}, "nct": {"ppf"}, "chi2": {"ppf"}, "binom": {"ppf", "sf", "cdf"}, "warnings": {"warn"}}
_FRESH_NAMES = {"betainc", "brentq", "abs", "int", "_getr", "_func", "_run_brentq"}
_FRESH_METHODS = {"astype"}


class _Names:
    def __init__(self, params):
        self.names = list(params)

    def id(self, n):
        if n not in self.names:
            self.names.append(n)
        return self.names.index(n)


def _check_fresh(node, fname):
    """the value of this expression is never a view of an existing array"""
    if isinstance(node, (ast.Constant, ast.Name)):
        return  # as an operand; a bare Name as the whole right-hand side is handled by the caller
    if isinstance(node, ast.BinOp):
        _check_fresh(node.left, fname), _check_fresh(node.right, fname)
        return
    if isinstance(node, ast.UnaryOp):
        _check_fresh(node.operand, fname)
        return
    if isinstance(node, ast.BoolOp):
        for v in node.values:
            _check_fresh(v, fname)
        return
    if isinstance(node, ast.Compare):
        _check_fresh(node.left, fname)
        for v in node.comparators:
            _check_fresh(v, fname)
        return
    if isinstance(node, ast.Tuple):
        for v in node.elts:
            _check_fresh(v, fname)
        return
    if isinstance(node, ast.ListComp):
        if len(node.generators) != 1 or node.generators[0].ifs:
            raise Unparsable("%s: comprehension outside the grammar" % fname)
        _check_fresh(node.elt, fname)
        _check_fresh(node.generators[0].iter, fname)
        return
    if isinstance(node, ast.Attribute):
        if isinstance(node.value, ast.Name) and node.attr in ("shape", "ndim", "pi"):
            return
        raise Unparsable("%s: attribute %s outside the effect grammar" % (fname, _src(node)))
    if isinstance(node, ast.Subscript):
        if isinstance(node.value, ast.Name) and isinstance(node.slice, ast.Tuple) and not node.slice.elts:
            return  # x[()] : the scalar
        raise Unparsable("%s: subscript %s outside the effect grammar (may be a view)" % (fname, _src(node)))
    if isinstance(node, ast.Call):
        for kw in node.keywords:
            if kw.arg in (None, "out", "where", "copy"):
                raise Unparsable("%s: call %s has an out=/where=/copy=/** keyword" % (fname, _src(node)))
            _check_fresh(kw.value, fname)
        for a in node.args:
            if isinstance(a, ast.Starred):
                raise Unparsable("%s: starred argument in %s" % (fname, _src(node)))
            _check_fresh(a, fname)
        f = node.func
        if isinstance(f, ast.Name) and f.id in _FRESH_NAMES | {"ValueError"}:
            return
        if isinstance(f, ast.Attribute) and isinstance(f.value, ast.Name):
            if f.value.id == "np" and f.attr in _FRESH_NP:
                return
            if f.value.id in _FRESH_MODS and f.attr in _FRESH_MODS[f.value.id]:
                return
        if isinstance(f, ast.Attribute) and f.attr in _FRESH_METHODS:
            _check_fresh(f.value, fname)
            return
        raise Unparsable("%s: call %s is not in the list of functions known to return new objects" % (fname, _src(node)))
    raise Unparsable("%s: expression %s outside the effect grammar" % (fname, _src(node)))


def _target_base(t, fname):
    if isinstance(t, (ast.Attribute, ast.Subscript)) and isinstance(t.value, ast.Name):
        return t.value.id
    raise Unparsable("%s: assignment target %s outside the effect grammar" % (fname, _src(t)))


def _block(stmts, nm, fname):
    """-> nested tuple program"""
    out = []
    for st in stmts:
        if isinstance(st, ast.FunctionDef):
            continue
        if isinstance(st, ast.Expr):
            if isinstance(st.value, ast.Constant):
                continue
            _check_fresh(st.value, fname)
            continue
        if isinstance(st, ast.Return):
            if st.value is not None:
                _check_fresh(st.value, fname)
            continue
        if isinstance(st, ast.Raise):
            continue
        if isinstance(st, ast.Assign):
            if len(st.targets) != 1:
                raise Unparsable("%s: chained assignment" % fname)
            t, v = st.targets[0], st.value
            if isinstance(t, ast.Name):
                if isinstance(v, ast.Name):
                    out.append(("alias", nm.id(t.id), nm.id(v.id)))
                elif (isinstance(v, ast.Call) and any(_is_attr(v.func, "np", f) for f in ("asarray", "asanyarray", "atleast_1d"))
                      and len(v.args) == 1 and isinstance(v.args[0], ast.Name)
                      and all(k.arg in ("dtype", "order") for k in v.keywords)):
                    out.append(("alias", nm.id(t.id), nm.id(v.args[0].id)))
                else:
                    _check_fresh(v, fname)
                    out.append(("fresh", nm.id(t.id)))
            else:
                _check_fresh(v, fname)
                out.append(("write", nm.id(_target_base(t, fname))))
            continue
        if isinstance(st, ast.AugAssign):
            _check_fresh(st.value, fname)
            t = st.target
            out.append(("write", nm.id(t.id if isinstance(t, ast.Name) else _target_base(t, fname))))
            continue
        if isinstance(st, ast.If):
            _check_fresh(st.test, fname)
            out.append(("alt", _block(st.body, nm, fname), _block(st.orelse, nm, fname)))
            continue
        if isinstance(st, ast.While):
            if st.orelse:
                raise Unparsable("%s: while/else" % fname)
            _check_fresh(st.test, fname)
            out.append(("loop", _block(st.body, nm, fname)))
            continue
        raise Unparsable("%s: statement `%s` outside the effect grammar" % (fname, _src(st).splitlines()[0][:60]))
    return ("seq", out)


def _effects(tree):
    """[(lean name, source name, names, n_params, program)]"""
    res = []

    def one(fn, lean):
        params = [a.arg for a in fn.args.args + fn.args.kwonlyargs]
        nm = _Names(params)
        prog = _block(_nodoc(fn.body), nm, fn.name)
        res.append((lean, fn.name, nm.names, len(params), prog))

    one(_func(tree.body, "ksingle", "stats.py"), "ksingle")
    one(_func(tree.body, "_getr", "stats.py"), "getr")
    one(_func(tree.body, "kdouble", "stats.py"), "kdouble")
    o = _func(tree.body, "order_stats", "stats.py")
    one(o, "orderStats")
    k = 0
    for n in ast.walk(o):
        if isinstance(n, ast.FunctionDef) and n is not o:
            one(n, "orderStatsInner%d" % k)
            k += 1
    return res


def _lean_prog(p, ind="  "):
    kind = p[0]
    if kind == "seq":
        items = p[1]
        if not items:
            return ".skip"
        s = _lean_prog(items[-1], ind)
        for it in reversed(items[:-1]):
            s = ".seq (%s)\n%s(%s)" % (_lean_prog(it, ind), ind, s)
        return s
    if kind == "alias":
        return ".share %d %d" % (p[1], p[2])
    if kind == "fresh":
        return ".fresh %d" % p[1]
    if kind == "write":
        return ".write %d" % p[1]
    if kind == "alt":
        return ".alt (%s) (%s)" % (_lean_prog(p[1], ind), _lean_prog(p[2], ind))
    if kind == "loop":
        return ".loop (%s)" % _lean_prog(p[1], ind)
    raise AssertionError(kind)


# ----------------------------------------------------------------------------------------------


def extract(repo):
    path = os.path.join(repo, SRC)
    try:
        text = open(path, encoding="utf-8").read()
        tree = ast.parse(text)
    except (OSError, SyntaxError) as e:
        raise Unparsable("cannot parse %s: %s" % (SRC, e))
    c = _consts(tree, text)
    c["effects"] = _effects(tree)
    return c


NAT = [
    ("getrMaxLoops", "_getr: MAXLOOPS (cap of the Newton loop)"),
    ("getrRoldOffset", "_getr: rold = r + getrRoldOffset before the loop (forces the first pass)"),
    ("getrStartHalf", "_getr: starting point norm.ppf(prob + (1 - prob) / getrStartHalf) * …"),
    ("getrStartInvN", "_getr: … * (1 + 1 / (getrStartInvN * n))"),
    ("kdoubleTolMant", "kdouble: default tol = kdoubleTolMant · 10^(-kdoubleTolNegExp)"),
    ("kdoubleTolNegExp", "kdouble: default tol, see kdoubleTolMant"),
    ("nGrowFactor", "order_stats('n') / _run_brentq: b = nGrowFactor * a"),
    ("nGrowLoops", "order_stats('n') / _run_brentq: at most nGrowLoops further enlargements of the bracket"),
    ("pBracketLo", "order_stats('p'): brentq(_func, pBracketLo, pBracketHi, …)"),
    ("pBracketHi", "order_stats('p'): see pBracketLo"),
]


def render(c):
    L = [
        "import PyYetiVerif.Model.OrderStatsEffects",
        "/- GENERATED by harness/translate/c20_stats.py from pyyeti/stats.py — do not edit. -/",
        "namespace PyYetiVerif.Generated.C20Stats",
        "open PyYetiVerif.Effects",
        "",
    ]
    for k, doc in NAT:
        L.append("/-- %s -/" % doc)
        L.append("def %s : Nat := %d" % (k, c[k]))
    for key, doc in (("ksingleNFloat", "ksingle: `n = np.asarray(n, dtype=float)` is the only assignment to n (arithmetic in float64 whatever the dtype of the caller's array)"),
                     ("kdoubleNFloat", "kdouble: `n = np.asarray(n, dtype=float)` is the only assignment to n"),
                     ("nRankToInt", "order_stats('n') / _run_brentq: the first statement is `r = int(r)` (the bracket is built from a Python int)")):
        L.append("/-- %s -/" % doc)
        L.append("def %s : Bool := %s" % (key, "true" if c[key] else "false"))
    L.append("/-- order_stats: the strings tested by the if/elif chain, in order; anything else raises ValueError -/")
    L.append("def whichOrder : List String := [%s]" % ", ".join('"%s"' % w for w in c["whichOrder"]))
    for w in "rnp":
        L.append("/-- order_stats('%s'): argument order of np.broadcast -/" % w)
        L.append("def bcast_%s : List String := [%s]" % (w, ", ".join('"%s"' % a for a in c["bcast_" + w])))
    L.append("")
    for lean, srcname, names, npar, prog in c["effects"]:
        L.append("/-- `%s`: variable numbering %s; the first %d are the parameters -/" % (
            srcname, ", ".join("%d=%s" % (i, n) for i, n in enumerate(names)), npar))
        L.append("def %sParams : Nat := %d" % (lean, npar))
        L.append("def %sProg : Prog :=\n  %s" % (lean, _lean_prog(prog)))
    L.append("")
    L.append("/-- every function of stats.py that the property reads, with its parameter count -/")
    L.append("def allProgs : List (Nat × Prog) := [%s]" % ", ".join("(%sParams, %sProg)" % (e[0], e[0]) for e in c["effects"]))
    L += ["", "end PyYetiVerif.Generated.C20Stats", ""]
    return "\n".join(L)


def run(repo, lean_dir):
    c = extract(repo)
    text = render(c)
    out = os.path.join(lean_dir, OUT)
    old = open(out).read() if os.path.exists(out) else None
    if old != text:
        os.makedirs(os.path.dirname(out), exist_ok=True)
        with open(out, "w") as f:
            f.write(text)
    return c


if __name__ == "__main__":  # pragma: no cover
    import sys

    print(render(extract(sys.argv[1] if len(sys.argv) > 1 else "/repo")))
