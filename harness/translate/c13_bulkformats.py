"""Translator for C13: pyyeti/nastran/bulk.py -> lean/PyYetiVerif/Generated/BulkFormats.lean

Read with Python `ast` (the repo code is NOT executed).  Extracted: the format strings and the layout
constants of the bulk-data writers, and the slicing constants of the card reader.

  wtdmig          the three `f.write(f"...")` templates (header card, `DMIG*` column card, `*` row line), the value field
                  `_dmig_field` (`f"{num:16.9E}"`, the fallback `f"{num:16.8E}"` when `len(s) > 16`), `.replace("E", "D")`,
                  `start_row = col if form == 6 else 0`, the form numbers 9 / 2 / 6 / 1 and `ncol = colids.max()`
  wtnasints       `firstline = 10 - start`, `while n >= i + 8`, the field / lead templates
  wtcsuper        the prefix f-string and the start field handed to wtnasints;  wtextrn likewise
  _wt_with_thru   `len(fields) == 9`, the word "THRU"
  wtset           the three token f-strings, `rstrip(", ")`, the separator "" and the default max_length
  wtgrids         the four `string = ...` templates (8 / 16 wide, short / PS+SEID) and the default `form`
  wttabled1       the default-form block (`if form == '<default>':` both columns through `_dmig_field`, then `'{:s}{:s}'`),
                  header templates, line leads, pairs per line (`npts // 2`, `npts // 4`, `form * 2`, `form * 4`),
                  "ENDT", the default `form`
  wtcoordcards    the three line templates and the noise floor `1e-15`
  rdcards / _rdfixed / _rdcomma
                  `s[:72]`, `s[:8].find("*")`, `(16, "*")`, `(8, " +")`, `" +,"`, `inc = 4` / `inc = 8`,
                  `maxstart = 72 - n`, `j = 8`, `min(len(tok), 9)`

A template is a list of lines, a line a list of pieces: literal text, a replacement field (align, width, precision,
type) or the caller's `form` (one coordinate / table value).  Anything outside these shapes raises Unparsable
(-> runner.TieBroken).
"""
import ast
import os
import re

SRC = os.path.join("pyyeti", "nastran", "bulk.py")
OUT = os.path.join("PyYetiVerif", "Generated", "BulkFormats.lean")


class Unparsable(Exception):
    pass


# ---------------------------------------------------------------------------------------------
# templates

SPEC = re.compile(r"^([<>^]?)(\d*)(?:\.(\d+))?([a-zA-Z]?)$")
FIELD = re.compile(r"\{:([^{}]*)\}")


def _spec(s, where):
    m = SPEC.match(s)
    if not m:
        raise Unparsable("%s: format spec %r is outside the grammar [<>^][width][.prec][type]" % (where, s))
    al, w, p, ty = m.groups()
    return ("fld", al or " ", int(w or 0), int(p or 0), ty or " ")


def _lit_template(text, where):
    """a plain string used as a `str.format` / vecwrite template: literal text and `{:spec}` fields"""
    out = []
    pos = 0
    for m in FIELD.finditer(text):
        if m.start() > pos:
            out.append(("lit", text[pos:m.start()]))
        out.append(_spec(m.group(1), where))
        pos = m.end()
    if pos < len(text):
        out.append(("lit", text[pos:]))
    if "{" in FIELD.sub("", text) or "}" in FIELD.sub("", text):
        raise Unparsable("%s: template %r has a replacement field that is not `{:spec}`" % (where, text))
    return out


def _tpl(node, env, where, fmt=True):
    """static evaluation of a string-valued expression to a list of pieces"""
    if isinstance(node, ast.Constant) and isinstance(node.value, str):
        return _lit_template(node.value, where) if fmt else [("lit", node.value)]
    if isinstance(node, ast.JoinedStr):
        out = []
        for v in node.values:
            if isinstance(v, ast.Constant):
                out.append(("lit", v.value))
            elif isinstance(v, ast.FormattedValue):
                if v.conversion != -1:
                    raise Unparsable("%s: conversion in f-string" % where)
                spec = ""
                if v.format_spec is not None:
                    if not (len(v.format_spec.values) == 1 and isinstance(v.format_spec.values[0], ast.Constant)):
                        raise Unparsable("%s: computed format spec" % where)
                    spec = v.format_spec.values[0].value
                out.append(_spec(spec, where) + (ast.unparse(v.value),))
            else:
                raise Unparsable("%s: unknown f-string part" % where)
        return out
    if isinstance(node, ast.BinOp) and isinstance(node.op, ast.Add):
        return _tpl(node.left, env, where, fmt) + _tpl(node.right, env, where, fmt)
    if isinstance(node, ast.BinOp) and isinstance(node.op, ast.Mult):
        base = _tpl(node.left, env, where, fmt)
        if isinstance(node.right, ast.Constant) and type(node.right.value) is int:
            return base * node.right.value
        if isinstance(node.right, ast.Name):
            return [("rep", tuple(base), node.right.id)]
        raise Unparsable("%s: repetition count is neither an int literal nor a name" % where)
    if isinstance(node, ast.Name):
        if node.id == "form":
            return [("form",)]
        if node.id in env:
            return list(env[node.id])
        raise Unparsable("%s: unknown name %s in a template" % (where, node.id))
    if isinstance(node, ast.Call) and isinstance(node.func, ast.Attribute) and node.func.attr == "format":
        return _tpl(node.func.value, env, where, True)
    raise Unparsable("%s: expression %s is outside the template grammar" % (where, ast.unparse(node)[:60]))


def _lines(pieces, where):
    """split a template at the newlines of its literal parts -> list of lines (a trailing newline ends the last line)"""
    lines = [[]]
    for p in pieces:
        if p[0] == "lit":
            parts = p[1].split("\n")
            for k, part in enumerate(parts):
                if k > 0:
                    lines.append([])
                if part:
                    lines[-1].append(("lit", part))
        else:
            lines[-1].append(p)
    if lines and lines[-1] == []:
        lines.pop()
    return lines


def _strip_names(pieces):
    return [p[:5] if p[0] == "fld" else p for p in pieces]


# ---------------------------------------------------------------------------------------------
# extraction helpers


def _func(tree, name, inner=None):
    for n in ast.walk(tree):
        if isinstance(n, ast.FunctionDef) and n.name == name:
            if inner is None:
                return n
            for m in ast.walk(n):
                if isinstance(m, ast.FunctionDef) and m.name == inner:
                    return m
    raise Unparsable("function %s%s not found" % (name, "." + inner if inner else ""))


def _writes(fn):
    """arguments of the `f.write(...)` calls of a function, in source order"""
    out = []
    for n in ast.walk(fn):
        if (isinstance(n, ast.Call) and isinstance(n.func, ast.Attribute) and n.func.attr == "write"
                and isinstance(n.func.value, ast.Name) and n.func.value.id == "f" and len(n.args) == 1):
            out.append(n)
    out.sort(key=lambda n: (n.lineno, n.col_offset))
    return [n.args[0] for n in out]


def _assigns(fn, name):
    out = [n for n in ast.walk(fn) if isinstance(n, ast.Assign) and len(n.targets) == 1
           and isinstance(n.targets[0], ast.Name) and n.targets[0].id == name]
    out.sort(key=lambda n: (n.lineno, n.col_offset))
    return [n.value for n in out]


def _int_in(fn, pattern, what):
    """the single integer captured by `pattern` in the unparsed source of some statement of `fn`"""
    hits = []
    for n in ast.walk(fn):
        if isinstance(n, (ast.Assign, ast.While, ast.If, ast.Expr, ast.Return, ast.AugAssign)):
            head = ast.unparse(n).split("\n")[0]
            m = re.search(pattern, head)
            if m:
                hits.append(int(m.group(1)))
    if len(set(hits)) != 1:
        raise Unparsable("%s: expected exactly one match of /%s/ in %s, found %s" % (what, pattern, fn.name, hits))
    return hits[0]


def _has(fn, pattern, what, count=None):
    n = len(re.findall(pattern, ast.unparse(fn)))
    if (count is None and n == 0) or (count is not None and n != count):
        raise Unparsable("%s: /%s/ found %d time(s) in %s" % (what, pattern, n, fn.name))


def _default(fn, arg):
    a = fn.args
    names = [x.arg for x in a.args]
    if arg not in names:
        raise Unparsable("%s has no parameter %s" % (fn.name, arg))
    k = names.index(arg) - (len(names) - len(a.defaults))
    if k < 0:
        raise Unparsable("%s.%s has no default" % (fn.name, arg))
    d = a.defaults[k]
    if not isinstance(d, ast.Constant):
        raise Unparsable("default of %s.%s is not a literal" % (fn.name, arg))
    return d.value


# ---------------------------------------------------------------------------------------------


def extract(repo):
    path = os.path.join(repo, SRC)
    try:
        tree = ast.parse(open(path).read())
    except (OSError, SyntaxError) as e:
        raise Unparsable("cannot parse %s: %s" % (SRC, e))
    T = {}   # templates: name -> list of lines
    C = {}   # integer constants
    S = {}   # string constants

    # ---- wtdmig ---------------------------------------------------------------------------
    fn = _func(tree, "wtdmig")
    w = _writes(fn)
    if len(w) != 3 or not all(isinstance(x, ast.JoinedStr) for x in w):
        raise Unparsable("wtdmig: expected three f.write(f'...') calls")
    for key, node in zip(("dmigHeader", "dmigColCard", "dmigRowLine"), w):
        ls = _lines(_tpl(node, {}, "wtdmig"), "wtdmig")
        if len(ls) != 1:
            raise Unparsable("wtdmig: %s is not one line" % key)
        T[key] = ls
    hdr_args = [p[5] for p in T["dmigHeader"][0] if p[0] == "fld"]
    if hdr_args != ["'DMIG'", "name", "0", "form", "mtype", "tout", "polar", "''", "ncol"]:
        raise Unparsable("wtdmig: header fields are %s" % hdr_args)
    if [p[5] for p in T["dmigColCard"][0] if p[0] == "fld"] != ["'DMIG*'", "name", "gj", "cj"]:
        raise Unparsable("wtdmig: column card fields changed")
    if [p[5] for p in T["dmigRowLine"][0] if p[0] == "fld"] != ["'*'", "gi", "ci", "num_str"]:
        raise Unparsable("wtdmig: row line fields changed")
    vals = _assigns(fn, "num_str")
    if [ast.unparse(v) for v in vals] != ["_dmig_field(num)", "_dmig_field(num.real) + _dmig_field(num.imag)",
                                          "num_str.replace('E', 'D')"]:
        raise Unparsable("wtdmig: num_str is not _dmig_field(num) / _dmig_field(num.real) + _dmig_field(num.imag) / "
                         "num_str.replace('E', 'D')")
    # the value field: `s = f"{num:16.9E}"`, and `s = f"{num:16.8E}"` when `len(s) > 16` (fix 4411a34, finding F64)
    ff = _func(tree, "_dmig_field")
    if [a.arg for a in ff.args.args] != ["num"]:
        raise Unparsable("_dmig_field: parameters changed")
    body = [st for st in ff.body if not (isinstance(st, ast.Expr) and isinstance(st.value, ast.Constant))]
    ok = (len(body) == 3 and isinstance(body[0], ast.Assign) and ast.unparse(body[0].targets[0]) == "s"
          and isinstance(body[1], ast.If) and not body[1].orelse and len(body[1].body) == 1
          and isinstance(body[1].body[0], ast.Assign) and ast.unparse(body[1].body[0].targets[0]) == "s"
          and isinstance(body[2], ast.Return) and ast.unparse(body[2].value) == "s")
    if not ok:
        raise Unparsable("_dmig_field is not `s = f'..'; if len(s) > W: s = f'..'; return s`")
    m = re.match(r"^len\(s\) > (\d+)$", ast.unparse(body[1].test))
    if not m:
        raise Unparsable("_dmig_field: the test is not `len(s) > <int>`")
    C["dmigFieldWidth"] = int(m.group(1))
    T["dmigField"] = _lines(_tpl(body[0].value, {}, "_dmig_field"), "_dmig_field")
    T["dmigFieldFallback"] = _lines(_tpl(body[1].body[0].value, {}, "_dmig_field"), "_dmig_field")
    if [p[5] for p in T["dmigField"][0]] != ["num"] or [p[5] for p in T["dmigFieldFallback"][0]] != ["num"]:
        raise Unparsable("_dmig_field: the templates do not format num")
    _has(fn, r"if mtype & 1 == 0:", "wtdmig double-precision test", 1)
    _has(fn, r"if mtype < 3:", "wtdmig real/complex test", 1)
    C["dmigSymForm"] = _int_in(fn, r"^start_row = col if form == (\d+) else 0$", "wtdmig start_row")
    _has(fn, r"for row in range\(start_row, m\.shape\[0\]\):", "wtdmig row loop", 1)
    _has(fn, r"if num != 0\.0:", "wtdmig zero test", 1)
    _has(fn, r"if m\[:, col\]\.any\(\):", "wtdmig null-column test", 1)
    src = ast.unparse(fn)
    m = re.search(r"if colids\.nlevels == 1:\n\s+form = (\d+)\n\s+ncol = colids\.max\(\)\n\s+elif value\.shape\[0\] != value\.shape\[1\]:"
                  r"\n\s+form = (\d+)\n\s+elif rowids\.equals\(colids\) and np\.allclose\(m\.transpose\(\), m\):\n\s+form = (\d+)"
                  r"\n\s+else:\n\s+form = (\d+)\n", src)
    if not m:
        raise Unparsable("wtdmig: the form / NCOL decision is not `nlevels == 1 -> 9, ncol = colids.max(); shape -> 2; "
                         "rowids.equals(colids) and allclose -> 6; else 1`")
    C["dmigFormSingle"], C["dmigFormRect"], C["dmigFormSymW"], C["dmigFormSquare"] = (int(x) for x in m.groups())
    _has(fn, r"ncol = value\.shape\[1\]", "wtdmig default ncol", 1)

    # ---- wtnasints --------------------------------------------------------------------------
    fn = _func(tree, "wtnasints")
    C["nasintsFirst"] = _int_in(fn, r"^firstline = (\d+) - start$", "wtnasints firstline")
    C["nasintsPerLine"] = _int_in(fn, r"^while n >= i \+ (\d+):$", "wtnasints loop")
    _has(fn, r"if n >= firstline:", "wtnasints first-line test", 1)
    w = _writes(fn)
    if len(w) != 4:
        raise Unparsable("wtnasints: expected four f.write calls")
    t = [_tpl(x, {}, "wtnasints") for x in w]
    want_first = [("rep", (("fld", " ", 8, 0, "d"),), "i"), ("lit", "\n")]
    if t[0] != want_first or t[3] != [("rep", (("fld", " ", 8, 0, "d"),), "n"), ("lit", "\n")]:
        raise Unparsable("wtnasints: first-line template is not '{:8d}' * k + newline")
    if t[1][-1] != ("lit", "\n") or t[2] != [t[1][0], ("rep", (t[1][1],), "n"), ("lit", "\n")]:
        raise Unparsable("wtnasints: continuation templates differ")
    if len(t[1]) != 2 + C["nasintsPerLine"] or len(set(t[1][1:-1])) != 1:
        raise Unparsable("wtnasints: a full continuation line is not lead + %d equal fields" % C["nasintsPerLine"])
    T["nasintsLead"] = [[t[1][0]]]
    T["nasintsField"] = [[t[1][1]]]
    if t[0][0][1][0] != t[1][1]:
        raise Unparsable("wtnasints: the first line and the continuation lines use different field formats")

    # ---- wtcsuper / wtextrn -------------------------------------------------------------------
    for name, key in (("wtcsuper", "csuper"), ("wtextrn", "extrn")):
        fn = _func(tree, name)
        w = _writes(fn)
        if len(w) != 1:
            raise Unparsable("%s: expected one f.write" % name)
        T[key + "Prefix"] = _lines(_tpl(w[0], {}, name, fmt=False), name)
        C[key + "Start"] = _int_in(fn, r"^wtnasints\(f, (\d+), \w+\)$", name + " start field")

    # ---- _wt_with_thru / wtset ------------------------------------------------------------------
    fn = _func(tree, "_wt_with_thru")
    C["thruFlush"] = _int_in(fn, r"^if len\(fields\) == (\d+):$", "_wt_with_thru flush")
    _has(fn, r"fields\.extend\(\[seq\[start\], 'THRU', seq\[end\]\]\)", "_wt_with_thru THRU triple", 1)
    _has(fn, r"if end > start:", "_wt_with_thru run test", 1)
    fn = _func(tree, "wtset")
    C["setMaxLength"] = _default(fn, "max_length")
    js = [n for n in ast.walk(fn) if isinstance(n, ast.JoinedStr)]
    js.sort(key=lambda n: (n.lineno, n.col_offset))
    js = [j for j in js if any(isinstance(v, ast.Constant) and ("SET" in v.value or ", " in v.value) for v in j.values)]
    if len(js) != 3:
        raise Unparsable("wtset: expected three token f-strings")
    for key, node in zip(("setHeadTok", "setThruTok", "setOneTok"), js):
        T[key] = _lines(_tpl(node, {}, "wtset"), "wtset")
    _has(fn, r"output\[-1\] = output\[-1\]\.rstrip\(', '\)", "wtset last-token strip", 1)
    _has(fn, r"output = _wrap_text_lines\(output, max_length, ''\)", "wtset wrap call", 1)
    _has(fn, r"f\.write\('\\n'\.join\(output\)\)", "wtset join", 1)
    _has(fn, r"if end > start:", "wtset run test", 1)

    # ---- wtgrids ------------------------------------------------------------------------------
    fn = _func(tree, "wtgrids")
    S["gridDefaultForm"] = _default(fn, "form")
    vals = _assigns(fn, "string")
    if len(vals) != 4:
        raise Unparsable("wtgrids: expected four `string = ...` templates")
    for key, node in zip(("gridWideShort", "gridSmallShort", "gridWideLong", "gridSmallLong"), vals):
        T[key] = _lines(_tpl(node, {}, "wtgrids"), "wtgrids")
    _has(fn, r"if ps == seid == '':", "wtgrids short-card test", 1)
    _has(fn, r"if len\(teststr\) > 8:", "wtgrids width test", 2)
    _has(fn, r"writer\.vecwrite\(f, string, grids, cp, xyz\[:, 0\], xyz\[:, 1\], xyz\[:, 2\], cd\)", "wtgrids short call", 1)
    _has(fn, r"writer\.vecwrite\(f, string, grids, cp, xyz\[:, 0\], xyz\[:, 1\], xyz\[:, 2\], cd, ps, seid\)", "wtgrids long call", 1)

    # ---- wttabled1 ----------------------------------------------------------------------------
    fn = _func(tree, "wttabled1")
    S["tabDefaultForm"] = _default(fn, "form")
    S["tabDefaultName"] = _default(fn, "tablestr")
    w = _writes(fn)
    # title, wide header, wide lead, pair, small header, small lead, pair, ENDT
    if len(w) != 8:
        raise Unparsable("wttabled1: expected eight f.write calls, found %d" % len(w))
    T["tabWideHead"] = _lines(_tpl(w[1], {}, "wttabled1"), "wttabled1")
    T["tabWideLead"] = _lines(_tpl(w[2], {}, "wttabled1", fmt=False), "wttabled1")
    T["tabSmallHead"] = _lines(_tpl(w[4], {}, "wttabled1"), "wttabled1")
    T["tabSmallLead"] = _lines(_tpl(w[5], {}, "wttabled1", fmt=False), "wttabled1")
    T["tabEnd"] = _lines(_tpl(w[7], {}, "wttabled1", fmt=False), "wttabled1")
    if ast.unparse(w[3]) != "form.format(t[j], d[j])" or ast.unparse(w[6]) != "form.format(t[j], d[j])":
        raise Unparsable("wttabled1: the remainder loop does not write form.format(t[j], d[j])")
    C["tabWidePerLine"] = _int_in(fn, r"^rows = npts // (2)$", "wttabled1 wide rows")
    C["tabSmallPerLine"] = _int_in(fn, r"^rows = npts // (4)$", "wttabled1 small rows")
    if _int_in(fn, r"^r = rows \* (2)$", "wttabled1 r") != 2 or _int_in(fn, r"^r = rows \* (4)$", "wttabled1 r") != 4:
        raise Unparsable("wttabled1: r")
    vw = [n for n in ast.walk(fn) if isinstance(n, ast.Call) and ast.unparse(n.func) == "writer.vecwrite"]
    vw.sort(key=lambda n: n.lineno)
    if len(vw) != 2:
        raise Unparsable("wttabled1: expected two vecwrite calls")
    T["tabWideLine"] = _lines(_tpl(vw[0].args[1], {}, "wttabled1", fmt=False), "wttabled1")
    T["tabSmallLine"] = _lines(_tpl(vw[1].args[1], {}, "wttabled1", fmt=False), "wttabled1")
    want = lambda k: ", ".join("%s[%s:r:%d]" % (v, i if i else "", k) for i in range(k) for v in "td")
    if ", ".join(ast.unparse(a) for a in vw[0].args[2:]) != want(2) or ", ".join(ast.unparse(a) for a in vw[1].args[2:]) != want(4):
        raise Unparsable("wttabled1: vecwrite column slices changed")
    _has(fn, r"if rows > 0:", "wttabled1 empty-block guard (fix 9aba476)", 2)
    _has(fn, r"if n == 32:", "wttabled1 width test", 1)
    # the default case (fix 328435d, finding F65): `if form == "<default>":` pre-formats both columns value by value through
    # the 16-character helper of wtdmig and hands the strings on with the pair format '{:s}{:s}' - after the width test on
    # `form`, before anything is written
    dt = [n for n in ast.walk(fn) if isinstance(n, ast.If) and re.match(r"^form == '[^']*'$", ast.unparse(n.test))]
    if len(dt) != 1 or dt[0].orelse:
        raise Unparsable("wttabled1: expected exactly one `if form == '<default form>':` block without else (the per-value "
                         "formatting of the default case), found %d" % len(dt))
    dt = dt[0]
    S["tabDefaultTest"] = dt.test.comparators[0].value
    nl = [n.lineno for n in ast.walk(fn) if isinstance(n, ast.Assign) and ast.unparse(n) == "n = len(form.format(1, 1))"]
    if len(nl) != 1 or not (nl[0] < dt.lineno < min(x.lineno for x in w)):
        raise Unparsable("wttabled1: the default-form block is not between `n = len(form.format(1, 1))` and the first f.write")
    body = [ast.unparse(st) for st in dt.body]
    m = [re.match(r"^%s = np\.array\(\[(\w+)\(v\) for v in %s\], dtype=str\)$" % (v, v), b) for v, b in zip("td", body[:2])]
    if len(body) != 3 or not all(m) or m[0].group(1) != m[1].group(1):
        raise Unparsable("wttabled1: the default-form block is not `t = np.array([<helper>(v) for v in t], dtype=str)`, the "
                         "same for d, `form = '<pair format>'`")
    S["tabPreHelper"] = m[0].group(1)
    m = re.match(r"^form = '([^']*)'$", body[2])
    if not m:
        raise Unparsable("wttabled1: the default-form block does not end with `form = '<pair format>'`")
    S["tabPreForm"] = m.group(1)
    _has(fn, r"tablestr = tablestr \+ '\*'", "wttabled1 wide name", 1)

    # ---- wtcoordcards -------------------------------------------------------------------------
    fn = _func(tree, "wtcoordcards", "_wtcoords")
    w = _writes(fn)
    if len(w) != 4:
        raise Unparsable("wtcoordcards: expected four f.write calls")
    T["cordComment"] = _lines(_tpl(w[0], {}, "wtcoordcards"), "wtcoordcards")
    for key, node in zip(("cordLine1", "cordLine2", "cordLine3"), w[1:]):
        T[key] = _lines(_tpl(node, {}, "wtcoordcards"), "wtcoordcards")
    m = re.search(r"abc\[abs\(abc\) < abs\(abc\)\.max\(\) \* 1e-(\d+)\] = 0\.0", ast.unparse(fn))
    if not m:
        raise Unparsable("wtcoordcards: noise floor statement changed")
    C["cordNoiseExp"] = int(m.group(1))
    args = [", ".join(ast.unparse(a) for a in x.args) for x in w[1:]]
    if args != ["data[0] + '*', k, int(coord[0, 2]), *abc[0, :2]", "'*', abc[0, 2], *abc[1]", "'*', *abc[2]"]:
        raise Unparsable("wtcoordcards: the values handed to the three lines changed: %s" % args)

    # ---- readers ------------------------------------------------------------------------------
    fn = _func(tree, "rdcards")
    src = ast.unparse(fn)
    m = re.search(r"vals = \[_rdcomma\(fiter, s, '([^']*)', blank, tolist, keep_name\)\]", src)
    if not m:
        raise Unparsable("rdcards: comma branch changed")
    S["conComma"] = m.group(1)
    m = re.search(r"s = s\[:(\d+)\]\.rstrip\(\)\n\s+p = s\[:(\d+)\]\.find\('\*'\)\n\s+field, continuation = \((\d+), '([^']*)'\) if p > -1 else \((\d+), '([^']*)'\)", src)
    if not m:
        raise Unparsable("rdcards: fixed-field branch changed")
    C["rdLineLen"], C["rdNameLen"], C["rdWideField"], C["rdSmallField"] = int(m.group(1)), int(m.group(2)), int(m.group(3)), int(m.group(5))
    S["conWide"], S["conSmall"] = m.group(4), m.group(6)
    _has(fn, r"elif s\.find\(','\) > -1:", "rdcards comma test", 1)
    fn = _func(tree, "_rdfixed")
    src = ast.unparse(fn)
    m = re.search(r"if n > 8:\n\s+inc = (\d+)\n\s+else:\n\s+inc = (\d+)\n", src)
    if not m:
        raise Unparsable("_rdfixed: inc")
    C["rdWideInc"], C["rdSmallInc"] = int(m.group(1)), int(m.group(2))
    if _int_in(fn, r"^maxstart = (\d+) - n$", "_rdfixed maxstart") != C["rdLineLen"]:
        raise Unparsable("_rdfixed: maxstart is not line length - n")
    if _int_in(fn, r"^j = (\d+)$", "_rdfixed first column") != C["rdNameLen"]:
        raise Unparsable("_rdfixed: the first data column is not the name width")
    _has(fn, r"s = _proc_line\(s\[:72\]\)", "_rdfixed line cut", 2)
    _has(fn, r"while j <= maxstart and length > j:", "_rdfixed field loop", 1)
    _has(fn, r"if s is None or len\(s\) == 0 or conchar\.find\(s\[0\]\) < 0:", "_rdfixed continuation test", 1)
    fn = _func(tree, "_rdcomma")
    C["rdCommaTokens"] = _int_in(fn, r"^lentok = min\(len\(tok\), (\d+)\)$", "_rdcomma token limit")
    C["rdCommaInc"] = _int_in(fn, r"^inc = (\d+)$", "_rdcomma inc")
    _has(fn, r"if s is None or len\(s\) == 0 or conchar\.find\(s\[0\]\) < 0:", "_rdcomma continuation test", 1)
    return {"T": {k: [_strip_names(l) for l in v] for k, v in T.items()}, "C": C, "S": S}


# ---------------------------------------------------------------------------------------------
# rendering

T_ORDER = ["dmigHeader", "dmigColCard", "dmigRowLine", "dmigField", "dmigFieldFallback", "nasintsLead", "nasintsField",
           "csuperPrefix", "extrnPrefix", "setHeadTok", "setThruTok", "setOneTok", "gridWideShort", "gridSmallShort",
           "gridWideLong", "gridSmallLong", "tabWideHead", "tabWideLead", "tabWideLine", "tabSmallHead", "tabSmallLead",
           "tabSmallLine", "tabEnd", "cordComment", "cordLine1", "cordLine2", "cordLine3"]
C_ORDER = ["dmigFieldWidth", "dmigSymForm", "dmigFormSingle", "dmigFormRect", "dmigFormSymW", "dmigFormSquare", "nasintsFirst", "nasintsPerLine",
           "csuperStart", "extrnStart", "thruFlush", "setMaxLength", "tabWidePerLine", "tabSmallPerLine", "cordNoiseExp",
           "rdLineLen", "rdNameLen", "rdWideField", "rdSmallField", "rdWideInc", "rdSmallInc", "rdCommaTokens", "rdCommaInc"]
S_ORDER = ["gridDefaultForm", "tabDefaultForm", "tabDefaultName", "tabDefaultTest", "tabPreHelper", "tabPreForm", "conComma", "conWide", "conSmall"]


def _lean_str(s):
    return '"' + s.replace("\\", "\\\\").replace('"', '\\"').replace("\n", "\\n") + '"'


def _lean_piece(p):
    if p[0] == "lit":
        return ".lit " + _lean_str(p[1])
    if p[0] == "form":
        return ".form"
    if p[0] == "fld":
        return ".fld '%s' %d %d '%s'" % (p[1], p[2], p[3], p[4])
    raise Unparsable("a symbolic repetition survived in a template: %r" % (p,))


def render(c):
    lines = [
        "/- GENERATED by harness/translate/c13_bulkformats.py from pyyeti/nastran/bulk.py — do not edit. -/",
        "namespace PyYetiVerif.Generated.BulkFormats",
        "",
        "/-- one piece of a format template: literal text, a replacement field `{:[align][width][.prec][type]}`",
        "(`' '` = not given, `0` = not given) or the caller's `form` (one coordinate / table value) -/",
        "inductive Piece where",
        "  | lit (s : String)",
        "  | fld (align : Char) (width : Nat) (prec : Nat) (ty : Char)",
        "  | form",
        "deriving DecidableEq, Repr",
        "",
    ]
    for k in T_ORDER:
        lines.append("def %s : List (List Piece) :=" % k)
        lines.append("  [" + ",\n   ".join("[" + ", ".join(_lean_piece(p) for p in l) + "]" for l in c["T"][k]) + "]")
    lines.append("")
    for k in C_ORDER:
        lines.append("def %s : Nat := %d" % (k, c["C"][k]))
    lines.append("")
    for k in S_ORDER:
        lines.append("def %s : String := %s" % (k, _lean_str(c["S"][k])))
    lines += ["", "end PyYetiVerif.Generated.BulkFormats", ""]
    return "\n".join(lines)


def run(repo, lean_dir):
    c = extract(repo)
    text = render(c)
    out = os.path.join(lean_dir, OUT)
    old = open(out).read() if os.path.exists(out) else None
    if old != text:
        os.makedirs(os.path.dirname(out), exist_ok=True)
        with open(out, "w") as f:
            f.write(text)
    return c
