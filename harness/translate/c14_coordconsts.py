"""Translator for C14: the numeric constants of pyyeti/nastran/n2p.py that the Lean model of the coordinate /
rigid-body geometry depends on  ->  lean/PyYetiVerif/Generated/CoordConsts.lean

The source is read with Python `ast` (the repo code is NOT executed here).  What is extracted, and the shape
each occurrence must have:

  rbgeom_uset          every float literal of the body must be the right-hand side of a comparison
                       `abs(<e>) + abs(<e>) > <c>`; there are exactly three of them and they carry the same `<c>`,
                       a negative power of ten  (the threshold below which a polar fix-up is skipped)   -> tinyExp
  formrbe3             exactly one comparison `Lc > <c>`, `<c>` a negative power of ten                 -> tiny12Exp
                       the only other float literal of the body is the default weighting factor `1.0`
  _get_loc_a_basic,    exactly one assignment `a2r = math.pi / <c>` each, same `<c>`                     -> degHalfTurn
  mkusetcoordinfo
  getcoordinates       exactly three expressions `<name> * <c> / math.pi`, same `<c>` as above
  expanddof            the comparisons `<e>.max() <= <c>` and `(<e> > <c>).any()`, same integer `<c>`     -> maxDof

Anything else raises `Unparsable`, which the property module turns into runner.TieBroken.  The generated constants
are *used* by the model (Model/Coord.lean: `TransOps Float`, Model/CoordRbe3Wrap.lean: `expandDof`) and by the `ℝ`
instance the theorems are about (Lemmas/Coord.lean); `Lemmas/CoordReal.lean` holds the `rfl` obligations for the
values the proofs rely on (180 degrees per half turn, components 1..6).
"""
import ast
import os
import struct

SRC = os.path.join("pyyeti", "nastran", "n2p.py")
OUT = os.path.join("PyYetiVerif", "Generated", "CoordConsts.lean")


class Unparsable(Exception):
    pass


def _body(fn):
    body = list(fn.body)
    if body and isinstance(body[0], ast.Expr) and isinstance(getattr(body[0], "value", None), ast.Constant):
        body = body[1:]  # docstring
    return body


def _floats(nodes):
    out = []
    for st in nodes:
        for n in ast.walk(st):
            if isinstance(n, ast.Constant) and type(n.value) is float:
                out.append(n)
    return out


def _is_abs(n):
    return isinstance(n, ast.Call) and isinstance(n.func, ast.Name) and n.func.id == "abs" and len(n.args) == 1


def _neg_pow10(x, what):
    for k in range(1, 40):
        if float("1e-%d" % k) == x:
            return k
    raise Unparsable("%s is %r, not a negative power of ten" % (what, x))


def _is_math_pi(n):
    return (isinstance(n, ast.Attribute) and n.attr == "pi" and isinstance(n.value, ast.Name)
            and n.value.id == "math")


def parse(repo):
    path = os.path.join(repo, SRC)
    tree = ast.parse(open(path, encoding="utf-8").read())
    fns = {}
    for n in tree.body:
        if isinstance(n, ast.FunctionDef):
            if n.name in fns:
                raise Unparsable("function %s defined twice" % n.name)
            fns[n.name] = n
    for name in ("rbgeom_uset", "formrbe3", "_get_loc_a_basic", "mkusetcoordinfo", "getcoordinates", "expanddof"):
        if name not in fns:
            raise Unparsable("top-level def %s not found" % name)

    # --- rbgeom_uset: the fix-up thresholds
    body = _body(fns["rbgeom_uset"])
    thr = []
    for st in body:
        for n in ast.walk(st):
            if (isinstance(n, ast.Compare) and len(n.ops) == 1 and isinstance(n.ops[0], ast.Gt)
                    and isinstance(n.left, ast.BinOp) and isinstance(n.left.op, ast.Add)
                    and _is_abs(n.left.left) and _is_abs(n.left.right)
                    and isinstance(n.comparators[0], ast.Constant) and type(n.comparators[0].value) is float):
                thr.append(n.comparators[0])
    fl = _floats(body)
    if len(thr) != 3:
        raise Unparsable("rbgeom_uset: %d comparisons `abs(.) + abs(.) > c`, expected 3" % len(thr))
    if {id(n) for n in fl} != {id(n) for n in thr}:
        raise Unparsable("rbgeom_uset: float literals other than the three fix-up thresholds (lines %s)"
                         % sorted({n.lineno for n in fl} - {n.lineno for n in thr}))
    if len({n.value for n in thr}) != 1:
        raise Unparsable("rbgeom_uset: the three fix-up thresholds differ: %s" % [n.value for n in thr])
    tiny = thr[0].value
    tiny_exp = _neg_pow10(tiny, "rbgeom_uset fix-up threshold")
    # the skipped second spherical fix-up uses th = 0
    th0 = [n for st in body for n in ast.walk(st)
           if isinstance(n, ast.Assign) and len(n.targets) == 1 and isinstance(n.targets[0], ast.Name)
           and n.targets[0].id == "th" and isinstance(n.value, ast.Constant)]
    if len(th0) != 1 or th0[0].value.value != 0:
        raise Unparsable("rbgeom_uset: the `else: th = 0` of the spherical fix-up changed")

    # --- formrbe3: characteristic-length threshold, default weight
    body = _body(fns["formrbe3"])
    lc = []
    for st in body:
        for n in ast.walk(st):
            if (isinstance(n, ast.Compare) and len(n.ops) == 1 and isinstance(n.ops[0], ast.Gt)
                    and isinstance(n.left, ast.Name) and n.left.id == "Lc"
                    and isinstance(n.comparators[0], ast.Constant) and type(n.comparators[0].value) is float):
                lc.append(n.comparators[0])
    if len(lc) != 1:
        raise Unparsable("formrbe3: %d comparisons `Lc > c`, expected 1" % len(lc))
    tiny12_exp = _neg_pow10(lc[0].value, "formrbe3 characteristic-length threshold")
    others = [n for n in _floats(body) if n is not lc[0]]
    if len(others) != 1 or others[0].value != 1.0:
        raise Unparsable("formrbe3: float literals besides `Lc > c`: %s, expected the default weight 1.0 only"
                         % [n.value for n in others])
    wt = [n for st in body for n in ast.walk(st)
          if isinstance(n, ast.Assign) and len(n.targets) == 1 and isinstance(n.targets[0], ast.Name)
          and n.targets[0].id == "wtcur" and n.value is others[0]]
    if len(wt) != 1:
        raise Unparsable("formrbe3: `wtcur = 1.0` not found")

    # --- degrees
    degs = []
    for name in ("_get_loc_a_basic", "mkusetcoordinfo"):
        a2r = [n for st in _body(fns[name]) for n in ast.walk(st)
               if isinstance(n, ast.Assign) and len(n.targets) == 1 and isinstance(n.targets[0], ast.Name)
               and n.targets[0].id == "a2r"]
        if len(a2r) != 1:
            raise Unparsable("%s: %d assignments to a2r, expected 1" % (name, len(a2r)))
        v = a2r[0].value
        if not (isinstance(v, ast.BinOp) and isinstance(v.op, ast.Div) and _is_math_pi(v.left)
                and isinstance(v.right, ast.Constant) and type(v.right.value) in (int, float)):
            raise Unparsable("%s: a2r is not `math.pi / <number>`" % name)
        degs.append(float(v.right.value))
    conv = []
    for st in _body(fns["getcoordinates"]):
        for n in ast.walk(st):
            if (isinstance(n, ast.BinOp) and isinstance(n.op, ast.Div) and _is_math_pi(n.right)
                    and isinstance(n.left, ast.BinOp) and isinstance(n.left.op, ast.Mult)
                    and isinstance(n.left.left, ast.Name) and isinstance(n.left.right, ast.Constant)):
                conv.append(float(n.left.right.value))
    if len(conv) != 3:
        raise Unparsable("getcoordinates: %d expressions `<angle> * c / math.pi`, expected 3" % len(conv))
    if len(set(degs + conv)) != 1 or degs[0] != int(degs[0]) or degs[0] <= 0:
        raise Unparsable("degree conversions differ or are not a positive integer: %s" % (degs + conv))
    deg = int(degs[0])

    # --- expanddof
    mx = []
    for st in _body(fns["expanddof"]):
        for n in ast.walk(st):
            if (isinstance(n, ast.Compare) and len(n.ops) == 1 and isinstance(n.ops[0], (ast.LtE, ast.Gt))
                    and isinstance(n.comparators[0], ast.Constant) and type(n.comparators[0].value) is int):
                mx.append((type(n.ops[0]).__name__, n.comparators[0].value))
    if sorted(mx) != sorted([("LtE", mx[0][1] if mx else None), ("Gt", mx[0][1] if mx else None)]):
        raise Unparsable("expanddof: comparisons with an integer are %s, expected one `<= c` and one `> c`" % mx)
    maxdof = mx[0][1]
    if not 1 <= maxdof <= 9:
        raise Unparsable("expanddof: largest component %r is not a single digit" % maxdof)
    return {"tinyExp": tiny_exp, "tiny": tiny, "tiny12Exp": tiny12_exp, "tiny12": lc[0].value,
            "degHalfTurn": deg, "maxDof": maxdof}


def _bits(x):
    return struct.unpack("<Q", struct.pack("<d", x))[0]


def render(c):
    return "\n".join([
        "/-! GENERATED by harness/translate/c14_coordconsts.py from pyyeti/nastran/n2p.py",
        "(rbgeom_uset, formrbe3, _get_loc_a_basic, mkusetcoordinfo, getcoordinates, expanddof).",
        "Do not edit: regenerated from /repo's working tree on every `./check C14`. -/",
        "namespace PyYetiVerif.Generated.CoordConsts",
        "",
        "/-- `abs(loc2[1]) + abs(loc2[0]) > %r` (three places in `rbgeom_uset`): the threshold is `10 ^ -tinyExp` -/"
        % c["tiny"],
        "def tinyExp : Nat := %d" % c["tinyExp"],
        "/-- the same number as an IEEE double -/",
        "def tinyBits : UInt64 := %d" % _bits(c["tiny"]),
        "",
        "/-- `Lc > %r` in `formrbe3`: `10 ^ -tiny12Exp` -/" % c["tiny12"],
        "def tiny12Exp : Nat := %d" % c["tiny12Exp"],
        "def tiny12Bits : UInt64 := %d" % _bits(c["tiny12"]),
        "",
        "/-- `a2r = math.pi / %d`, `theta * %d / math.pi`: degrees per half turn -/" % (c["degHalfTurn"], c["degHalfTurn"]),
        "def degHalfTurn : Nat := %d" % c["degHalfTurn"],
        "",
        "/-- `expanddof`: the largest component digit -/",
        "def maxDof : Nat := %d" % c["maxDof"],
        "",
        "end PyYetiVerif.Generated.CoordConsts",
    ]) + "\n"


def run(repo, lean_dir):
    c = parse(repo)
    text = render(c)
    path = os.path.join(lean_dir, OUT)
    old = open(path, encoding="utf-8").read() if os.path.exists(path) else None
    if old != text:
        with open(path, "w", encoding="utf-8") as f:
            f.write(text)
    return ["CoordConsts"], c


if __name__ == "__main__":
    import sys

    sys.stdout.write(render(parse(sys.argv[1] if len(sys.argv) > 1 else "/repo")))
