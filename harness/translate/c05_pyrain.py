"""Translator for C05: pyyeti/rainflow/py_rain.py -> lean/PyYetiVerif/Generated/PyRain.lean

The three functions `rainflow`, `_rainflow1`, `_rainflow2` are read with Python `ast` (the repo
code is NOT executed) and re-emitted as a *shallow embedding* in Lean: one state record per
function holding every local variable, one Lean `def` per loop body, straight-line code as an
`Option`-monad `do` block in source order.  Nothing is simplified: the output mirrors the control
flow of the source (arrays indexed by `j`, `n`; in-place writes; `break`), not the list-based model
of Model/Rainflow.lean.  Lemmas/RainflowGen*.lean prove, for all inputs, that the emitted programs
never fail and compute the model's table (`generated_rainflow1_eq_model`,
`generated_rainflow2_eq_model`, `generated_entry_eq_model`), so a source change changes the
emitted file and breaks those proofs.

Grammar accepted for `_rainflow1` / `_rainflow2` (parameters exactly `(peaks, L)`; anything else
raises TieBroken):

    func  ::= [docstring] stmt* 'return' slice [',' slice]        slice ::= NAME '[' ':' iexpr ']'
    stmt  ::= NAME '=' 'np.empty(' shape [', np.int64'] ')'       (top level of the function only)
            | NAME '=' expr | NAME ('+='|'-=') INT
            | NAME '[' iexpr ']' '=' expr | NAME '[' iexpr ',' INT ']' '=' expr
            | 'for' NAME 'in range(' iexpr '):' stmt+
            | 'while' cmp ':' stmt+
            | 'if' cmp ':' 'break'                                 (directly in a while body)
            | 'if' cmp ':' stmt+ ['else:' stmt+]
    shape ::= iexpr | '(' iexpr ',' INT ')'
    iexpr ::= INT | '-' INT | int-NAME | iexpr ('+'|'-') iexpr | int-array '[' iexpr ']'
    fexpr ::= '0.5' | '1.0' | float-NAME | float-array '[' iexpr ']' | fexpr ('+'|'-') fexpr
            | 'abs(' fexpr ')' | fexpr '/ 2'
    cmp   ::= iexpr ('>'|'<'|'=='|'>='|'<='|'!=') iexpr | fexpr '<' fexpr

Types are inferred from the first assignment (`np.empty(..)` float array, `np.empty(.., np.int64)`
int array, int / float scalar by the expression grammar); a name keeps its type; integer scalars
and arrays must be definitely assigned before they are read (flow check below; float scalars are
`Option`-valued in the embedding, an unassigned read fails at run time instead).  Semantics of the
embedding (Model/RainflowImp.lean): cells of `np.empty` arrays are unwritten until assigned; reading an
unwritten cell, any index outside `0 ≤ i < len` (numpy would wrap a negative one) and a slice
stop outside `0 … rows` are failures; `while` has explicit fuel.

`rainflow(peaks, getoffsets=False)` must be, statement for statement,

    peaks = np.atleast_1d(peaks)
    L = peaks.size if peaks.ndim == 1 else 0
    if L < INT: raise ValueError(<str>)
    if getoffsets: return _rainflow2(peaks, L)
    return _rainflow1(peaks, L)

with `INT`, the attribute names and the two callees read from the source.  The trailing
`try: import numba … else: _rainflowN = numba.jit(nopython=True, cache=True)(_rainflowN)` block is
checked to be exactly that (decoration of the same definitions, no other rebinding).
"""
import ast
import os

from runner import TieBroken

SRC = os.path.join("pyyeti", "rainflow", "py_rain.py")
OUT = os.path.join("PyYetiVerif", "Generated", "PyRain.lean")

FARR, FARR2, IARR, IARR2, INT, FLOAT = "farr", "farr2", "iarr", "iarr2", "int", "float"
LEAN_TY = {
    FARR: "Arr α", FARR2: "Arr2 α", IARR: "Arr Int", IARR2: "Arr2 Int", INT: "Int", FLOAT: "Option α",
}
LEAN_INIT = {
    FARR: "⟨#[]⟩", FARR2: "⟨0, 0, #[]⟩", IARR: "⟨#[]⟩", IARR2: "⟨0, 0, #[]⟩", INT: "0", FLOAT: "none",
}
CMP = {ast.Gt: ">", ast.Lt: "<", ast.Eq: "=", ast.GtE: "≥", ast.LtE: "≤", ast.NotEq: "≠"}


def bad(node, why):
    raise TieBroken("py_rain.py line %s: %s" % (getattr(node, "lineno", "?"), why))


class Func:
    """Translation of one `_rainflowN(peaks, L)`."""

    def __init__(self, fn, src):
        self.fn = fn
        self.src = src
        self.name = fn.name.lstrip("_")          # rainflow1
        self.st = self.name[0].upper() + self.name[1:] + "St"
        self.types = {}                            # local -> type (insertion order = field order)
        self.params = {"peaks": FARR, "L": INT}
        self.defs = []                             # emitted loop-body defs (text)
        self.nfor = 0
        self.nwhile = 0
        self.tmp = 0
        self.nresults = 0

    # ---- expressions -------------------------------------------------------------------
    def fresh(self):
        self.tmp += 1
        return "t%d" % self.tmp

    def vtype(self, node, name):
        if name in self.params:
            return self.params[name]
        if name in self.types:
            return self.types[name]
        bad(node, "name %r is read before any assignment" % name)

    def ref(self, name):
        return name if name in self.params else "s." + name

    def iexpr(self, node, pre, defined):
        """integer expression -> Lean term of type Int; array reads are hoisted into `pre`."""
        if isinstance(node, ast.Constant) and type(node.value) is int:
            return "%d" % node.value if node.value >= 0 else "(%d)" % node.value
        if isinstance(node, ast.UnaryOp) and isinstance(node.op, ast.USub) and isinstance(node.operand, ast.Constant) \
                and type(node.operand.value) is int:
            return "(-%d)" % node.operand.value
        if isinstance(node, ast.Name):
            if self.vtype(node, node.id) != INT:
                bad(node, "%r is not an integer variable" % node.id)
            self.need(node, node.id, defined)
            return self.ref(node.id)
        if isinstance(node, ast.BinOp) and isinstance(node.op, (ast.Add, ast.Sub)):
            op = "+" if isinstance(node.op, ast.Add) else "-"
            return "(%s %s %s)" % (self.iexpr(node.left, pre, defined), op, self.iexpr(node.right, pre, defined))
        if isinstance(node, ast.Subscript) and isinstance(node.value, ast.Name) \
                and self.vtype(node, node.value.id) == IARR:
            self.need(node, node.value.id, defined)
            i = self.iexpr(node.slice, pre, defined)
            t = self.fresh()
            pre.append("let %s ← %s.get %s" % (t, self.ref(node.value.id), i))
            return t
        bad(node, "integer expression outside the grammar: %s" % ast.unparse(node))

    def fexpr(self, node, pre, defined):
        if isinstance(node, ast.Constant) and type(node.value) is float:
            if node.value == 0.5 and ast.get_source_segment(self.src, node) == "0.5":
                return "Ops.c05"
            if node.value == 1.0 and ast.get_source_segment(self.src, node) == "1.0":
                return "Ops.c1"
            bad(node, "float literal other than 0.5 / 1.0")
        if isinstance(node, ast.Name):
            if self.vtype(node, node.id) != FLOAT:
                bad(node, "%r is not a float variable" % node.id)
            t = self.fresh()
            pre.append("let %s ← %s" % (t, self.ref(node.id)))
            return t
        if isinstance(node, ast.Subscript) and isinstance(node.value, ast.Name) \
                and self.vtype(node, node.value.id) == FARR:
            self.need(node, node.value.id, defined)
            i = self.iexpr(node.slice, pre, defined)
            t = self.fresh()
            pre.append("let %s ← %s.get %s" % (t, self.ref(node.value.id), i))
            return t
        if isinstance(node, ast.BinOp) and isinstance(node.op, (ast.Add, ast.Sub)):
            op = "+" if isinstance(node.op, ast.Add) else "-"
            return "(%s %s %s)" % (self.fexpr(node.left, pre, defined), op, self.fexpr(node.right, pre, defined))
        if isinstance(node, ast.BinOp) and isinstance(node.op, ast.Div) and isinstance(node.right, ast.Constant) \
                and type(node.right.value) is int and node.right.value == 2:
            return "(Ops.half %s)" % self.fexpr(node.left, pre, defined)
        if isinstance(node, ast.Call) and isinstance(node.func, ast.Name) and node.func.id == "abs" \
                and len(node.args) == 1 and not node.keywords:
            return "(Ops.abs %s)" % self.fexpr(node.args[0], pre, defined)
        bad(node, "float expression outside the grammar: %s" % ast.unparse(node))

    def etype(self, node):
        """type of an expression without emitting anything"""
        if isinstance(node, ast.Constant):
            return INT if type(node.value) is int else FLOAT if type(node.value) is float else None
        if isinstance(node, ast.UnaryOp):
            return INT
        if isinstance(node, ast.Name):
            return self.vtype(node, node.id)
        if isinstance(node, ast.Subscript) and isinstance(node.value, ast.Name):
            t = self.vtype(node, node.value.id)
            return {FARR: FLOAT, IARR: INT}.get(t)
        if isinstance(node, ast.BinOp):
            if isinstance(node.op, ast.Div):
                return FLOAT
            a, b = self.etype(node.left), self.etype(node.right)
            return a if a == b else None
        if isinstance(node, ast.Call):
            return FLOAT
        return None

    def expr(self, node, pre, defined):
        t = self.etype(node)
        if t == INT:
            return INT, self.iexpr(node, pre, defined)
        if t == FLOAT:
            return FLOAT, self.fexpr(node, pre, defined)
        bad(node, "expression outside the grammar (mixed or unknown type): %s" % ast.unparse(node))

    def cmp(self, node, pre, defined):
        if not (isinstance(node, ast.Compare) and len(node.ops) == 1 and len(node.comparators) == 1):
            bad(node, "condition outside the grammar: %s" % ast.unparse(node))
        a, b = node.left, node.comparators[0]
        ta, tb = self.etype(a), self.etype(b)
        op = type(node.ops[0])
        if ta == INT and tb == INT and op in CMP:
            return "%s %s %s" % (self.iexpr(a, pre, defined), CMP[op], self.iexpr(b, pre, defined))
        if ta == FLOAT and tb == FLOAT and op is ast.Lt:
            return "%s < %s" % (self.fexpr(a, pre, defined), self.fexpr(b, pre, defined))
        bad(node, "comparison outside the grammar: %s" % ast.unparse(node))

    def need(self, node, name, defined):
        if name not in self.params and name not in defined:
            bad(node, "%r may be read before it is assigned" % name)

    # ---- statements --------------------------------------------------------------------
    def declare(self, node, name, ty):
        if name in self.params:
            bad(node, "parameter %r is rebound" % name)
        if self.types.setdefault(name, ty) != ty:
            bad(node, "%r changes its type (%s -> %s)" % (name, self.types[name], ty))

    def np_empty(self, node):
        """np.empty(shape[, np.int64]) -> (type, lean)"""
        v = node.value
        if not (isinstance(v, ast.Call) and isinstance(v.func, ast.Attribute) and v.func.attr == "empty"
                and isinstance(v.func.value, ast.Name) and v.func.value.id == "np"):
            return None
        if v.keywords or not 1 <= len(v.args) <= 2:
            bad(node, "np.empty call outside the grammar")
        isint = False
        if len(v.args) == 2:
            d = v.args[1]
            if not (isinstance(d, ast.Attribute) and isinstance(d.value, ast.Name) and d.value.id == "np"
                    and d.attr == "int64"):
                bad(node, "np.empty dtype other than np.int64")
            isint = True
        return v.args[0], isint

    def block(self, stmts, ind, defined, in_while, tail, top=False, direct=False):
        """emit `stmts` as lines of a do block at indentation `ind`; `tail` is the final line(s).
        Returns the lines; `defined` (set) is updated."""
        out = []
        pad = " " * ind
        for idx, st in enumerate(stmts):
            srcline = ast.unparse(st).split("\n")[0]
            out.append(pad + "-- " + srcline)
            pre = []
            if isinstance(st, ast.Assign) and len(st.targets) == 1 and isinstance(st.targets[0], ast.Name):
                name = st.targets[0].id
                emp = self.np_empty(st)
                if emp is not None:
                    if not top:
                        bad(st, "np.empty below the top level of the function")
                    shape, isint = emp
                    if isinstance(shape, ast.Tuple):
                        if len(shape.elts) != 2 or not (isinstance(shape.elts[1], ast.Constant)
                                                        and type(shape.elts[1].value) is int):
                            bad(st, "np.empty shape outside the grammar")
                        ty = IARR2 if isint else FARR2
                        call = "Arr2.empty %s %d" % (self.iexpr(shape.elts[0], pre, defined), shape.elts[1].value)
                    else:
                        ty = IARR if isint else FARR
                        call = "Arr.empty %s" % self.iexpr(shape, pre, defined)
                    self.declare(st, name, ty)
                    t = self.fresh()
                    out += [pad + p for p in pre]
                    out.append(pad + "let %s ← %s" % (t, call))
                    out.append(pad + "let s := { s with %s := %s }" % (name, t))
                    defined.add(name)
                    continue
                ty, e = self.expr(st.value, pre, defined)
                self.declare(st, name, ty)
                out += [pad + p for p in pre]
                out.append(pad + "let s := { s with %s := %s }" % (name, e if ty == INT else "some " + e))
                defined.add(name)
            elif isinstance(st, ast.AugAssign) and isinstance(st.target, ast.Name) \
                    and isinstance(st.op, (ast.Add, ast.Sub)) and isinstance(st.value, ast.Constant) \
                    and type(st.value.value) is int:
                name = st.target.id
                if self.vtype(st, name) != INT:
                    bad(st, "augmented assignment to a non-integer")
                self.need(st, name, defined)
                op = "+" if isinstance(st.op, ast.Add) else "-"
                out.append(pad + "let s := { s with %s := s.%s %s %d }" % (name, name, op, st.value.value))
            elif isinstance(st, ast.Assign) and len(st.targets) == 1 and isinstance(st.targets[0], ast.Subscript) \
                    and isinstance(st.targets[0].value, ast.Name):
                tg = st.targets[0]
                name = tg.value.id
                aty = self.vtype(st, name)
                if name in self.params:
                    bad(st, "write into the parameter %r" % name)
                self.need(st, name, defined)
                ty, e = self.expr(st.value, pre, defined)
                if aty in (FARR, IARR):
                    if {FARR: FLOAT, IARR: INT}[aty] != ty:
                        bad(st, "element type mismatch in %s" % srcline)
                    i = self.iexpr(tg.slice, pre, defined)
                    call = "s.%s.set %s %s" % (name, i, e)
                elif aty in (FARR2, IARR2):
                    if {FARR2: FLOAT, IARR2: INT}[aty] != ty:
                        bad(st, "element type mismatch in %s" % srcline)
                    sl = tg.slice
                    if not (isinstance(sl, ast.Tuple) and len(sl.elts) == 2 and isinstance(sl.elts[1], ast.Constant)
                            and type(sl.elts[1].value) is int and sl.elts[1].value >= 0):
                        bad(st, "two-index write outside the grammar")
                    i = self.iexpr(sl.elts[0], pre, defined)
                    call = "s.%s.set %s %d %s" % (name, i, sl.elts[1].value, e)
                else:
                    bad(st, "subscript write to a scalar")
                t = self.fresh()
                out += [pad + p for p in pre]
                out.append(pad + "let %s ← %s" % (t, call))
                out.append(pad + "let s := { s with %s := %s }" % (name, t))
            elif isinstance(st, ast.For):
                if st.orelse or not isinstance(st.target, ast.Name):
                    bad(st, "for loop outside the grammar")
                it = st.iter
                if not (isinstance(it, ast.Call) and isinstance(it.func, ast.Name) and it.func.id == "range"
                        and len(it.args) == 1 and not it.keywords):
                    bad(st, "for loop not over range(<int>)")
                if in_while:
                    bad(st, "for loop inside a while loop")
                var = st.target.id
                self.declare(st, var, INT)
                n = self.iexpr(it.args[0], pre, defined)
                self.nfor += 1
                fname = "%s_for%d_body" % (self.name, self.nfor)
                d2 = set(defined) | {var}
                body = self.block(st.body, 2, d2, False, ["pure s"])
                self.defs.append(
                    "/-- body of `%s` -/\n" % srcline
                    + "def %s (fuel : Nat) (peaks : Arr α) (L : Int) (%s : Int) (s : %s α) :\n    Option (%s α) := do\n"
                    % (fname, var + "_", self.st, self.st)
                    + "  let s := { s with %s := %s_ }\n" % (var, var)
                    + "\n".join(body) + "\n")
                out += [pad + p for p in pre]
                out.append(pad + "let s ← forRange %s (%s fuel peaks L) s" % (n, fname))
                # after the loop the variable may be unassigned: `defined` is left as it was
            elif isinstance(st, ast.While):
                if st.orelse:
                    bad(st, "while/else")
                if in_while:
                    bad(st, "nested while")
                self.nwhile += 1
                cname = "%s_while%d_cond" % (self.name, self.nwhile)
                bname = "%s_while%d_body" % (self.name, self.nwhile)
                cpre = []
                c = self.cmp(st.test, cpre, defined)
                if cpre:
                    bad(st, "while condition reads an array or a float variable")
                d2 = set(defined)
                body = self.block(st.body, 2, d2, True, ["pure (Ctl.next s)"], direct=True)
                self.defs.append(
                    "/-- condition of `%s` -/\n" % srcline
                    + "def %s (peaks : Arr α) (L : Int) (s : %s α) : Bool := decide (%s)\n\n" % (cname, self.st, c)
                    + "/-- body of `%s` -/\n" % srcline
                    + "def %s (peaks : Arr α) (L : Int) (s : %s α) :\n    Option (Ctl (%s α)) := do\n"
                    % (bname, self.st, self.st)
                    + "\n".join(body) + "\n")
                out.append(pad + "let s ← whileLoop (%s peaks L) (%s peaks L) fuel s" % (cname, bname))
            elif isinstance(st, ast.If):
                c = self.cmp(st.test, pre, defined)
                out += [pad + p for p in pre]
                if len(st.body) == 1 and isinstance(st.body[0], ast.Break):
                    if not direct or st.orelse:
                        bad(st, "`break` outside the grammar (must be `if c: break` directly in a while body)")
                    out.append(pad + "if %s then pure (Ctl.brk s) else do" % c)
                    continue
                d_then, d_else = set(defined), set(defined)
                a = self.block(st.body, ind + 4, d_then, in_while, ["pure s"])
                b = self.block(st.orelse, ind + 4, d_else, in_while, ["pure s"])
                out.append(pad + "let s ← (if %s then do" % c)
                out += a
                out.append(pad + "  else do")
                out += b
                out[-1] = out[-1] + ")"
                defined |= (d_then & d_else)
            elif isinstance(st, ast.Expr) and isinstance(st.value, ast.Constant) and isinstance(st.value.value, str):
                out.pop()      # a docstring
            else:
                bad(st, "statement outside the grammar: %s" % srcline)
        out += [" " * ind + t for t in tail]
        return out

    def translate(self):
        fn = self.fn
        a = fn.args
        if [x.arg for x in a.args] != ["peaks", "L"] or a.vararg or a.kwarg or a.kwonlyargs or a.defaults \
                or fn.decorator_list:
            bad(fn, "signature of %s is no longer (peaks, L)" % fn.name)
        body = list(fn.body)
        if not body or not isinstance(body[-1], ast.Return):
            bad(fn, "%s does not end with a return" % fn.name)
        ret = body.pop().value
        for n in ast.walk(fn):
            if isinstance(n, ast.Return) and n.value is not ret:
                bad(n, "return inside the body")
        defined = set()
        lines = self.block(body, 2, defined, False, [], top=True)
        # return rf[: L - fullcyclesp1][, os[: L - fullcyclesp1]]
        parts = ret.elts if isinstance(ret, ast.Tuple) else [ret]
        names = []
        pre = []
        for p in parts:
            if not (isinstance(p, ast.Subscript) and isinstance(p.value, ast.Name) and isinstance(p.slice, ast.Slice)
                    and p.slice.lower is None and p.slice.step is None and p.slice.upper is not None):
                bad(fn.body[-1], "return value outside the grammar")
            ty = self.vtype(p, p.value.id)
            self.need(p, p.value.id, defined)
            stop = self.iexpr(p.slice.upper, pre, defined)
            t = self.fresh()
            pre.append("let %s ← s.%s.take %s" % (t, p.value.id, stop))
            names.append((t, ty))
        tys = [t for _, t in names]
        if tys == [FARR2]:
            rty, rv = "Arr2 α", names[0][0]
        elif tys == [FARR2, IARR2]:
            rty, rv = "Arr2 α × Arr2 Int", "(%s, %s)" % (names[0][0], names[1][0])
        else:
            bad(fn.body[-1], "return type outside the grammar")
        self.nresults = len(tys)
        lines.append("  -- " + ast.unparse(fn.body[-1]))
        lines += ["  " + p for p in pre]
        lines.append("  pure " + rv)
        fields = "\n".join("  %s : %s" % (n, LEAN_TY[t]) for n, t in self.types.items())
        init = ", ".join("%s := %s" % (n, LEAN_INIT[t]) for n, t in self.types.items())
        txt = "/-- the locals of `%s` -/\nstructure %s (α : Type) where\n%s\n\n" % (fn.name, self.st, fields)
        txt += "/-- before the first statement: nothing is assigned (empty arrays, unset floats) -/\n"
        txt += "def %s.init {α : Type} : %s α := { %s }\n\n" % (self.st, self.st, init)
        txt += "\n".join(self.defs) + "\n"
        txt += "/-- `%s(peaks, L)` -/\n" % fn.name
        txt += "def %s (fuel : Nat) (peaks : Arr α) (L : Int) : Option (%s) := do\n" % (self.name, rty)
        txt += "  let s : %s α := %s.init\n" % (self.st, self.st)
        txt += "\n".join(lines) + "\n"
        return txt


def _entry(fn, src, funcs):
    """the public `rainflow(peaks, getoffsets=False)`"""
    a = fn.args
    if [x.arg for x in a.args] != ["peaks", "getoffsets"] or a.vararg or a.kwarg or a.kwonlyargs \
            or len(a.defaults) != 1 or not (isinstance(a.defaults[0], ast.Constant) and a.defaults[0].value is False) \
            or fn.decorator_list:
        bad(fn, "signature of rainflow is no longer (peaks, getoffsets=False)")
    body = list(fn.body)
    if body and isinstance(body[0], ast.Expr) and isinstance(body[0].value, ast.Constant):
        body = body[1:]
    if len(body) != 5:
        bad(fn, "rainflow(): expected 5 statements after the docstring, found %d" % len(body))
    s1, s2, s3, s4, s5 = body
    want1 = "peaks = np.atleast_1d(peaks)"
    if ast.unparse(s1) != want1:
        bad(s1, "expected `%s`, found `%s`" % (want1, ast.unparse(s1)))
    # L = peaks.<size> if peaks.ndim == <1> else <0>
    ok = (isinstance(s2, ast.Assign) and ast.unparse(s2.targets[0]) == "L" and isinstance(s2.value, ast.IfExp))
    if ok:
        v = s2.value
        ok = (ast.unparse(v.body) == "peaks.size" and isinstance(v.test, ast.Compare) and len(v.test.ops) == 1
              and isinstance(v.test.ops[0], ast.Eq) and ast.unparse(v.test.left) == "peaks.ndim"
              and isinstance(v.test.comparators[0], ast.Constant) and type(v.test.comparators[0].value) is int
              and isinstance(v.orelse, ast.Constant) and type(v.orelse.value) is int)
    if not ok:
        bad(s2, "expected `L = peaks.size if peaks.ndim == <int> else <int>`, found `%s`" % ast.unparse(s2))
    ndim = s2.value.test.comparators[0].value
    other = s2.value.orelse.value
    ok = (isinstance(s3, ast.If) and not s3.orelse and len(s3.body) == 1 and isinstance(s3.body[0], ast.Raise)
          and isinstance(s3.test, ast.Compare) and len(s3.test.ops) == 1 and type(s3.test.ops[0]) in CMP
          and ast.unparse(s3.test.left) == "L" and isinstance(s3.test.comparators[0], ast.Constant)
          and type(s3.test.comparators[0].value) is int)
    if ok:
        r = s3.body[0]
        ok = (r.cause is None and isinstance(r.exc, ast.Call) and isinstance(r.exc.func, ast.Name)
              and r.exc.func.id == "ValueError")
    if not ok:
        bad(s3, "expected `if L <cmp> <int>: raise ValueError(…)`, found `%s`" % ast.unparse(s3).split("\n")[0])
    cmpop = CMP[type(s3.test.ops[0])]
    lim = s3.test.comparators[0].value

    def callee(node, what):
        if not (isinstance(node, ast.Return) and isinstance(node.value, ast.Call) and isinstance(node.value.func, ast.Name)
                and node.value.func.id in funcs and [ast.unparse(x) for x in node.value.args] == ["peaks", "L"]
                and not node.value.keywords):
            bad(node, "expected `return _rainflowN(peaks, L)` %s, found `%s`" % (what, ast.unparse(node)))
        return funcs[node.value.func.id]

    if not (isinstance(s4, ast.If) and not s4.orelse and len(s4.body) == 1 and ast.unparse(s4.test) == "getoffsets"):
        bad(s4, "expected `if getoffsets: return …`, found `%s`" % ast.unparse(s4).split("\n")[0])
    f_on = callee(s4.body[0], "under `if getoffsets`")
    f_off = callee(s5, "as the last statement")

    def wrap(f):
        return ("PyResult.pair r.1 r.2" if f.nresults == 2 else "PyResult.plain r")

    txt = "/-- `rainflow(peaks, getoffsets=False)`: the public entry point -/\n"
    txt += "def rainflow (fuel : Nat) (peaks : Nd α) (getoffsets : Bool) : Except PyErr (PyResult α) :=\n"
    txt += "  -- %s\n" % ast.unparse(s1)
    txt += "  let peaks := Nd.atleast_1d peaks\n"
    txt += "  -- %s\n" % ast.unparse(s2)
    txt += "  let L : Int := if peaks.ndim = %d then peaks.size else %d\n" % (ndim, other)
    txt += "  -- %s\n" % ast.unparse(s3).split("\n")[0]
    txt += "  if L %s %d then Except.error PyErr.valueError else\n" % (cmpop, lim)
    txt += "  -- %s\n" % ast.unparse(s4).replace("\n", " ")
    txt += "  if getoffsets then\n"
    txt += "    match %s fuel (Arr.ofList peaks.data) L with\n" % f_on.name
    txt += "    | some r => Except.ok (%s)\n    | none => Except.error PyErr.internal\n" % wrap(f_on)
    txt += "  else\n  -- %s\n" % ast.unparse(s5)
    txt += "    match %s fuel (Arr.ofList peaks.data) L with\n" % f_off.name
    txt += "    | some r => Except.ok (%s)\n    | none => Except.error PyErr.internal\n" % wrap(f_off)
    return txt


_NUMBA_TAIL = (
    "try:\n    import numba\nexcept ImportError:\n    pass\nelse:\n"
    "    _rainflow1 = numba.jit(nopython=True, cache=True)(_rainflow1)\n"
    "    _rainflow2 = numba.jit(nopython=True, cache=True)(_rainflow2)"
)


def render(repo):
    path = os.path.join(repo, SRC)
    try:
        src = open(path, encoding="utf-8").read()
        tree = ast.parse(src)
    except (OSError, SyntaxError) as e:
        raise TieBroken("cannot read/parse %s: %s" % (SRC, e))
    fns = {}
    rest = []
    for node in tree.body:
        if isinstance(node, ast.FunctionDef):
            if node.name in fns:
                bad(node, "%s is defined twice" % node.name)
            fns[node.name] = node
        elif isinstance(node, ast.Expr) and isinstance(node.value, ast.Constant) and isinstance(node.value.value, str):
            pass
        elif isinstance(node, ast.Import) and ast.unparse(node) == "import numpy as np":
            pass
        else:
            rest.append(node)
    if sorted(fns) != ["_rainflow1", "_rainflow2", "rainflow"]:
        raise TieBroken("py_rain.py defines %s, expected rainflow, _rainflow1, _rainflow2" % sorted(fns))
    if len(rest) != 1 or ast.unparse(rest[0]) != _NUMBA_TAIL:
        raise TieBroken("module-level code of py_rain.py is no longer `import numpy as np` + the three functions + "
                        "the numba decoration block: %s" % "; ".join(ast.unparse(r).split("\n")[0] for r in rest)[:300])
    # names the functions may use: their own locals/params, np.empty/np.int64, abs, range
    funcs = {}
    for name in ("_rainflow1", "_rainflow2"):
        f = Func(fns[name], src)
        f.text = f.translate()
        funcs[name] = f
    entry = _entry(fns["rainflow"], src, funcs)
    hdr = (
        "/- GENERATED by harness/translate/c05_pyrain.py from pyyeti/rainflow/py_rain.py — do not edit.\n"
        "   Shallow embedding of `rainflow`, `_rainflow1`, `_rainflow2` (grammar and semantics: see the\n"
        "   translator's docstring and Model/RainflowImp.lean).  Lemmas/RainflowGen*.lean prove that these\n"
        "   programs never fail and compute the table of Model/Rainflow.lean. -/\n"
        "import PyYetiVerif.Model.RainflowImp\n"
        "set_option linter.unusedVariables false\n"
        "namespace PyYetiVerif.Generated.PyRain\n"
        "open PyYetiVerif.RainflowImp\n\n"
        "variable {α : Type} [Ops α]\n\n"
    )
    return hdr + funcs["_rainflow1"].text + "\n" + funcs["_rainflow2"].text + "\n" + entry + \
        "\nend PyYetiVerif.Generated.PyRain\n"


def generate(repo, lean_dir):
    txt = render(repo)
    path = os.path.join(lean_dir, OUT)
    old = open(path, encoding="utf-8").read() if os.path.exists(path) else None
    if old != txt:
        with open(path, "w", encoding="utf-8") as f:
            f.write(txt)
    return txt


# ---------------------------------------------------------------------------------------------
# pyyeti/cyclecount.py: the import block that binds `rain` and the wrapper `rainflow`

WSRC = os.path.join("pyyeti", "cyclecount.py")
WOUT = os.path.join("PyYetiVerif", "Generated", "RainflowWrap.lean")
_MODS = {"pyyeti.rainflow.c_rain": "Impl.c_rain", "pyyeti.rainflow.py_rain": "Impl.py_rain"}


def _wbad(node, why):
    raise TieBroken("cyclecount.py line %s: %s" % (getattr(node, "lineno", "?"), why))


def _import_rain(node):
    if isinstance(node, ast.Import) and len(node.names) == 1 and node.names[0].asname == "rain" \
            and node.names[0].name in _MODS:
        return _MODS[node.names[0].name]
    return None


def _frame_assign(st, env):
    """X = pd.DataFrame(X, columns=[...]) -> (X, [cols])"""
    if not (isinstance(st, ast.Assign) and len(st.targets) == 1 and isinstance(st.targets[0], ast.Name)
            and isinstance(st.value, ast.Call) and ast.unparse(st.value.func) == "pd.DataFrame"
            and len(st.value.args) == 1 and isinstance(st.value.args[0], ast.Name)
            and len(st.value.keywords) == 1 and st.value.keywords[0].arg == "columns"
            and isinstance(st.value.keywords[0].value, ast.List)
            and all(isinstance(e, ast.Constant) and isinstance(e.value, str) for e in st.value.keywords[0].value.elts)):
        _wbad(st, "expected `<v> = pd.DataFrame(<v>, columns=[<str>, …])`, found `%s`" % ast.unparse(st))
    src = st.value.args[0].id
    if src not in env:
        _wbad(st, "DataFrame of the unknown name %r" % src)
    cols = "[" + ", ".join('"%s"' % e.value.replace('"', '\\"') for e in st.value.keywords[0].value.elts) + "]"
    return st.targets[0].id, src, cols


def _rain_call(node):
    if not (isinstance(node, ast.Call) and ast.unparse(node.func) == "rain.rainflow" and not node.keywords
            and [ast.unparse(a) for a in node.args] == ["peaks", "getoffsets"]):
        _wbad(node, "expected `rain.rainflow(peaks, getoffsets)`, found `%s`" % ast.unparse(node))


def _wrapper_branch(stmts, targets, ind):
    """[<targets> = rain.rainflow(peaks, getoffsets); if use_pandas: <frames>; return <targets>]"""
    pad = " " * ind
    if len(stmts) != 3:
        _wbad(stmts[0] if stmts else None, "expected call / `if use_pandas:` / return")
    call, cond, ret = stmts
    tg = call.targets[0] if isinstance(call, ast.Assign) and len(call.targets) == 1 else None
    names = [e.id for e in tg.elts] if isinstance(tg, ast.Tuple) and all(isinstance(e, ast.Name) for e in tg.elts) \
        else [tg.id] if isinstance(tg, ast.Name) else None
    if names is None or len(names) != targets or len(set(names)) != len(names):
        _wbad(call, "expected %d assignment target(s): `%s`" % (targets, ast.unparse(call)))
    _rain_call(call.value)
    if not (isinstance(cond, ast.If) and ast.unparse(cond.test) == "use_pandas" and not cond.orelse):
        _wbad(cond, "expected `if use_pandas:`")
    if not isinstance(ret, ast.Return) or ret.value is None:
        _wbad(ret, "expected a return")
    rnames = [e.id for e in ret.value.elts] if isinstance(ret.value, ast.Tuple) and \
        all(isinstance(e, ast.Name) for e in ret.value.elts) else \
        [ret.value.id] if isinstance(ret.value, ast.Name) else None
    if rnames is None or len(rnames) != targets:
        _wbad(ret, "return value outside the grammar: `%s`" % ast.unparse(ret))
    env = set(names)
    out = []
    out.append(pad + "-- " + ast.unparse(call))
    out.append(pad + "match rain peaks getoffsets with")
    out.append(pad + "| .error e => .error e")
    if targets == 2:
        out.append(pad + "| .ok (.plain _) => .error .internal")
        out.append(pad + "| .ok (.pair %s %s) =>" % tuple(names))
    else:
        out.append(pad + "| .ok (.pair _ _) => .error .internal")
        out.append(pad + "| .ok (.plain %s) =>" % names[0])
    out.append(pad + "  -- if use_pandas:")
    out.append(pad + "  if use_pandas then")
    framed = set()
    for st in cond.body:
        dst, src, cols = _frame_assign(st, env)
        if dst != src or dst in framed:
            _wbad(st, "a DataFrame must replace the array of the same name, once")
        framed.add(dst)
        out.append(pad + "    -- " + ast.unparse(st))
        out.append(pad + "    let %s : Frame _ := ⟨%s, %s⟩" % (dst, cols, src))
    if framed != env:
        _wbad(cond, "`if use_pandas:` does not convert exactly %s" % sorted(env))
    out.append(pad + "    -- " + ast.unparse(ret))
    out.append(pad + "    .ok (%s %s)" % (".frames" if targets == 2 else ".frame", " ".join(rnames)))
    out.append(pad + "  else")
    out.append(pad + "    .ok (%s %s)" % (".arrays" if targets == 2 else ".array", " ".join(rnames)))
    return out


def render_wrapper(repo):
    path = os.path.join(repo, WSRC)
    try:
        src = open(path, encoding="utf-8").read()
        tree = ast.parse(src)
    except (OSError, SyntaxError) as e:
        raise TieBroken("cannot read/parse %s: %s" % (WSRC, e))
    order = None
    fn = None
    for node in tree.body:
        if isinstance(node, ast.Try):
            first = [m for m in map(_import_rain, node.body) if m]
            if first:
                if order is not None or len(node.body) != 1 or len(node.handlers) != 1 or node.orelse or node.finalbody:
                    _wbad(node, "the `import … as rain` try block is no longer a single import with one handler")
                h = node.handlers[0]
                if not (isinstance(h.type, ast.Name) and h.type.id == "ImportError"):
                    _wbad(h, "the fallback is no longer `except ImportError`")
                fb = [m for m in map(_import_rain, h.body) if m]
                if len(fb) != 1 or _import_rain(h.body[-1]) is None:
                    _wbad(h, "the handler does not end with one `import … as rain`")
                for st in h.body[:-1]:
                    if not (isinstance(st, ast.If) and ast.unparse(st.test) == "not HAVE_NUMBA" and not st.orelse
                            and len(st.body) == 1 and isinstance(st.body[0], ast.Expr)
                            and ast.unparse(st.body[0].value.func) == "warnings.warn"):
                        _wbad(st, "statement other than the numba warning before the fallback import")
                order = (first[0], fb[0])
                continue
        for sub in ast.walk(node):
            if isinstance(sub, (ast.Import, ast.ImportFrom)):
                for al in sub.names:
                    if (al.asname or al.name) == "rain":
                        _wbad(sub, "`rain` is bound a second time")
            if isinstance(sub, ast.Name) and sub.id == "rain" and isinstance(sub.ctx, (ast.Store, ast.Del)):
                _wbad(sub, "`rain` is rebound")
            if isinstance(sub, ast.Attribute) and isinstance(sub.ctx, (ast.Store, ast.Del)) \
                    and ast.unparse(sub.value) == "rain":
                _wbad(sub, "an attribute of `rain` is rebound")
        if isinstance(node, ast.FunctionDef) and node.name == "rainflow":
            if fn is not None:
                _wbad(node, "rainflow is defined twice")
            fn = node
    if order is None or fn is None:
        raise TieBroken("cyclecount.py: import block for `rain` or def rainflow not found")
    a = fn.args
    if [x.arg for x in a.args] != ["peaks", "getoffsets", "use_pandas"] or a.vararg or a.kwarg or a.kwonlyargs \
            or [ast.unparse(d) for d in a.defaults] != ["False", "True"] or fn.decorator_list:
        _wbad(fn, "signature of rainflow is no longer (peaks, getoffsets=False, use_pandas=True)")
    body = list(fn.body)
    if body and isinstance(body[0], ast.Expr) and isinstance(body[0].value, ast.Constant):
        body = body[1:]
    if not (len(body) == 4 and isinstance(body[0], ast.If) and ast.unparse(body[0].test) == "getoffsets"
            and not body[0].orelse):
        _wbad(fn, "rainflow(): expected `if getoffsets: …` followed by call / `if use_pandas:` / return")
    on = _wrapper_branch(body[0].body, 2, 4)
    off = _wrapper_branch(body[1:], 1, 4)
    txt = (
        "/- GENERATED by harness/translate/c05_pyrain.py from pyyeti/cyclecount.py — do not edit.\n"
        "   The `import … as rain` block and the wrapper `rainflow(peaks, getoffsets=False, use_pandas=True)`. -/\n"
        "import PyYetiVerif.Model.RainflowImp\n"
        "set_option linter.unusedVariables false\n"
        "namespace PyYetiVerif.Generated.RainflowWrap\n"
        "open PyYetiVerif.RainflowImp\n\n"
        "/-- `try: import %s as rain / except ImportError: import %s as rain` -/\n"
        "def importOrder : Impl × Impl := (%s, %s)\n\n"
        "/-- the module that `rain` names, given which imports succeed -/\n"
        "def imported (available : Impl → Bool) : Impl :=\n"
        "  if available importOrder.1 then importOrder.1 else importOrder.2\n\n"
        "/-- `rainflow(peaks, getoffsets=False, use_pandas=True)`; `rain` = `rain.rainflow` -/\n"
        "def rainflow {α : Type} (rain : Nd α → Bool → Except PyErr (PyResult α)) (peaks : Nd α)\n"
        "    (getoffsets use_pandas : Bool) : Except PyErr (WrapResult α) :=\n"
        "  -- if getoffsets:\n"
        "  if getoffsets then\n%s\n"
        "  else\n%s\n\n"
        "end PyYetiVerif.Generated.RainflowWrap\n"
    ) % (order[0].split(".")[1], order[1].split(".")[1], order[0], order[1], "\n".join(on), "\n".join(off))
    return txt


def generate_wrapper(repo, lean_dir):
    txt = render_wrapper(repo)
    path = os.path.join(lean_dir, WOUT)
    old = open(path, encoding="utf-8").read() if os.path.exists(path) else None
    if old != txt:
        with open(path, "w", encoding="utf-8") as f:
            f.write(txt)
    return txt
