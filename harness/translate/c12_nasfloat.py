"""Translator for C12: pyyeti/nastran/bulk.py  ->  lean/PyYetiVerif/Generated/NasFloatTables.lean

Reads (never executes) the source of format_float8 / format_float16 / _format_scientific8/16 /
format_double16 with `ast`, walks the `if value >= 0.0:` / `else:` decade chains and writes them
as Lean tables: one `Row` (|bound| as an exact decimal fraction, strict?, precision, kind) per
`if/elif` branch, the precision of the final `else`, and the constants of the scientific
helpers.  Every branch body must match one of the known shapes (compared on the `ast.dump` with
numbers and format specs masked); anything else raises `Unparsable` (the runner turns it into a
broken tie).  Masked numbers that are not emitted must equal the field width.
"""
import ast
import os
from fractions import Fraction

SRC = os.path.join("pyyeti", "nastran", "bulk.py")
OUT = os.path.join("PyYetiVerif", "Generated", "NasFloatTables.lean")


class Unparsable(Exception):
    pass


# --------------------------------------------------------------------------- masking


class _Mask(ast.NodeTransformer):
    """numbers -> 0, format-spec strings inside f-strings -> '#'; both are collected in order."""

    def __init__(self):
        self.nums = []
        self.specs = []

    def visit_Constant(self, node):
        if isinstance(node.value, (int, float)) and not isinstance(node.value, bool):
            self.nums.append(node.value)
            return ast.copy_location(ast.Constant(value=0), node)
        return node

    def visit_FormattedValue(self, node):
        node.value = self.visit(node.value)
        if node.format_spec is not None:
            fs = node.format_spec
            if len(fs.values) == 1 and isinstance(fs.values[0], ast.Constant):
                self.specs.append(fs.values[0].value)
                node.format_spec = ast.JoinedStr(values=[ast.Constant(value="#")])
            else:
                node.format_spec = self.visit(fs)
        return node


def masked(nodes):
    """(dump, numbers, specs) of a statement list."""
    import copy

    m = _Mask()
    out = []
    for n in nodes:
        out.append(ast.dump(m.visit(copy.deepcopy(n))))
    return "\n".join(out), m.nums, m.specs


def _tmpl(src):
    return masked(ast.parse(src).body)[0]


def _spec_f(spec, W):
    """'8.5f' -> 5 (width must be W)."""
    if not (spec.endswith("f") and "." in spec):
        raise Unparsable("format spec %r is not W.pf" % spec)
    w, p = spec[:-1].split(".")
    if int(w) != W:
        raise Unparsable("format spec %r does not have width %d" % (spec, W))
    return int(p)


# --------------------------------------------------------------------------- templates

T_SCI = "field = _format_scientific{W}(value)\nreturn field"
T_FIX = 'field = f"{{value:8.7f}}"'
T_FIXREP = 'field = f"{{value:8.7f}}"\nfield = field.replace("-0.", "-.")'
T_SMALL_POS = '''field = _format_scientific{W}(value)
field2 = f"{{value:8.7f}}".strip("0 ")
field1 = field.replace("-", "e-")
if field2 == ".":
    return _format_scientific{W}(value)
if len(field2) <= 8 and float(field1) == float(field2):
    field = field2.strip(" 0")
'''
T_SMALL_NEG = '''field = _format_scientific{W}(value)
field2 = f"{{value:8.6f}}".strip("0 ")
field1 = "-" + field.strip(" 0-").replace("-", "e-")
if len(field2) <= 8 and float(field1) == float(field2):
    field = field2.rstrip(" 0").replace("-0.", "-.")
'''
T_RET16 = 'return f"{{field:>16s}}"\n'
T_LAST_POS = '''field = f"{{value:8.1f}}"
if field.index(".") < 8:
    field = f"{{round(value):8.1f}}"[0:8]
else:
    field = _format_scientific{W}(value)
return field
'''
T_LAST_NEG8 = '''field = f"{{value:8.1f}}"
try:
    ifield = field.index(".")
except ValueError:
    raise ValueError(
        "error printing float; can't find decimal; field=%r value=%s"
        % (field, value)
    )
if ifield < 8:
    field = f"{{int(round(value, 0)):7d}}."
else:
    field = _format_scientific{W}(value)
return field
'''
T_LAST_NEG16 = '''field = f"{{value:8.1f}}"
try:
    ifield = field.index(".")
except ValueError:
    print(
        "error printing float; can't find decimal; field=%r value=%s"
        % (field, value)
    )
    raise
if ifield < 8:
    field = f"{{int(round(value, 0)):7d}}."
else:
    field = _format_scientific{W}(value)
return field
'''
T_TAIL = 'field = f"{{field.strip(\' 0\'):>8s}}"\nreturn field'


def _const(node):
    """numeric literal, possibly negated -> (Fraction |v|, is_negative, source text)."""
    neg = False
    if isinstance(node, ast.UnaryOp) and isinstance(node.op, ast.USub):
        neg = True
        node = node.operand
    if not (isinstance(node, ast.Constant) and isinstance(node.value, (int, float))
            and not isinstance(node.value, bool)):
        raise Unparsable("branch bound is not a numeric literal: %s" % ast.dump(node))
    return node, neg


def _literal_fraction(src, node):
    seg = ast.get_source_segment(src, node)
    try:
        return Fraction(seg.replace("_", ""))
    except Exception:
        raise Unparsable("cannot read literal %r exactly" % seg)


def _walk_chain(src, first_if, W, negative):
    """first_if: ast.If heading the chain. -> (rows, last_prec, last_int)"""
    rows = []
    node = first_if
    k_sci = _tmpl(T_SCI.format(W=W))
    k_fix = _tmpl(T_FIX.format(W=W))
    k_fixrep = _tmpl(T_FIXREP.format(W=W))
    k_small = _tmpl((T_SMALL_NEG if negative else T_SMALL_POS).format(W=W))
    k_small16 = _tmpl((T_SMALL_NEG if negative else T_SMALL_POS).format(W=W) + T_RET16.format(W=W))
    while True:
        t = node.test
        lo = Fraction(0)
        if (not negative and isinstance(t, ast.Compare) and len(t.ops) == 2
                and isinstance(t.ops[0], ast.LtE) and isinstance(t.ops[1], ast.Lt)
                and isinstance(t.comparators[0], ast.Name) and t.comparators[0].id == "value"):
            # range guard `lo <= value < hi`
            lolit, loneg = _const(t.left)
            lit, neg = _const(t.comparators[1])
            if loneg or neg:
                raise Unparsable("positive chain: negative literal in a range guard")
            lo = _literal_fraction(src, lolit)
            frac = _literal_fraction(src, lit)
            op = "Lt"
            is_range = True
        else:
            is_range = False
            if not (isinstance(t, ast.Compare) and len(t.ops) == 1 and isinstance(t.left, ast.Name)
                    and t.left.id == "value"):
                raise Unparsable("branch test is not `value <op> literal`: %s" % ast.dump(t))
            op = type(t.ops[0]).__name__
            lit, neg = _const(t.comparators[0])
            frac = _literal_fraction(src, lit)
            if negative:
                if op not in ("Gt", "LtE") or (not neg and frac != 0):
                    raise Unparsable("negative chain: unexpected test %s" % ast.dump(t))
            else:
                if op != "Lt" or neg:
                    raise Unparsable("positive chain: unexpected test %s" % ast.dump(t))
        strict = op in ("Lt", "Gt")
        dump, nums, specs = masked(node.body)
        if dump == k_sci:
            kind, prec = 0, 0
            _expect(nums, [], "scientific branch")
        elif dump == k_small and W == 8 or dump == k_small16 and W == 16:
            kind, prec = 1, _spec_f(specs[0], W)
            _expect(nums, [W], "small-magnitude branch")
            if W == 16 and specs[1:] != [">16s"]:
                raise Unparsable("small-magnitude branch: return spec %r" % specs[1:])
        elif dump == k_fix:
            kind, prec = 2, _spec_f(specs[0], W)
        elif dump == k_fixrep:
            kind, prec = 3, _spec_f(specs[0], W)
        else:
            raise Unparsable("unrecognised branch body at line %d" % node.lineno)
        if (not strict or is_range) and kind != 0:
            raise Unparsable("guard with a non-scientific body at line %d" % node.lineno)
        rows.append((frac, strict, prec, kind, lo))
        if len(node.orelse) == 1 and isinstance(node.orelse[0], ast.If):
            node = node.orelse[0]
            continue
        last = node.orelse
        break
    if negative:
        want = _tmpl((T_LAST_NEG8 if W == 8 else T_LAST_NEG16).format(W=W))
    else:
        want = _tmpl(T_LAST_POS.format(W=W))
    dump, nums, specs = masked(last)
    if dump != want:
        raise Unparsable("unrecognised final else-branch of the %s chain (W=%d)"
                         % ("negative" if negative else "positive", W))
    last_prec = _spec_f(specs[0], W)
    if negative:
        _expect(nums, [W, 0], "final negative branch")
        if not (specs[1].endswith("d") and specs[1][:-1].isdigit()):
            raise Unparsable("final negative branch: int spec %r" % specs[1])
        last_int = int(specs[1][:-1])
    else:
        _expect(nums, [W, 0, W], "final positive branch")
        last_int = _spec_f(specs[1], W)
    return rows, last_prec, last_int


def _expect(nums, want, where):
    if list(nums) != list(want):
        raise Unparsable("%s: constants %r, expected %r" % (where, nums, want))


def _format_float(src, fn, W):
    body = [n for n in fn.body if not (isinstance(n, ast.Expr) and isinstance(n.value, ast.Constant))]
    if len(body) != 3 or not isinstance(body[0], ast.If):
        raise Unparsable("format_float%d: unexpected top-level shape" % W)
    top = body[0]
    dump, nums, _ = masked([top.test])
    if dump != masked([ast.parse("value >= 0.0").body[0].value])[0] or nums != [0.0]:
        raise Unparsable("format_float%d: top test is not `value >= 0.0`" % W)
    dump, nums, specs = masked(body[1:])
    if dump != _tmpl(T_TAIL.format(W=W)) or specs != [">%ds" % W]:
        raise Unparsable("format_float%d: unexpected final strip/justify" % W)
    if len(top.body) != 1 or not isinstance(top.body[0], ast.If):
        raise Unparsable("format_float%d: positive side is not one if-chain" % W)
    if len(top.orelse) != 1 or not isinstance(top.orelse[0], ast.If):
        raise Unparsable("format_float%d: negative side is not one if-chain" % W)
    pos = _walk_chain(src, top.body[0], W, False)
    neg = _walk_chain(src, top.orelse[0], W, True)
    return pos, neg


def _sci(fn, W, dbl):
    body = [n for n in fn.body if not (isinstance(n, ast.Expr) and isinstance(n.value, ast.Constant))]
    dump, nums, specs = masked(body)
    # shapes differ slightly between the three helpers; normalise through the numbers only
    # expected numeric constants, in source order:
    #   8 : 0.0, 1.0, 5, 0(value < 0), 1
    #   16: 0.0, 1.0, 1, 16, 0.0, 3, 2          (len_exp = len(exp2) + 1)
    #   d : 0.0, 1.0, 2, 16, 0.0, 3, 2
    especs = [s for s in specs if s.endswith("e")]
    if len(especs) != 1:
        raise Unparsable("scientific helper (W=%d): no single e-format" % W)
    ew, ep = especs[0][:-1].split(".")
    if int(ew) != W:
        raise Unparsable("scientific helper: e-format width %s" % ew)
    others = [s for s in specs if not s.endswith("e")]
    if W == 8:
        if len(nums) != 5 or nums[0] != 0.0 or nums[1] != 1.0 or nums[3] != 0:
            raise Unparsable("_format_scientific8: constants %r" % nums)
        base, extra, negoff, posoff = nums[2], 0, nums[4], 0
        if others != ["d", "d", ">8s"]:
            raise Unparsable("_format_scientific8: specs %r" % others)
    else:
        if len(nums) != 7 or nums[0] != 0.0 or nums[1] != 1.0 or nums[4] != 0.0:
            raise Unparsable("scientific helper (16): constants %r" % nums)
        extra, base, negoff, posoff = nums[2], nums[3], nums[5], nums[6]
        if others != ["d", "d", ">16s"]:
            raise Unparsable("scientific helper (16): specs %r" % others)
    return dict(ePrec=int(ep), base=int(base), extra=int(extra), posOff=int(posoff), negOff=int(negoff),
                dump=dump)


# --------------------------------------------------------------------------- output


def _row(r):
    frac, strict, prec, kind, lo = r
    return "⟨%d, %d, %s, %d, %d, %d, %d⟩" % (frac.numerator, frac.denominator,
                                              "true" if strict else "false", prec, kind,
                                              lo.numerator, lo.denominator)


def render(repo):
    path = os.path.join(repo, SRC)
    src = open(path, encoding="utf-8").read()
    try:
        tree = ast.parse(src)
    except SyntaxError as e:
        raise Unparsable("bulk.py does not parse: %s" % e)
    fns = {n.name: n for n in tree.body if isinstance(n, ast.FunctionDef)}
    for need in ("format_float8", "format_float16", "_format_scientific8", "_format_scientific16",
                 "format_double16"):
        if need not in fns:
            raise Unparsable("function %s not found" % need)
    tabs = {}
    for W in (8, 16):
        tabs[W] = _format_float(src, fns["format_float%d" % W], W)
    s8 = _sci(fns["_format_scientific8"], 8, False)
    s16 = _sci(fns["_format_scientific16"], 16, False)
    d16 = _sci(fns["format_double16"], 16, True)
    # the three helpers must have the statement shapes this translator was written for
    ref8 = masked(ast.parse(SCI8_REF).body)[0]
    if s8["dump"] != ref8:
        raise Unparsable("_format_scientific8: statement shape changed")
    ref16 = masked(ast.parse(SCI16_REF.format(D="", ret='return "{:>16s}".format("0.")')).body)[0]
    if s16["dump"] != ref16:
        raise Unparsable("_format_scientific16: statement shape changed")
    refd = masked(ast.parse(SCI16_REF.format(D="'D' + ", ret='return "           0.D+0"')).body)[0]
    if d16["dump"] != refd:
        raise Unparsable("format_double16: statement shape changed")

    L = []
    L.append("/- GENERATED by harness/translate/c12_nasfloat.py from pyyeti/nastran/bulk.py — do not edit.")
    L.append("   One `Row` per `if/elif value <op> <literal>:` branch of format_float8/16, in source order.")
    L.append("   |literal| = num/den exactly as written; strict = `<`/`>` (false for `<=`);")
    L.append("   prec = precision of the `W.pf` format in the branch; kind: 0 = return scientific,")
    L.append("   1 = small-magnitude mixed branch, 2 = fixed notation, 3 = fixed + replace(\"-0.\", \"-.\");")
    L.append("   lnum/lden = lower bound of a range guard `lo <= value < hi` (0/1 when absent). -/")
    L.append("namespace PyYetiVerif.Generated.NasFloat")
    L.append("")
    L.append("structure Row where")
    L.append("  num : Nat")
    L.append("  den : Nat")
    L.append("  strict : Bool")
    L.append("  prec : Nat")
    L.append("  kind : Nat")
    L.append("  lnum : Nat   -- range guard `lnum/lden <= value < num/den` (0/1 when the test has no lower bound)")
    L.append("  lden : Nat")
    L.append("deriving Repr, DecidableEq")
    L.append("")
    L.append("/-- constants of `_format_scientificW` / `format_double16`: `'%W.{ePrec}e'`,")
    L.append("`leftover = base - (len(exp2) + extra)`, mantissa precision `leftover - posOff/negOff`. -/")
    L.append("structure Sci where")
    L.append("  ePrec : Nat")
    L.append("  base : Nat")
    L.append("  extra : Nat")
    L.append("  posOff : Nat")
    L.append("  negOff : Nat")
    L.append("deriving Repr, DecidableEq")
    L.append("")
    for W in (8, 16):
        (prow, plast, plast2), (nrow, nlast, nint) = tabs[W]
        L.append("def pos%d : List Row := [\n  %s]" % (W, ",\n  ".join(_row(r) for r in prow)))
        L.append("/-- precision of the two `%d.pf` formats in the final `else` of the positive chain -/" % W)
        L.append("def posLast%d : Nat × Nat := (%d, %d)" % (W, plast, plast2))
        L.append("def neg%d : List Row := [\n  %s]" % (W, ",\n  ".join(_row(r) for r in nrow)))
        L.append("/-- final `else` of the negative chain: precision of `%d.pf`, width of the `d` format -/" % W)
        L.append("def negLast%d : Nat × Nat := (%d, %d)" % (W, nlast, nint))
        L.append("")
    for nm, s in (("sci8", s8), ("sci16", s16), ("dbl16", d16)):
        L.append("def %s : Sci := ⟨%d, %d, %d, %d, %d⟩" % (nm, s["ePrec"], s["base"], s["extra"],
                                                            s["posOff"], s["negOff"]))
    L.append("")
    L.append("end PyYetiVerif.Generated.NasFloat")
    return "\n".join(L) + "\n", tabs


SCI8_REF = '''if value == 0.0:
    return "{:>8s}".format("0.")
python_value = f"{value:8.11e}"
svalue, sexponent = python_value.strip().split("e")
exponent = int(sexponent)
sign = "-" if abs(value) < 1.0 else "+"
exp2 = str(exponent).strip("-+")
value2 = float(svalue)
leftover = 5 - len(exp2)
if value < 0:
    fmt = f"{{:1.{leftover - 1:d}f}}"
else:
    fmt = f"{{:1.{leftover:d}f}}"
svalue3 = fmt.format(value2)
svalue4 = svalue3.strip("0")
field = f"{svalue4 + sign + exp2:>8s}"
return field
'''

SCI16_REF = '''if value == 0.0:
    {ret}
python_value = f"{{value:16.14e}}"
svalue, sexponent = python_value.strip().split("e")
exponent = int(sexponent)
if abs(value) < 1.0:
    sign = "-"
else:
    sign = "+"
exp2 = str(exponent).strip("-+")
value2 = float(svalue)
len_exp = len(exp2) + 1
leftover = 16 - len_exp
if value < 0.0:
    fmt = f"{{{{:1.{{leftover - 3:d}}f}}}}"
else:
    fmt = f"{{{{:1.{{leftover - 2:d}}f}}}}"
svalue3 = fmt.format(value2)
svalue4 = svalue3.strip("0")
field = f"{{svalue4 + {D}sign + exp2:>16s}}"
return field
'''


def translate(repo, lean_dir):
    text, tabs = render(repo)
    out = os.path.join(lean_dir, OUT)
    os.makedirs(os.path.dirname(out), exist_ok=True)
    old = open(out, encoding="utf-8").read() if os.path.exists(out) else None
    if old != text:
        with open(out, "w", encoding="utf-8") as f:
            f.write(text)
    return tabs


if __name__ == "__main__":
    import sys

    sys.stdout.write(render(sys.argv[1] if len(sys.argv) > 1 else "/repo")[0])
