"""Translator for C19: the numeric constants, default arguments and comparison operators of pyyeti/dsp.py and
pyyeti/psd.py that the Lean models of resample / fixtime / despike / area / rescale / get_freq_oct depend on
  ->  lean/PyYetiVerif/Generated/C19Consts.lean

The source is read with Python `ast` (the repo code is NOT executed).  Every item is found by a structural pattern:
a Python expression in which names starting with `_C` stand for a numeric literal (bound and emitted), names
starting with `_E` for any expression, and every comparison operator is recorded (so `>` turning into `>=` changes the
generated file).  Each pattern must occur in the named function exactly the stated number of times; keyword-only /
positional defaults are read from the signatures.  Anything else raises `Unparsable`, which the property module turns
into runner.TieBroken.  `Props/C19Consts.lean` holds the obligations: each generated value equals the literal the
models use (`Model/{Psd,PsdOct,Resample,FixtimeSr,FixtimeFull,FixtimeTnew,FixtimeDrops,FixtimeDespike}.lean`).
"""
import ast
import os
from fractions import Fraction

OUT = os.path.join("PyYetiVerif", "Generated", "C19Consts.lean")


class Unparsable(Exception):
    pass


def _num(node):
    """numeric literal (possibly negated) -> Fraction (exact decimal value of the literal's repr) or None"""
    if isinstance(node, ast.UnaryOp) and isinstance(node.op, ast.USub):
        v = _num(node.operand)
        return None if v is None else -v
    if isinstance(node, ast.Constant) and type(node.value) in (int, float):
        return Fraction(repr(node.value)) if type(node.value) is float else Fraction(node.value)
    return None


def _match(pat, node, env, ops):
    if isinstance(pat, ast.Name) and pat.id.startswith("_C"):
        v = _num(node)
        if v is None:
            return False
        if pat.id in env and env[pat.id] != v:
            return False
        env[pat.id] = v
        return True
    if isinstance(pat, ast.Name) and pat.id.startswith("_E"):
        return True
    if type(pat) is not type(node):
        return False
    if isinstance(pat, ast.Compare):
        if len(pat.ops) != len(node.ops):
            return False
        ops.extend(type(o).__name__ for o in node.ops)
        return _match(pat.left, node.left, env, ops) and all(_match(a, b, env, ops) for a, b in zip(pat.comparators, node.comparators))
    for f in pat._fields:
        a, b = getattr(pat, f, None), getattr(node, f, None)
        if f in ("ctx", "type_comment", "kind"):
            continue
        if isinstance(a, list):
            if not isinstance(b, list) or len(a) != len(b) or not all(
                    (_match(x, y, env, ops) if isinstance(x, ast.AST) else x == y) for x, y in zip(a, b)):
                return False
        elif isinstance(a, ast.AST):
            if not isinstance(b, ast.AST) or not _match(a, b, env, ops):
                return False
        elif a != b:
            return False
    return True


def find(fn, pattern, count=1):
    """all matches of `pattern` (an expression) inside function node `fn`: list of (constants, comparison ops)"""
    pat = ast.parse(pattern, mode="eval").body
    out = []
    for n in ast.walk(fn):
        env, ops = {}, []
        if _match(pat, n, env, ops):
            out.append((env, ops))
    if len(out) != count:
        raise Unparsable("%s: pattern `%s` occurs %d times, expected %d" % (fn.name, pattern, len(out), count))
    return out


def one(fn, pattern):
    return find(fn, pattern, 1)[0]


def _functions(tree):
    fns = {}
    for n in ast.walk(tree):
        if isinstance(n, ast.FunctionDef):
            fns.setdefault(n.name, []).append(n)
    return fns


def _fn(fns, name, which=0):
    if name not in fns:
        raise Unparsable("def %s not found" % name)
    return fns[name][which]


def _defaults(fn):
    """{argument: default node}"""
    a = fn.args
    out = {}
    pos = a.posonlyargs + a.args
    for arg, d in zip(pos[len(pos) - len(a.defaults):], a.defaults):
        out[arg.arg] = d
    for arg, d in zip(a.kwonlyargs, a.kw_defaults):
        if d is not None:
            out[arg.arg] = d
    return out


def _default_num(fn, name):
    d = _defaults(fn).get(name)
    v = None if d is None else _num(d)
    if v is None:
        raise Unparsable("%s: default of `%s` is not a numeric literal" % (fn.name, name))
    return v


def _default_const(fn, name):
    d = _defaults(fn).get(name)
    if not isinstance(d, ast.Constant):
        raise Unparsable("%s: default of `%s` is not a literal" % (fn.name, name))
    return d.value


def parse(repo):
    dsp = _functions(ast.parse(open(os.path.join(repo, "pyyeti", "dsp.py"), encoding="utf-8").read()))
    psd = _functions(ast.parse(open(os.path.join(repo, "pyyeti", "psd.py"), encoding="utf-8").read()))
    c = {}
    strict = {}

    # ---- dsp.resample
    f = _fn(dsp, "resample")
    c["kaiserBeta"] = _default_num(f, "beta")
    c["ptsDefault"] = _default_num(f, "pts")
    c["resampleAxisDefault"] = _default_num(f, "axis")
    c["firOrderFactor"] = one(f, "_C1 * pts * max(p, q)")[0]["_C1"]
    c["cutoffDivisor"] = one(f, "min(1 / q, 1 / p) / _C1")[0]["_C1"]
    c["lagDivisor"] = one(f, "M // _C1")[0]["_C1"]
    zeros = [n for n in ast.walk(f) if isinstance(n, ast.Call) and isinstance(n.func, ast.Attribute) and n.func.attr == "zeros"]
    if not zeros:
        raise Unparsable("resample: no np.zeros call")
    c["zerosCalls"] = Fraction(len(zeros))
    c["zerosWithDtype"] = Fraction(sum(1 for z in zeros if len(z.args) > 1 or any(k.arg == "dtype" for k in z.keywords)))
    one(f, "int(np.ceil(ln * p / q))")

    # ---- fixtime and helpers
    f = _fn(dsp, "fixtime")
    c["dropvalDefault"] = _default_num(f, "dropval")
    c["prevTolDefault"] = _default_num(f, "previous_value_tol")
    for k in ("deldrops", "delouttimes"):
        if _default_const(f, k) is not True:
            raise Unparsable("fixtime: default of %s is not True" % k)
    for k in ("delspikes", "hold_previous_value"):
        if _default_const(f, k) is not False:
            raise Unparsable("fixtime: default of %s is not False" % k)
    if _default_const(f, "base") is not None or _default_const(f, "negmethod") != "sort":
        raise Unparsable("fixtime: defaults of base / negmethod changed")
    env, ops = one(f, "previous_value_tol < _C1 or previous_value_tol > _C2")
    c["prevTolLo"], c["prevTolHi"] = env["_C1"], env["_C2"]
    strict["prevTolRangeStrict"] = ops == ["Lt", "Gt"]
    one(f, "base - t0 - round((base - t0) * sr) / sr")

    f = _fn(dsp, "_find_drops")
    env, ops = one(f, "abs(d - dropval) < abs(dropval) / _C1")
    c["dropvalPercentDivisor"] = env["_C1"]
    strict["dropvalStrict"] = ops == ["Lt"]

    f = _fn(dsp, "_del_outtimes")
    c["outtimeSigmas"] = one(f, "_C1 * t.std(ddof=_C2)")[0]["_C1"]
    c["outtimeDdof"] = one(f, "_C1 * t.std(ddof=_C2)")[0]["_C2"]
    ops = one(f, "np.logical_or(t < mn - sig, t > mn + sig)")[1]
    strict["outtimeStrict"] = ops == ["Lt", "Gt"]

    f = _fn(dsp, "_sr_calcs")
    env, ops = one(f, "sr1 > _C1")
    c["srCoarseAbove"] = env["_C1"]
    strict["srCoarseStrict"] = ops == ["Gt"]
    c["srCoarseStep"] = _assign_const(f, "dsr")
    env, _ = one(f, "round(_C1 * max(sr1, _C2)) / _C3")
    c["srFineScale"], c["srFineFloor"], c["srFineDivisor"] = env["_C1"], env["_C2"], env["_C3"]
    env, ops = one(f, "mode_pct > _C1 or abs(mode_sr - ave_sr) < dsr")
    c["srModePct"] = env["_C1"]
    strict["srModeStrict"] = ops == ["Gt", "Lt"]
    one(f, "pd.Series(np.round(sr_all / dsr)).value_counts()")
    find(f, "round(_E1 / dsr) * dsr", 2)

    f = _fn(dsp, "_prep_delspikes")
    call = [n for n in ast.walk(f) if isinstance(n, ast.Call) and isinstance(n.func, ast.Name) and n.func.id == "_dict_default" and n.keywords]
    if len(call) != 1:
        raise Unparsable("_prep_delspikes: the _dict_default(delspikes, ...) call not found")
    kw = {k.arg: k.value for k in call[0].keywords}
    if set(kw) != {"sigma", "n", "method", "maxiter"} or not isinstance(kw["method"], ast.Constant) or kw["method"].value != "despike_diff":
        raise Unparsable("_prep_delspikes: defaults are %s" % sorted(kw))
    c["delspikesSigma"], c["delspikesN"], c["delspikesMaxiter"] = _num(kw["sigma"]), _num(kw["n"]), _num(kw["maxiter"])

    f = _fn(dsp, "_check_dt_size")
    both = {tuple(ops): env["_C1"] for env, ops in find(f, "difft < _C1 * dt", 2)}
    if set(both) != {("Lt",), ("Gt",)}:
        raise Unparsable("_check_dt_size: expected one `difft < c*dt` and one `difft > c*dt`, found %s" % sorted(both))
    c["dtSmallFactor"], c["dtLargeFactor"] = both[("Lt",)], both[("Gt",)]
    env, ops = one(f, "n > _C1")
    c["dtWarnFraction"] = env["_C1"]
    strict["dtWarnStrict"] = ops == ["Gt"]

    f = _fn(dsp, "_get_time_shifts")
    env, ops = one(f, "abs(np.diff(told) - dt) > dt / _C1")
    c["turnTolDivisor"] = env["_C1"]
    strict["turnStrict"] = ops == ["Gt"]
    env, ops = one(f, "len(tp) - _C1 > len(told) // _C2")
    c["turnEnds"], c["turnMaxDivisor"] = env["_C1"], env["_C2"]
    strict["turnCountStrict"] = ops == ["Gt"]

    f = _fn(dsp, "_mk_initial_tnew")
    c["alignHalfDivisor"] = find(f, "_E1 + dt / _C1", 2)[0][0]["_C1"]
    one(f, "int(round((told[-1] - told[0]) * sr)) + 1")

    f = _fn(dsp, "_del_loners")
    c["lonersNz"] = _default_num(f, "nz")
    c["lonersGap"] = one(f, "np.diff(pv) == _C1")[0]["_C1"]
    env, ops = one(f, "pv.size > _C1")
    c["lonersMinFlags"] = env["_C1"]
    strict["lonersCountIsGE"] = one(f, "d_ij.sum() >= nz")[1] == ["GtE"]

    # ---- the despikers
    for nm in ("despike", "despike_diff"):
        f = _fn(dsp, nm)
        c[nm.replace("_d", "D") + "Sigma"] = _default_num(f, "sigma")
        c[nm.replace("_d", "D") + "Maxiter"] = _default_num(f, "maxiter")
        c[nm.replace("_d", "D") + "ThresholdSigma"] = _default_num(f, "threshold_sigma")
        if _default_const(f, "threshold_value") is not None or _default_const(f, "exclude_point") != "first":
            raise Unparsable("%s: defaults of threshold_value / exclude_point changed" % nm)
    flag_ops = []
    for nm, pat, cnt in (("_outs_first", "y_delta > limit", 1), ("_outs_first", "y_delta[i:j] > limit[i:j]", 1),
                         ("_outs_last", "y_delta > limit", 1), ("_outs_last", "y_delta[i:j] > limit[i:j]", 1),
                         ("_outs_gen", "y_delta > limit", 1), ("_find_outlier_peaks_diff", "dy_delta > limit", 1),
                         ("_outs_first_diff", "dy_delta[i:j] > limit[i:j]", 1), ("_outs_last_diff", "dy_delta[i:j] > limit[i:j]", 1)):
        for env, ops in find(_fn(dsp, nm), pat, cnt):
            flag_ops += ops
    strict["despikeFlagStrict"] = all(o == "Gt" for o in flag_ops) and len(flag_ops) == 8
    keep_ops = []
    for nm, pat in (("_sweep_out_priors", "abs(y[k] - av) <= lim"), ("_sweep_out_nexts", "abs(y[k] - av) <= lim"),
                    ("_sweep_out_priors_diff", "abs(new_dy - av) <= lim"), ("_sweep_out_nexts_diff", "abs(new_dy - av) <= lim")):
        keep_ops += one(_fn(dsp, nm), pat)[1]
    strict["despikeSweepStopsAtLE"] = all(o == "LtE" for o in keep_ops) and len(keep_ops) == 4
    f = _fn(dsp, "_simple_filter")
    strict["simpleFlagStrict"] = one(f, "abs(delta) > sigma * np.std(delta)")[1] == ["Gt"]
    f = _fn(dsp, "exclusive_sgfilter")
    one(f, "min(x.size - 1, n) | 1")

    # ---- psd
    f = _fn(psd, "area")
    env, ops = one(f, "abs(s + _C1) < _C2")
    c["areaSlopeShift"], c["areaSlopeTol"] = env["_C1"], env["_C2"]
    strict["areaSlopeStrict"] = ops == ["Lt"]
    f = _fn(psd, "rescale")
    c["rescaleNOctDefault"] = _default_num(f, "n_oct")
    if _default_const(f, "extendends") is not True:
        raise Unparsable("rescale: default of extendends is not True")
    g = _fn(psd, "_get_fl_fu")
    env, ops = one(g, "abs(Df / Df[0] - _C1) < _C2")
    c["linTol"] = env["_C2"]
    strict["linTolStrict"] = ops == ["Lt"]
    c["edgeHalfDivisor"] = find(g, "Df / _C1", 2)[0][0]["_C1"]
    f = _fn(psd, "get_freq_oct")
    d = _defaults(f)["frange"]
    if not (isinstance(d, ast.Tuple) and [_num(e) for e in d.elts] == [Fraction(1), Fraction(10000)]):
        raise Unparsable("get_freq_oct: default frange changed")
    if _default_const(f, "exact") is not False or _default_const(f, "trim") != "outside":
        raise Unparsable("get_freq_oct: defaults of exact / trim changed")
    anchors = sorted(_num(n.value) for n in ast.walk(f) if isinstance(n, ast.Assign) and len(n.targets) == 1
                     and isinstance(n.targets[0], ast.Name) and n.targets[0].id == "anchor" and _num(n.value) is not None)
    if len(anchors) != 2:
        raise Unparsable("get_freq_oct: the two default anchors not found")
    c["anchorPreferred"], c["anchorExact"] = anchors
    c["octExactBase"] = one(f, "anchor * _C1 ** (bands / n)")[0]["_C1"]
    env, _ = one(f, "anchor * _C1 ** (_C2 * bands / (_C3 * n))")
    c["octPrefBase"], c["octPrefTop"], c["octPrefBottom"] = env["_C1"], env["_C2"], env["_C3"]
    fac = {env["_C1"]: env for env, _ in find(f, "_C1 ** (_C2 / (_C3 * n))", 2)}
    if set(fac) != {c["octExactBase"], c["octPrefBase"]}:
        raise Unparsable("get_freq_oct: the two band factors `b ** (a / (c * n))` not found")
    c["octExactFactorTop"], c["octExactFactorBottom"] = fac[c["octExactBase"]]["_C2"], fac[c["octExactBase"]]["_C3"]
    c["octPrefFactorTop"], c["octPrefFactorBottom"] = fac[c["octPrefBase"]]["_C2"], fac[c["octPrefBase"]]["_C3"]
    trims = []
    for n in ast.walk(f):
        if isinstance(n, ast.Compare) and len(n.ops) == 1 and isinstance(n.left, ast.Name) and n.left.id in ("F", "FL", "FU") \
                and isinstance(n.comparators[0], ast.Name) and n.comparators[0].id in ("s", "e"):
            trims.append((n.lineno, n.col_offset, n.left.id, type(n.ops[0]).__name__, n.comparators[0].id))
    trims = [t[2:] for t in sorted(trims)]
    want = [("FL", "LtE", "e"), ("FU", "GtE", "s"), ("F", "LtE", "e"), ("F", "GtE", "s"), ("FU", "LtE", "e"), ("FL", "GtE", "s")]
    strict["octTrimTable"] = trims == want
    return c, strict


def _assign_const(fn, name):
    vals = [_num(n.value) for n in ast.walk(fn) if isinstance(n, ast.Assign) and len(n.targets) == 1
            and isinstance(n.targets[0], ast.Name) and n.targets[0].id == name and _num(n.value) is not None]
    if len(vals) != 1:
        raise Unparsable("%s: expected exactly one `%s = <literal>`" % (fn.name, name))
    return vals[0]


def render(c, strict):
    lines = [
        "/-! GENERATED by harness/translate/c19_consts.py from pyyeti/dsp.py and pyyeti/psd.py",
        "(defaults, literals and comparison operators of resample, fixtime and its helpers, the despikers, area, rescale,",
        "get_freq_oct).  Do not edit: regenerated from /repo's working tree on every `./check C19`.",
        "A number `x` is given exactly as `xNum / xDen` (the decimal value of the literal); `…Strict`/table flags are `true`",
        "when the comparison operators in the source are the ones the models use. -/",
        "namespace PyYetiVerif.Generated.C19Consts",
        "",
    ]
    for k in sorted(c):
        v = c[k]
        lines.append("def %sNum : Int := %d" % (k, v.numerator))
        lines.append("def %sDen : Nat := %d" % (k, v.denominator))
    lines.append("")
    for k in sorted(strict):
        lines.append("def %s : Bool := %s" % (k, "true" if strict[k] else "false"))
    lines += ["", "end PyYetiVerif.Generated.C19Consts"]
    return "\n".join(lines) + "\n"


def run(repo, lean_dir):
    c, strict = parse(repo)
    text = render(c, strict)
    path = os.path.join(lean_dir, OUT)
    old = open(path, encoding="utf-8").read() if os.path.exists(path) else None
    if old != text:
        with open(path, "w", encoding="utf-8") as f:
            f.write(text)
    return ["C19Consts"], {k: str(v) for k, v in c.items()} | {k: v for k, v in strict.items()}


if __name__ == "__main__":
    import sys

    c_, s_ = parse(sys.argv[1] if len(sys.argv) > 1 else "/repo")
    sys.stdout.write(render(c_, s_))
