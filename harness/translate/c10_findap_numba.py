"""Translator for C10: the numba-only variant of cyclecount.findap.

numba is not installed, so the `else:` branch of `if not HAVE_NUMBA:` in pyyeti/cyclecount.py
is never executed by the package.  This translator extracts that function *as source text*
(Python `ast`, no execution of repo code), checks that it stays inside a tiny grammar (only
`np`, `numba_bool`, `range` are free names; no imports, no attribute stores, no calls other than
np.* / range / methods of its own locals), and returns the dedented text.  The harness executes
that text as plain Python (`numba_bool = bool`) — a translator-made transcription, flagged as
such in the evidence — and compares it with the Lean model `findapSeqFix` (the text after repair
4b29dcf: no size-2 special case, end rule `PV[j] = True`).  A static obligation rejects a text
that reads, after a `for` loop, a name assigned only inside it (finding F14).
"""
import ast
import builtins
import os
import textwrap

ALLOWED_FREE = {"np", "numba_bool", "range"}


class Shape(Exception):
    pass


def extract(repo, strict=True):
    path = os.path.join(repo, "pyyeti", "cyclecount.py")
    src = open(path, encoding="utf-8").read()
    tree = ast.parse(src)
    hits = []
    for node in tree.body:
        if (
            isinstance(node, ast.If)
            and isinstance(node.test, ast.UnaryOp)
            and isinstance(node.test.op, ast.Not)
            and isinstance(node.test.operand, ast.Name)
            and node.test.operand.id == "HAVE_NUMBA"
        ):
            a = [n for n in node.body if isinstance(n, ast.FunctionDef) and n.name == "findap"]
            b = [n for n in node.orelse if isinstance(n, ast.FunctionDef) and n.name == "findap"]
            if a and b:
                hits.append((a[0], b[0]))
    if len(hits) != 1:
        raise Shape("expected exactly one `if not HAVE_NUMBA:` block defining findap twice, found %d" % len(hits))
    default_fn, numba_fn = hits[0]
    args = [a.arg for a in numba_fn.args.args]
    if args != ["y", "tol"] or numba_fn.args.vararg or numba_fn.args.kwarg or numba_fn.decorator_list:
        raise Shape("numba-variant findap signature is no longer (y, tol=…)")
    assigned = set(args)
    for n in ast.walk(numba_fn):
        if isinstance(n, (ast.Import, ast.ImportFrom, ast.Global, ast.Nonlocal, ast.Lambda,
                          ast.FunctionDef, ast.ClassDef, ast.With, ast.Try, ast.Yield, ast.Await)) and n is not numba_fn:
            raise Shape("construct %s outside the transcription grammar" % type(n).__name__)
        if isinstance(n, ast.Name) and isinstance(n.ctx, ast.Store):
            assigned.add(n.id)
    for n in ast.walk(numba_fn):
        if isinstance(n, ast.Name) and isinstance(n.ctx, ast.Load):
            if n.id not in assigned and n.id not in ALLOWED_FREE:
                raise Shape("free name %r outside the transcription grammar" % n.id)
        if isinstance(n, ast.Call):
            f = n.func
            ok = (isinstance(f, ast.Name) and f.id == "range") or (
                isinstance(f, ast.Attribute)
                and (
                    (isinstance(f.value, ast.Name) and (f.value.id == "np" or f.value.id in assigned))
                    or isinstance(f.value, ast.Call)
                )
            )
            if not ok:
                raise Shape("call outside the transcription grammar: %s" % ast.dump(f)[:80])
    # static obligation (repair 4b29dcf, finding F14): nothing that is assigned only inside a `for` body may be read after that
    # loop - the loop may not run (`range(i + 1, y.size)` is empty when the first significant change is the last sample)
    sure = set(args)
    for k, st in enumerate(numba_fn.body if strict else []):
        if isinstance(st, ast.For):
            inside = {n.id for n in ast.walk(st) if isinstance(n, ast.Name) and isinstance(n.ctx, ast.Store)}
            maybe = inside - sure
            for later in numba_fn.body[k + 1:]:
                for n in ast.walk(later):
                    if isinstance(n, ast.Name) and isinstance(n.ctx, ast.Load) and n.id in maybe:
                        raise Shape("`%s` is assigned only inside the `for` loop at line %d and read after it (line %d): unbound "
                                    "when the loop does not run" % (n.id, st.lineno, n.lineno))
        elif isinstance(st, (ast.Assign, ast.AugAssign, ast.AnnAssign)):
            for n in ast.walk(st):
                if isinstance(n, ast.Name) and isinstance(n.ctx, ast.Store):
                    sure.add(n.id)
    text = textwrap.dedent(ast.get_source_segment(src, numba_fn, padded=True))
    return text, {"lineno": numba_fn.lineno, "end_lineno": numba_fn.end_lineno,
                  "default_lineno": default_fn.lineno}


def load(repo):
    """Return the numba variant as a plain-Python callable (transcription)."""
    import numpy as np

    text, info = extract(repo, strict=False)   # the static obligation is translate()'s; the text still runs
    ns = {"np": np, "numba_bool": bool, "range": builtins.range, "__builtins__": {}}
    exec(compile(text, "<cyclecount.findap numba variant, lines %d-%d>" % (info["lineno"], info["end_lineno"]), "exec"), ns)
    return ns["findap"], info
