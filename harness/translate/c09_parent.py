"""Translator for C09, parent side: what `srs.srs` / `fdepsd.fdepsd` do AROUND the pool.

Reads pyyeti/srs.py and pyyeti/fdepsd.py with `ast` (the repo code is NOT executed) and writes
lean/PyYetiVerif/Generated/ParFootprintParent.lean:

  * `decision`   : `srs._process_parallel` as a table (accepted options, the conjuncts of the
                   'auto' rule with their comparison operators and thresholds, the if/elif chain that
                   caps the worker count, the worker count of the serial path);
  * `guard_srs`, `guard_fdepsd` : the override between the decision and the parallel / serial split (srs.srs: a
                   `peak` function that cannot be pickled forces the serial path), or `present := false`;
  * `helpers`    : the shared-memory helpers (`createSharedArray`, `copyToSharedArray`, the
                   `np.frombuffer` views of the pool initialisers): element type of the RawArray, dtype
                   of the views, copy statement;
  * `sites`      : one record per place where a pool is created (srs with / without initial
                   conditions, fdepsd): the worker handed to the pool (with / without histories), the pool
                   method and its iterable `zip(range(X), it.repeat(args, Y))`, the `processes=` expression,
                   the initialiser and the positional binding  parent variable -> initialiser parameter ->
                   worker-side global, how every shared array is allocated (copied input / zero filled /
                   zero filled then initialised) with its symbolic shape, what the serial path allocates
                   instead, the argument tuple handed to the workers next to the worker's parameter list and
                   the expressions the serial loop uses for the same names, the serial loop header, the
                   copy-out statements after the pool, the number of peak (`methfunc`) calls in the worker /
                   in the parallel branch of the parent / in the serial loop body, the `eqsine` scaling
                   statements of the common tail and whether the tail depends on `parallel`.

`rename_map(site)` (used by c09_footprint) is DERIVED from these facts: `WN_[j]` is spelled `wn[j]` in
the serial loop because `WN = (copyToSharedArray(wn), …)` is bound to `WN_` by the initialiser, and so on.

Grammar accepted (anything else raises TieBroken): the shapes described above, literally: one
`with mp.Pool(processes=…, initializer=…, initargs=gvars) as pool:` per site whose body is
`for _ in pool.<method>(func, zip(range(X), it.repeat(args, Y))): pass`, copy-outs after the `with`.
"""
import ast
import os

from runner import TieBroken


def _u(node):
    return ast.unparse(node)


def _fn(tree, name, fname):
    for n in tree.body:
        if isinstance(n, ast.FunctionDef) and n.name == name:
            return n
    raise TieBroken("%s: function %s not found" % (fname, name))


def _body(fn):
    return [s for s in fn.body if not (isinstance(s, ast.Expr) and isinstance(s.value, ast.Constant))]


def _is_par_yes(test):
    return (
        isinstance(test, ast.Compare)
        and isinstance(test.left, ast.Name)
        and test.left.id == "parallel"
        and len(test.ops) == 1
        and isinstance(test.ops[0], ast.Eq)
        and isinstance(test.comparators[0], ast.Constant)
        and test.comparators[0].value == "yes"
    )


# ---------------------------------------------------------------------------------------
# decision table

_CMP = {ast.Gt: "gt", ast.GtE: "ge", ast.Lt: "lt", ast.LtE: "le", ast.Eq: "eq", ast.NotEq: "ne"}


def _cond(node, where):
    """one conjunct of a decision condition -> (kind, var, op, n)"""
    if isinstance(node, ast.Compare) and len(node.ops) == 1 and isinstance(node.left, ast.Name):
        op = _CMP.get(type(node.ops[0]))
        c = node.comparators[0]
        if op and isinstance(c, ast.Constant) and isinstance(c.value, int) and c.value >= 0:
            return ("cmp", node.left.id, op, c.value)
        if op and isinstance(c, ast.Name):
            return ("cmpv", node.left.id, op, c.id)
    if isinstance(node, ast.UnaryOp) and isinstance(node.op, ast.Not):
        if isinstance(node.operand, ast.Name):
            return ("notflag", node.operand.id)
        if _u(node.operand) in ('os.sys.platform.startswith("win")', "os.sys.platform.startswith('win')",
                                "sys.platform.startswith('win')"):
            return ("notwin",)
    if isinstance(node, ast.Name):
        return ("flag", node.id)
    raise TieBroken("%s: condition `%s` outside the decision grammar" % (where, _u(node)))


def _conj(node, where):
    if isinstance(node, ast.BoolOp) and isinstance(node.op, ast.And):
        return [_cond(v, where) for v in node.values]
    return [_cond(node, where)]


def _assign_to(st, name):
    return (
        isinstance(st, ast.Assign)
        and len(st.targets) == 1
        and isinstance(st.targets[0], ast.Name)
        and st.targets[0].id == name
    )


def _capval(node, where):
    if isinstance(node, ast.Name):
        return ("var", node.id)
    if isinstance(node, ast.Constant) and isinstance(node.value, int):
        return ("lit", node.value)
    # (ncpu * a) // b
    if (
        isinstance(node, ast.BinOp)
        and isinstance(node.op, ast.FloorDiv)
        and isinstance(node.right, ast.Constant)
        and isinstance(node.left, ast.BinOp)
        and isinstance(node.left.op, ast.Mult)
        and isinstance(node.left.left, ast.Name)
        and isinstance(node.left.right, ast.Constant)
    ):
        return ("muldiv", node.left.left.id, node.left.right.value, node.right.value)
    raise TieBroken("%s: worker-count expression `%s` outside the grammar" % (where, _u(node)))


def extract_decision(tree):
    where = "srs._process_parallel"
    fn = _fn(tree, "_process_parallel", "srs.py")
    params = [a.arg for a in fn.args.args]
    b = _body(fn)
    if len(b) != 5:
        raise TieBroken("%s: expected 5 statements (validate, cpu count, auto, cap, return), found %d" % (where, len(b)))
    # 1. validation
    s = b[0]
    if not (
        isinstance(s, ast.If)
        and isinstance(s.test, ast.Compare)
        and isinstance(s.test.ops[0], ast.NotIn)
        and _u(s.test.left) == "parallel"
        and isinstance(s.test.comparators[0], (ast.List, ast.Tuple))
        and len(s.body) == 1
        and isinstance(s.body[0], ast.Raise)
        and not s.orelse
    ):
        raise TieBroken("%s: option validation not recognised" % where)
    modes = [e.value for e in s.test.comparators[0].elts]
    exc = _u(s.body[0].exc.func) if isinstance(s.body[0].exc, ast.Call) else _u(s.body[0].exc)
    # 2. cpu count
    s = b[1]
    if not (
        isinstance(s, ast.If)
        and _u(s.test) in ("parallel != 'no'",)
        and len(s.body) == 1
        and _assign_to(s.body[0], "ncpu")
        and _u(s.body[0].value) == "mp.cpu_count()"
        and not s.orelse
    ):
        raise TieBroken("%s: `if parallel != 'no': ncpu = mp.cpu_count()` not recognised" % where)
    # 3. auto
    s = b[2]
    if not (isinstance(s, ast.If) and _u(s.test) == "parallel == 'auto'" and len(s.body) == 1 and not s.orelse):
        raise TieBroken("%s: `if parallel == 'auto':` not recognised" % where)
    inner = s.body[0]
    if not (
        isinstance(inner, ast.If)
        and len(inner.body) == 1
        and len(inner.orelse) == 1
        and _assign_to(inner.body[0], "parallel")
        and _assign_to(inner.orelse[0], "parallel")
    ):
        raise TieBroken("%s: the 'auto' rule is not `if <conjunction>: parallel = … else: parallel = …`" % where)
    auto_conds = _conj(inner.test, where)
    auto_then = inner.body[0].value.value
    auto_else = inner.orelse[0].value.value
    # 4. cap
    s = b[3]
    if not (isinstance(s, ast.If) and _is_par_yes(s.test) and len(s.orelse) == 1 and _assign_to(s.orelse[0], "ncpu")):
        raise TieBroken("%s: `if parallel == 'yes': … else: ncpu = …` not recognised" % where)
    serial_ncpu = _capval(s.orelse[0].value, where)
    chain = []
    cur = s.body
    while True:
        if len(cur) != 1 or not isinstance(cur[0], ast.If):
            raise TieBroken("%s: worker-count cap is not an if/elif chain" % where)
        node = cur[0]
        if len(node.body) != 1 or not _assign_to(node.body[0], "ncpu"):
            raise TieBroken("%s: a cap branch does not assign ncpu" % where)
        chain.append((_conj(node.test, where), _capval(node.body[0].value, where)))
        if not node.orelse:
            break
        cur = node.orelse
    # 5. return
    s = b[4]
    if not (isinstance(s, ast.Return) and _u(s.value) in ("(parallel, ncpu)",)):
        raise TieBroken("%s: return statement not recognised" % where)
    return {
        "params": params, "modes": modes, "exc": exc, "auto_conds": auto_conds, "auto_then": auto_then,
        "auto_else": auto_else, "cap": chain, "serial_ncpu": serial_ncpu,
    }


# ---------------------------------------------------------------------------------------
# shared-memory helpers


def extract_helpers(srs_tree, fde_tree):
    out = {}
    for name in ("createSharedArray", "copyToSharedArray"):
        fn = _fn(srs_tree, name, "srs.py")
        args = fn.args
        if len(args.args) != 2 or args.args[1].arg != "ctype" or len(args.defaults) != 1:
            raise TieBroken("srs.%s: signature is not (x, ctype=<default>)" % name)
        ctype = _u(args.defaults[0])
        b = _body(fn)
        raw = [n for n in ast.walk(fn) if isinstance(n, ast.Call) and _u(n.func) == "mp.RawArray"]
        if len(raw) != 1 or len(raw[0].args) != 2 or _u(raw[0].args[0]) != "ctype":
            raise TieBroken("srs.%s: not exactly one mp.RawArray(ctype, n)" % name)
        if not (isinstance(b[-1], ast.Return) and _u(b[-1].value) == "shared_arr" and _assign_to(b[0], "shared_arr")):
            raise TieBroken("srs.%s: does not return the RawArray it creates" % name)
        out[name] = {"ctype": ctype, "count": _u(raw[0].args[1])}
        if name == "copyToSharedArray":
            if len(b) != 4:
                raise TieBroken("srs.copyToSharedArray: expected RawArray / view / copy / return")
            v = b[1]
            if not (_assign_to(v, "a") and isinstance(v.value, ast.Call)):
                raise TieBroken("srs.copyToSharedArray: view statement not recognised")
            fb = [n for n in ast.walk(v.value) if isinstance(n, ast.Call) and _u(n.func) == "np.frombuffer"]
            if len(fb) != 1:
                raise TieBroken("srs.copyToSharedArray: view is not np.frombuffer")
            out[name]["view"] = _u(v.value)
            out[name]["view_dtype"] = _view_dtype(fb[0])
            out[name]["copy"] = _u(b[2])
        else:
            if len(b) != 2:
                raise TieBroken("srs.createSharedArray: expected RawArray / return")
    # fdepsd._to_np_array
    fn = _fn(fde_tree, "_to_np_array", "fdepsd.py")
    b = _body(fn)
    if len(b) != 1 or not isinstance(b[0], ast.Return):
        raise TieBroken("fdepsd._to_np_array: not a single return")
    p = fn.args.args[0].arg
    fb = [n for n in ast.walk(b[0]) if isinstance(n, ast.Call) and _u(n.func) == "np.frombuffer"]
    if len(fb) != 1 or _u(b[0].value) != "np.frombuffer(%s[0]%s).reshape(%s[1])" % (
            p, "".join(", %s=%s" % (k.arg, _u(k.value)) for k in fb[0].keywords), p):
        raise TieBroken("fdepsd._to_np_array: not np.frombuffer(x[0]).reshape(x[1])")
    out["_to_np_array"] = {"view_dtype": _view_dtype(fb[0])}
    return out


def _view_dtype(call):
    """dtype of an np.frombuffer(...) call: 'float' when left to the default"""
    if len(call.args) > 1:
        return _u(call.args[1])
    for k in call.keywords:
        if k.arg == "dtype":
            return _u(k.value)
    return "float"


def _view_of(node, helpers_ok=("_to_np_array",)):
    """`np.frombuffer(p[0]).reshape(p[1])` or `_to_np_array(p)` -> (p, dtype) else None"""
    if isinstance(node, ast.Call) and isinstance(node.func, ast.Name) and node.func.id in helpers_ok:
        if len(node.args) == 1 and isinstance(node.args[0], ast.Name) and not node.keywords:
            return node.args[0].id, "helper"
        return None
    if (
        isinstance(node, ast.Call)
        and isinstance(node.func, ast.Attribute)
        and node.func.attr == "reshape"
        and isinstance(node.func.value, ast.Call)
        and _u(node.func.value.func) == "np.frombuffer"
    ):
        fb = node.func.value
        if (
            len(fb.args) >= 1
            and isinstance(fb.args[0], ast.Subscript)
            and isinstance(fb.args[0].value, ast.Name)
            and _u(fb.args[0].slice) == "0"
            and len(node.args) == 1
            and _u(node.args[0]) == fb.args[0].value.id + "[1]"
        ):
            return fb.args[0].value.id, _view_dtype(fb)
    return None


def extract_initializer(tree, name, fname):
    """-> list of (global, parameter, guarded?, dtype) in parameter order"""
    fn = _fn(tree, name, fname)
    params = [a.arg for a in fn.args.args]
    b = _body(fn)
    if not b or not isinstance(b[0], ast.Global):
        raise TieBroken("%s.%s: does not start with a `global` statement" % (fname, name))
    globs = list(b[0].names)
    binds = []

    def one(st, guarded):
        if not (isinstance(st, ast.Assign) and len(st.targets) == 1 and isinstance(st.targets[0], ast.Name)):
            raise TieBroken("%s.%s: statement `%s` outside the grammar" % (fname, name, _u(st)))
        v = _view_of(st.value)
        if v is None or st.targets[0].id not in globs or v[0] not in params:
            raise TieBroken("%s.%s: `%s` is not a view of a parameter bound to a global" % (fname, name, _u(st)))
        binds.append((st.targets[0].id, v[0], guarded, v[1]))

    for st in b[1:]:
        if isinstance(st, ast.If):
            if st.orelse or not _u(st.test).endswith("[0] is not None"):
                raise TieBroken("%s.%s: guard `%s` outside the grammar" % (fname, name, _u(st.test)))
            for s2 in st.body:
                one(s2, True)
        else:
            one(st, False)
    if sorted(g for g, _, _, _ in binds) != sorted(globs) or [p for _, p, _, _ in binds] != params:
        raise TieBroken("%s.%s: globals / parameters are not bound one to one in order" % (fname, name))
    return binds


# ---------------------------------------------------------------------------------------
# the routine around the pool


def _dims(node, where):
    """a shape expression -> list of dimension strings"""
    if isinstance(node, ast.Tuple):
        return [_u(e) for e in node.elts]
    if isinstance(node, (ast.Name, ast.Constant, ast.BinOp)):
        return [_u(node)]
    raise TieBroken("%s: shape `%s` outside the grammar" % (where, _u(node)))


def _shared_alloc(st, where):
    """`X = (createSharedArray(shape), shape)` / `X = (copyToSharedArray(src), src.shape)` / `X = (None, None)`
    -> dict or None"""
    if not (isinstance(st, ast.Assign) and len(st.targets) == 1 and isinstance(st.targets[0], ast.Name)):
        return None
    v = st.value
    if not (isinstance(v, ast.Tuple) and len(v.elts) == 2):
        return None
    a, shp = v.elts
    var = st.targets[0].id
    if _u(a) == "None" and _u(shp) == "None":
        return {"var": var, "kind": "none", "src": "", "dims": []}
    if not isinstance(a, ast.Call):
        return None
    f = _u(a.func)
    if f.endswith("createSharedArray"):
        if len(a.args) != 1 or a.keywords:
            raise TieBroken("%s: createSharedArray called with an explicit element type" % where)
        if _u(a.args[0]) != _u(shp):
            raise TieBroken("%s: `%s` allocates %s but records shape %s" % (where, var, _u(a.args[0]), _u(shp)))
        return {"var": var, "kind": "zeros", "src": "", "dims": _dims(shp, where)}
    if f.endswith("copyToSharedArray"):
        if len(a.args) != 1 or a.keywords or not isinstance(a.args[0], ast.Name):
            raise TieBroken("%s: copyToSharedArray not called with one plain variable" % where)
        src = a.args[0].id
        if _u(shp) != src + ".shape":
            raise TieBroken("%s: `%s` copies %s but records shape %s" % (where, var, src, _u(shp)))
        return {"var": var, "kind": "copy", "src": src, "dims": []}
    return None


def _np_alloc(st):
    """`X = np.empty(shape)` / `np.zeros(shape)` (X a name or resp["hist"]) -> (target, kind, dims) or None"""
    if not (isinstance(st, ast.Assign) and len(st.targets) == 1 and isinstance(st.value, ast.Call)):
        return None
    f = _u(st.value.func)
    if f not in ("np.empty", "np.zeros") or len(st.value.args) != 1 or st.value.keywords:
        return None
    return _u(st.targets[0]), f[3:], _dims(st.value.args[0], "serial allocation")


def _walk_par_ifs(stmts, guard, out):
    """all `if parallel == 'yes':` statements with the textual path condition leading to them"""
    for st in stmts:
        if isinstance(st, ast.If):
            if _is_par_yes(st.test):
                out.append((guard, st))
            else:
                t = _u(st.test)
                _walk_par_ifs(st.body, guard + [t], out)
                _walk_par_ifs(st.orelse, guard + ["not (%s)" % t], out)
        elif isinstance(st, (ast.For, ast.While, ast.With, ast.Try)):
            for sub in ast.walk(st):
                if isinstance(sub, ast.If) and _is_par_yes(sub.test):
                    raise TieBroken("`if parallel == 'yes'` inside a loop / with / try")


def _is_pickle_guard(st):
    """`if parallel == <mode> and not isinstance(<x>, str):  try: pickle.dumps(<f>)  except <E>: parallel = <mode'>`"""
    if not (isinstance(st, ast.If) and not st.orelse and isinstance(st.test, ast.BoolOp) and isinstance(st.test.op, ast.And)
            and len(st.test.values) == 2):
        return False
    a, b = st.test.values
    if not (isinstance(a, ast.Compare) and _u(a.left) == "parallel" and len(a.ops) == 1 and isinstance(a.ops[0], ast.Eq)
            and isinstance(a.comparators[0], ast.Constant) and isinstance(a.comparators[0].value, str)):
        return False
    if not (isinstance(b, ast.UnaryOp) and isinstance(b.op, ast.Not) and isinstance(b.operand, ast.Call)
            and _u(b.operand.func) == "isinstance" and len(b.operand.args) == 2 and _u(b.operand.args[1]) == "str"):
        return False
    if len(st.body) != 1 or not isinstance(st.body[0], ast.Try):
        return False
    t = st.body[0]
    if t.orelse or t.finalbody or len(t.body) != 1 or len(t.handlers) != 1:
        return False
    if not (isinstance(t.body[0], ast.Expr) and isinstance(t.body[0].value, ast.Call)):
        return False
    h = t.handlers[0]
    if h.type is None or h.name is not None or len(h.body) != 1:
        return False
    asg = h.body[0]
    return (isinstance(asg, ast.Assign) and len(asg.targets) == 1 and isinstance(asg.targets[0], ast.Name)
            and isinstance(asg.value, ast.Constant) and isinstance(asg.value.value, str))


def _count_calls(stmts, name):
    n = 0
    for st in stmts:
        for node in ast.walk(st):
            if isinstance(node, ast.Call) and isinstance(node.func, ast.Name) and node.func.id == name:
                n += 1
    return n


def _last_assign(stmts, name):
    for st in reversed(stmts):
        if _assign_to(st, name):
            return st.value
    return None


def extract_routine(tree, fname, routine, workers_by_name):
    """-> dict(sites=[…], allocs=[…], decision_call=[…], lf_of=…, tail=…)"""
    where = "%s.%s" % (fname[:-3], routine)
    fn = _fn(tree, routine, fname)
    body = _body(fn)
    # the decision call
    dec = [
        st for st in ast.walk(fn)
        if isinstance(st, ast.Assign) and isinstance(st.value, ast.Call) and _u(st.value.func).endswith("_process_parallel")
    ]
    if len(dec) != 1 or _u(dec[0].targets[0]) != "(parallel, ncpu)":
        raise TieBroken("%s: expected exactly one `parallel, ncpu = _process_parallel(…)`" % where)
    dcall = [_u(a) for a in dec[0].value.args] + ["%s=%s" % (k.arg, _u(k.value)) for k in dec[0].value.keywords]
    # `parallel == 'yes'` means "the pool is used" only AFTER the decision: the statements before the call (which
    # may look at the user's option) are not part of the parallel / serial split
    if dec[0] not in body:
        raise TieBroken("%s: the call of _process_parallel is not a top-level statement" % where)
    after = body[body.index(dec[0]) + 1:]
    # the post-decision override (srs.srs: a `peak` function that cannot be pickled forces the serial path):
    # recognised literally, directly after the decision; any OTHER assignment to `parallel` / `ncpu` after the
    # decision is outside the grammar
    pguard = {"present": False, "when_mode": "", "not_str_of": "", "probe": "", "handler": "", "fail_var": "", "fail_mode": ""}
    if after and _is_pickle_guard(after[0]):
        g = after[0]
        t = g.body[0]
        pguard = {
            "present": True,
            "when_mode": g.test.values[0].comparators[0].value,
            "not_str_of": _u(g.test.values[1].operand.args[0]),
            "probe": _u(t.body[0].value),
            "handler": _u(t.handlers[0].type),
            "fail_var": t.handlers[0].body[0].targets[0].id,
            "fail_mode": t.handlers[0].body[0].value.value,
        }
        after = after[1:]
    for st in after:
        for node in ast.walk(st):
            tg = []
            if isinstance(node, ast.Assign):
                tg = [e for t in node.targets for e in ast.walk(t)]
            elif isinstance(node, (ast.AugAssign, ast.AnnAssign)):
                tg = list(ast.walk(node.target))
            if any(isinstance(e, ast.Name) and e.id in ("parallel", "ncpu") for e in tg):
                raise TieBroken("%s: `%s` changes the decision after _process_parallel outside the grammar" % (where, _u(node)))
    pifs = []
    _walk_par_ifs(after, [], pifs)
    # number of tasks
    lf = [st for st in ast.walk(fn) if _assign_to(st, "LF")]
    if len(lf) != 1:
        raise TieBroken("%s: LF assigned %d times" % (where, len(lf)))
    lfv = lf[0].value
    if isinstance(lfv, ast.Call) and _u(lfv.func) == "len" and len(lfv.args) == 1 and isinstance(lfv.args[0], ast.Name):
        lf_of = lfv.args[0].id
    elif isinstance(lfv, ast.Attribute) and lfv.attr == "size" and isinstance(lfv.value, ast.Name):
        lf_of = lfv.value.id
    else:
        raise TieBroken("%s: LF = %s is not the length of a vector" % (where, _u(lfv)))
    # the circular-frequency vector: elementwise function of that vector
    wn_name = "wn" if routine == "srs" else "Wn"
    wn = [st for st in ast.walk(fn) if _assign_to(st, wn_name)]
    if len(wn) != 1:
        raise TieBroken("%s: %s assigned %d times" % (where, wn_name, len(wn)))
    wn_expr = _u(wn[0].value)
    arrs = {n.id for n in ast.walk(wn[0].value) if isinstance(n, ast.Name)} - {"pi", "np", "float"}
    if arrs != {lf_of} or any(isinstance(n, (ast.Subscript, ast.Call)) and not _u(n).endswith(".astype(float)")
                              for n in ast.walk(wn[0].value)):
        raise TieBroken("%s: %s = %s is not an elementwise function of %s" % (where, wn_name, wn_expr, lf_of))

    sites, par_allocs, ser_allocs = [], [], []
    for guard, st in pifs:
        g = " and ".join(guard)
        withs = [s for s in st.body if isinstance(s, ast.With)]
        for s in st.body:
            a = _shared_alloc(s, where)
            if a:
                a["guard"] = g
                par_allocs.append(a)
        for s in st.orelse:
            a = _np_alloc(s)
            if a:
                ser_allocs.append({"target": a[0], "kind": a[1], "dims": a[2], "guard": g, "init": ""})
            elif isinstance(s, ast.AugAssign) and isinstance(s.op, ast.Add) and ser_allocs and _u(s.target) == ser_allocs[-1]["target"]:
                ser_allocs[-1]["init"] = _u(s.value)
        if not withs:
            if any(isinstance(n, ast.For) for s in st.orelse for n in ast.walk(s)):
                raise TieBroken("%s: a serial loop without a pool in the parallel branch" % where)
            continue
        if len(withs) != 1:
            raise TieBroken("%s: more than one `with` in a parallel branch" % where)
        sites.append(_site(where, g, st, withs[0], workers_by_name, par_allocs, lf_of, wn_name))
    if not sites:
        raise TieBroken("%s: no pool site found" % where)
    # the common tail: everything after the statement that contains the last site
    top_idx = None
    for i, st in enumerate(body):
        if any(s["_node"] in list(ast.walk(st)) for s in sites):
            top_idx = i
    tail = body[top_idx + 1:]
    tail_par = any(isinstance(n, ast.Name) and n.id == "parallel" and isinstance(n.ctx, ast.Load) and not _is_kw_passthrough(n, tail)
                   for st in tail for n in ast.walk(st))
    eqs = []
    for st in tail:
        for node in ast.walk(st):
            if isinstance(node, ast.If) and _u(node.test) == "eqsine":
                eqs.append([_u(s) for s in node.body])
    return {
        "routine": where, "sites": sites, "par_allocs": par_allocs, "ser_allocs": ser_allocs, "decision_call": dcall,
        "lf_of": lf_of, "wn_name": wn_name, "wn_expr": wn_expr, "tail_mentions_parallel": tail_par, "eqsine": eqs,
        "guard": pguard,
        "tail_meth_calls": _count_calls(tail, "methfunc"),
    }


def _is_kw_passthrough(name_node, tail):
    """`parallel=parallel` in the final SimpleNamespace(...) only reports the decision"""
    for st in tail:
        for node in ast.walk(st):
            if isinstance(node, ast.keyword) and node.value is name_node and node.arg == "parallel":
                return True
    return False


def _site(where, guard, ifnode, w, workers_by_name, par_allocs, lf_of, wn_name):
    pre = ifnode.body[: ifnode.body.index(w)]
    post = ifnode.body[ifnode.body.index(w) + 1:]
    # ---- the pool
    if len(w.items) != 1 or not isinstance(w.items[0].context_expr, ast.Call) or _u(w.items[0].context_expr.func) != "mp.Pool":
        raise TieBroken("%s: `with` does not create an mp.Pool" % where)
    pc = w.items[0].context_expr
    if pc.args or sorted(k.arg for k in pc.keywords) != ["initargs", "initializer", "processes"]:
        raise TieBroken("%s: mp.Pool(%s) outside the grammar" % (where, _u(pc)))
    kw = {k.arg: _u(k.value) for k in pc.keywords}
    pool = _u(w.items[0].optional_vars) if w.items[0].optional_vars is not None else ""
    if len(w.body) != 1 or not isinstance(w.body[0], ast.For):
        raise TieBroken("%s: body of the `with` is not a single for loop" % where)
    loop = w.body[0]
    if not (len(loop.body) == 1 and isinstance(loop.body[0], ast.Pass) and not loop.orelse):
        raise TieBroken("%s: the loop over the pool results does more than `pass`" % where)
    it_ = loop.iter
    if not (isinstance(it_, ast.Call) and isinstance(it_.func, ast.Attribute) and _u(it_.func.value) == pool):
        raise TieBroken("%s: the loop does not iterate over a pool method" % where)
    method = it_.func.attr
    if len(it_.args) < 2 or not isinstance(it_.args[0], ast.Name):
        raise TieBroken("%s: pool.%s arguments outside the grammar" % (where, method))
    chunk = ""
    if len(it_.args) > 2:
        chunk = _u(it_.args[2])
    for k in it_.keywords:
        if k.arg == "chunksize":
            chunk = _u(k.value)
        else:
            raise TieBroken("%s: pool.%s keyword %s" % (where, method, k.arg))
    funcvar = it_.args[0].id
    z = it_.args[1]
    if not (
        isinstance(z, ast.Call) and _u(z.func) == "zip" and len(z.args) == 2
        and isinstance(z.args[0], ast.Call) and _u(z.args[0].func) == "range" and len(z.args[0].args) == 1
        and isinstance(z.args[1], ast.Call) and _u(z.args[1].func) in ("it.repeat", "itertools.repeat")
        and 1 <= len(z.args[1].args) <= 2 and isinstance(z.args[1].args[0], ast.Name)
    ):
        raise TieBroken("%s: task list `%s` is not zip(range(X), it.repeat(args, Y))" % (where, _u(z)))
    range_bound = _u(z.args[0].args[0])
    argsvar = z.args[1].args[0].id
    repeat_count = _u(z.args[1].args[1]) if len(z.args[1].args) == 2 else "inf"
    # ---- func / args / gvars
    fv = _last_assign(pre, funcvar)
    if fv is None:
        raise TieBroken("%s: `%s` not assigned before the pool" % (where, funcvar))
    if isinstance(fv, ast.IfExp) and isinstance(fv.body, ast.Name) and isinstance(fv.orelse, ast.Name):
        sel, w_hist, w_nohist = _u(fv.test), fv.body.id, fv.orelse.id
    elif isinstance(fv, ast.Name):
        sel, w_hist, w_nohist = "", fv.id, fv.id
    else:
        raise TieBroken("%s: `%s = %s` outside the grammar" % (where, funcvar, _u(fv)))
    for n in (w_hist, w_nohist):
        if n not in workers_by_name:
            raise TieBroken("%s: %s handed to the pool is not an analysed worker" % (where, n))
    av = _last_assign(pre, argsvar)
    if not isinstance(av, ast.Tuple):
        raise TieBroken("%s: `%s` is not a tuple" % (where, argsvar))
    par_args = [_u(e) for e in av.elts]
    gv = _last_assign(pre, kw["initargs"])
    if not (isinstance(gv, ast.Tuple) and all(isinstance(e, ast.Name) for e in gv.elts)):
        raise TieBroken("%s: initargs is not a tuple of variables" % where)
    gvars = [e.id for e in gv.elts]
    # ---- in-place initialisation of a shared array before the pool (fdepsd: BinAmps)
    inits = {}
    views = {}
    for st in pre:
        if isinstance(st, ast.Assign) and len(st.targets) == 1 and isinstance(st.targets[0], ast.Name):
            v = _view_of(st.value)
            if v is not None:
                views[st.targets[0].id] = v[0]
        if isinstance(st, ast.AugAssign) and isinstance(st.target, ast.Name) and st.target.id in views:
            if not isinstance(st.op, ast.Add):
                raise TieBroken("%s: in-place initialisation `%s` is not `+=`" % (where, _u(st)))
            inits[views[st.target.id]] = _u(st.value)
    # ---- copy-out after the pool
    copy = []

    def out_stmt(st, g):
        if isinstance(st, ast.If) and not st.orelse:
            for s2 in st.body:
                out_stmt(s2, (g + " and " if g else "") + _u(st.test))
            return
        if not (isinstance(st, ast.Assign) and len(st.targets) == 1):
            raise TieBroken("%s: statement `%s` after the pool outside the grammar" % (where, _u(st)))
        tgt = _u(st.targets[0])
        v = _view_of(st.value)
        if v is not None:
            copy.append({"target": tgt, "source": v[0], "how": "view", "dtype": v[1], "guard": g})
        elif isinstance(st.value, ast.Name) and st.value.id in views:
            # `BinAmps = a` where `a` is the view of the shared array made before the pool
            copy.append({"target": tgt, "source": views[st.value.id], "how": "preview", "dtype": "", "guard": g})
        elif isinstance(st.value, ast.Name):
            copy.append({"target": tgt, "source": st.value.id, "how": "name", "dtype": "", "guard": g})
        elif isinstance(st.value, ast.Subscript) and isinstance(st.value.value, ast.Name) and isinstance(st.value.slice, ast.Constant):
            copy.append({"target": tgt, "source": "%s[%d]" % (st.value.value.id, st.value.slice.value), "how": "row",
                         "dtype": "", "guard": g})
        else:
            raise TieBroken("%s: statement `%s` after the pool outside the grammar" % (where, _u(st)))

    for st in post:
        out_stmt(st, "")
    # ---- serial branch: assignments, then the loop
    ser = ifnode.orelse
    loops = [s for s in ser if isinstance(s, ast.For)]
    if len(loops) != 1 or ser[-1] is not loops[0]:
        raise TieBroken("%s: the serial branch does not end with exactly one loop" % where)
    sl = loops[0]
    ser_pre = ser[:-1]
    if isinstance(sl.target, ast.Name) and isinstance(sl.iter, ast.Call) and _u(sl.iter.func) == "range" and len(sl.iter.args) == 1:
        ser_dom = ("range", sl.target.id, "", _u(sl.iter.args[0]))
    elif (
        isinstance(sl.target, ast.Tuple) and len(sl.target.elts) == 2 and all(isinstance(e, ast.Name) for e in sl.target.elts)
        and isinstance(sl.iter, ast.Call) and _u(sl.iter.func) == "enumerate" and len(sl.iter.args) == 1
        and isinstance(sl.iter.args[0], ast.Name)
    ):
        ser_dom = ("enumerate", sl.target.elts[0].id, sl.target.elts[1].id, sl.iter.args[0].id)
    else:
        raise TieBroken("%s: serial loop header `for %s in %s` outside the grammar" % (where, _u(sl.target), _u(sl.iter)))
    if sl.orelse or any(isinstance(n, (ast.Break, ast.Continue, ast.Return)) for s in sl.body for n in ast.walk(s)):
        raise TieBroken("%s: the serial loop has break / continue / return / else" % where)
    params = workers_by_name[w_hist]["params"]
    if workers_by_name[w_nohist]["params"] != params:
        raise TieBroken("%s: the two workers of a site have different parameter lists" % where)
    ser_args = []
    for p in params:
        v = _last_assign(ser_pre, p)
        ser_args.append(_u(v) if v is not None else p)
    # names assigned before the loop in the serial branch must all be worker parameters
    for s in ser_pre:
        if isinstance(s, ast.Assign) and len(s.targets) == 1 and isinstance(s.targets[0], ast.Name):
            if s.targets[0].id not in params and _np_alloc(s) is None:
                raise TieBroken("%s: serial branch assigns `%s`, which is not a worker parameter" % (where, s.targets[0].id))
    return {
        "_node": w, "_serial_loop": sl, "routine": where, "guard": guard, "select": sel, "worker_hist": w_hist,
        "worker_nohist": w_nohist, "method": method, "chunksize": chunk, "range_bound": range_bound,
        "repeat_count": repeat_count, "processes": kw["processes"], "initializer": kw["initializer"], "gvars": gvars,
        "params": params, "par_args": par_args, "ser_args": ser_args, "ser_dom": ser_dom, "copy_out": copy,
        "inits": inits, "lf_of": lf_of, "wn_name": wn_name,
        "meth_par_branch": _count_calls(ifnode.body, "methfunc"),
        "meth_serial_body": _count_calls(sl.body, "methfunc"),
        "serial_task_var": ser_dom[1],
    }


# ---------------------------------------------------------------------------------------
# putting the pieces together: shared declarations and the derived renaming


def finish(routine, inits_by_name):
    """per site: shared declarations (global <- initialiser parameter <- parent variable <- allocation) and the
    renaming worker spelling -> serial spelling that these facts justify"""
    for s in routine["sites"]:
        binds = inits_by_name.get(s["initializer"])
        if binds is None:
            raise TieBroken("%s: initialiser %s not analysed" % (s["routine"], s["initializer"]))
        if len(binds) != len(s["gvars"]):
            raise TieBroken("%s: %d initargs for %d initialiser parameters" % (s["routine"], len(s["gvars"]), len(binds)))
        shared = []
        for (glob, param, guarded, dtype), var in zip(binds, s["gvars"]):
            al = [a for a in routine["par_allocs"] if a["var"] == var and _guard_ok(a["guard"], s["guard"])]
            if not al:
                raise TieBroken("%s: no shared allocation found for %s" % (s["routine"], var))
            real = [a for a in al if a["kind"] != "none"]
            if guarded != (len(real) != len(al)):
                raise TieBroken("%s: %s may be (None, None) but the initialiser %s it" % (
                    s["routine"], var, "always views" if not guarded else "guards"))
            kinds = {a["kind"] for a in real}
            if len(kinds) != 1:
                raise TieBroken("%s: %s is allocated in different ways" % (s["routine"], var))
            kind = kinds.pop()
            shared.append({
                "glob": glob, "param": param, "var": var, "kind": kind, "src": real[0]["src"],
                "init": s["inits"].get(var, ""), "dims": [a["dims"] for a in real], "guards": [a["guard"] for a in real],
                "optional": guarded, "view_dtype": dtype,
            })
        s["shared"] = shared
        # ---- derived renaming (worker spelling -> serial spelling)
        ren = {}
        dom = s["ser_dom"]
        for d in shared:
            if d["kind"] == "copy":
                if d["src"] == s["wn_name"] and dom[0] == "enumerate" and dom[3] == d["src"]:
                    ren[d["glob"]] = ("elem", dom[2])      # WN_[j] -> wn   (for j, wn in enumerate(Wn))
                else:
                    ren[d["glob"]] = ("name", d["src"])    # SIG_ -> sig, WN_[j] -> wn[j]
            else:
                outs = [c for c in s["copy_out"] if c["source"] == d["var"] and c["how"] in ("view", "name", "preview")]
                viewvars = [c["target"] for c in outs]
                rows = [c for c in s["copy_out"] if c["how"] == "row" and c["source"].split("[")[0] in viewvars + [d["var"]]]
                if rows:
                    ren[d["glob"]] = ("rows", {int(c["source"].split("[")[1][:-1]): c["target"] for c in rows})
                else:
                    tg = [t for t in viewvars if t != d["var"]] or viewvars
                    if not tg:
                        raise TieBroken("%s: shared output %s is never copied out" % (s["routine"], d["var"]))
                    ren[d["glob"]] = ("name", tg[0])
        s["rename"] = ren
    return routine


def _guard_ok(alloc_guard, site_guard):
    """an allocation applies to a site unless their path conditions contradict each other"""
    a = set(alloc_guard.split(" and ")) - {""}
    b = set(site_guard.split(" and ")) - {""}
    for x in a:
        if "not (%s)" % x in b:
            return False
        if x.startswith("not (") and x[5:-1] in b:
            return False
    return True


def extract(repo, workers):
    """workers: output of c09_footprint.worker_signatures (name -> dict(params=…, meth_calls=…))"""
    srs_tree = ast.parse(open(os.path.join(repo, "pyyeti", "srs.py")).read())
    fde_tree = ast.parse(open(os.path.join(repo, "pyyeti", "fdepsd.py")).read())
    dec = extract_decision(srs_tree)
    helpers = extract_helpers(srs_tree, fde_tree)
    out = {"decision": dec, "helpers": helpers, "routines": []}
    for tree, fname, routine, inits in (
        (srs_tree, "srs.py", "srs", ["_mk_par_globals", "_mk_par_globals_ic"]),
        (fde_tree, "fdepsd.py", "fdepsd", ["_mk_par_globals"]),
    ):
        ib = {n: extract_initializer(tree, n, fname) for n in inits}
        r = extract_routine(tree, fname, routine, workers[fname])
        out["routines"].append(finish(r, ib))
    return out


# ---------------------------------------------------------------------------------------
# rendering


def _s(x):
    return '"%s"' % str(x).replace("\\", "\\\\").replace('"', '\\"')


def _sl(xs):
    return "[" + ", ".join(_s(x) for x in xs) + "]"


def _lean_cond(c):
    if c[0] == "cmp":
        return '.cmp %s .%s %d' % (_s(c[1]), c[2], c[3])
    if c[0] == "cmpv":
        return '.cmpv %s .%s %s' % (_s(c[1]), c[2], _s(c[3]))
    if c[0] == "flag":
        return ".flag %s" % _s(c[1])
    if c[0] == "notflag":
        return ".notflag %s" % _s(c[1])
    return ".notwin"


def _lean_capval(v):
    if v[0] == "var":
        return ".var %s" % _s(v[1])
    if v[0] == "lit":
        return ".lit %d" % v[1]
    return ".muldiv %s %d %d" % (_s(v[1]), v[2], v[3])


def _lean_dim(d, bound):
    d = d.strip()
    if d == bound:
        return ".tasks"
    if d.isdigit():
        return "(.lit %s)" % d
    return "(.sym %s)" % _s(d)


def _lean_dims(dd, bound):
    return "[" + ", ".join("[" + ", ".join(_lean_dim(d, bound) for d in ds) + "]" for ds in dd) + "]"


def site_decls(routine, s):
    """shared declarations of a site completed with what the serial path does for the same array"""
    out = []
    for d in s["shared"]:
        kind, target = s["rename"][d["glob"]]
        e = dict(d)
        if d["kind"] == "copy":
            e.update(serial=target if kind == "name" else s["ser_dom"][3], serialKind="same", serialInit="", serialDims=[])
        else:
            names = list(target.values()) if kind == "rows" else [target]
            al = [[a for a in routine["ser_allocs"] if a["target"] == n and _guard_ok(a["guard"], s["guard"])] for n in names]
            if any(not x for x in al):
                raise TieBroken("%s: no serial allocation for %s" % (s["routine"], names))
            kinds = {a["kind"] for x in al for a in x}
            inits = {a["init"] for x in al for a in x}
            if len(kinds) != 1 or len(inits) != 1:
                raise TieBroken("%s: serial counterparts of %s are allocated in different ways" % (s["routine"], d["glob"]))
            if kind == "rows":
                if sorted(target) != list(range(len(target))) or any(len(x) != 1 for x in al):
                    raise TieBroken("%s: rows of %s are not 0..n-1, one allocation each" % (s["routine"], d["var"]))
                rd = {tuple(x[0]["dims"]) for x in al}
                if len(rd) != 1:
                    raise TieBroken("%s: rows of %s have different serial shapes" % (s["routine"], d["var"]))
                sdims = [[str(len(target))] + list(rd.pop())]
                sname = "rows:" + ",".join(target[k] for k in sorted(target))
            else:
                sdims = [a["dims"] for a in al[0]]
                sname = target
            e.update(serial=sname, serialKind=kinds.pop(), serialInit=inits.pop(), serialDims=sdims)
        out.append(e)
    return out


def render(parent, workers):
    dec, hp = parent["decision"], parent["helpers"]
    L = [
        "import PyYetiVerif.Model.ParSchedParent",
        "/-! GENERATED by harness/translate/c09_parent.py from pyyeti/srs.py and pyyeti/fdepsd.py.",
        "Do not edit: regenerated from /repo's working tree on every run of `./check C09`. -/",
        "namespace PyYetiVerif.Generated.ParFootprintParent",
        "open PyYetiVerif.ParSched",
        "",
        "def decision : Decision :=",
        "  { params := %s" % _sl(dec["params"]),
        "    modes := %s" % _sl(dec["modes"]),
        "    autoConds := [%s]" % ", ".join(_lean_cond(c) for c in dec["auto_conds"]),
        "    autoThen := %s" % _s(dec["auto_then"]),
        "    autoElse := %s" % _s(dec["auto_else"]),
        "    cap := [%s]" % ", ".join("([%s], %s)" % (", ".join(_lean_cond(c) for c in g), _lean_capval(v)) for g, v in dec["cap"]),
        "    serialNcpu := %s }" % _lean_capval(dec["serial_ncpu"]),
        "",
    ]
    init_dtypes = []
    for r in parent["routines"]:
        for s in r["sites"]:
            for d in s["shared"]:
                if d["view_dtype"] not in init_dtypes:
                    init_dtypes.append(d["view_dtype"])
            for c in s["copy_out"]:
                if c["how"] == "view" and c["dtype"] not in init_dtypes:
                    init_dtypes.append(c["dtype"])
    L += [
        "def helpers : Helpers :=",
        "  { createCtype := %s" % _s(hp["createSharedArray"]["ctype"]),
        "    copyCtype := %s" % _s(hp["copyToSharedArray"]["ctype"]),
        "    copyViewDtype := %s" % _s(hp["copyToSharedArray"]["view_dtype"]),
        "    copyStmt := %s" % _s(hp["copyToSharedArray"]["copy"]),
        "    toNpViewDtype := %s" % _s(hp["_to_np_array"]["view_dtype"]),
        "    initViewDtypes := %s }" % _sl(init_dtypes),
        "",
    ]
    for r in parent["routines"]:
        g = r["guard"]
        L += [
            "def guard_%s : PickleGuard :=" % r["routine"].split(".")[1],
            "  { present := %s, whenMode := %s, notStrOf := %s, probe := %s" % (
                "true" if g["present"] else "false", _s(g["when_mode"]), _s(g["not_str_of"]), _s(g["probe"])),
            "    handler := %s, failVar := %s, failMode := %s }" % (_s(g["handler"]), _s(g["fail_var"]), _s(g["fail_mode"])),
            "",
        ]
    names = []
    for r in parent["routines"]:
        for k, s in enumerate(r["sites"]):
            nm = "site_%s_%d" % (r["routine"].split(".")[1], k)
            names.append(nm)
            decls = site_decls(r, s)
            s["decls"] = decls
            bound = s["range_bound"]
            L.append("def %s : PoolSite :=" % nm)
            L.append("  { routine := %s, guard := %s, select := %s" % (_s(s["routine"]), _s(s["guard"]), _s(s["select"])))
            L.append("    workerHist := %s, workerNoHist := %s" % (
                _s(s["routine"].split(".")[0] + "." + s["worker_hist"]), _s(s["routine"].split(".")[0] + "." + s["worker_nohist"])))
            L.append("    method := %s, chunksize := %s, rangeBound := %s, repeatCount := %s" % (
                _s(s["method"]), _s(s["chunksize"]), _s(bound), _s(s["repeat_count"])))
            L.append("    processes := %s, initializer := %s, gvars := %s" % (_s(s["processes"]), _s(s["initializer"]), _sl(s["gvars"])))
            L.append("    params := %s" % _sl(s["params"]))
            L.append("    parArgs := %s" % _sl(s["par_args"]))
            L.append("    serArgs := %s" % _sl(s["ser_args"]))
            L.append("    serialDom := (%s, %s), lfOf := %s, wnName := %s, wnOf := %s" % (
                _s(s["ser_dom"][0]), _s(s["ser_dom"][3]), _s(r["lf_of"]), _s(r["wn_name"]), _s(r["lf_of"])))
            L.append("    shared := [")
            for i, d in enumerate(decls):
                L.append(
                    "      { glob := %s, param := %s, var := %s, kind := %s, src := %s, init := %s, dims := %s, dimGuards := %s, optional := %s,"
                    % (_s(d["glob"]), _s(d["param"]), _s(d["var"]), _s(d["kind"]), _s(d["src"]), _s(d["init"]),
                       _lean_dims(d["dims"] if d["kind"] != "copy" else [], bound),
                       _sl(d["guards"] if d["kind"] != "copy" else []), "true" if d["optional"] else "false"))
                L.append("        serial := %s, serialKind := %s, serialInit := %s, serialDims := %s }%s" % (
                    _s(d["serial"]), _s(d["serialKind"]), _s(d["serialInit"]), _lean_dims(d["serialDims"], bound),
                    "," if i + 1 < len(decls) else ""))
            L.append("    ]")
            L.append("    decisionCall := %s" % _sl(r["decision_call"]))
            wm = workers[r["routine"].split(".")[0] + ".py"]
            L.append("    methWorkerHist := %d, methWorkerNoHist := %d, methParBranch := %d, methSerialBody := %d, methTail := %d" % (
                wm[s["worker_hist"]]["meth_calls"], wm[s["worker_nohist"]]["meth_calls"], s["meth_par_branch"],
                s["meth_serial_body"], r["tail_meth_calls"]))
            L.append("    tailMentionsParallel := %s" % ("true" if r["tail_mentions_parallel"] else "false"))
            L.append("    eqsine := [%s] }" % ", ".join(_sl(e) for e in r["eqsine"]))
            L.append("")
    L.append("def sites : List PoolSite := [%s]" % ", ".join(names))
    L.append("")
    L.append("end PyYetiVerif.Generated.ParFootprintParent")
    return "\n".join(L) + "\n"
