"""Translator for C03: pyyeti/srs.py coefficient functions -> lean/PyYetiVerif/Generated/SrsCoef.lean.

Python `ast` only; no repo code is executed.  Grammar accepted (anything else raises
TranslateError, i.e. the tie is broken):

    def <name>(Q, dT, wn):
        [docstring]
        stmt*            stmt ::= NAME = expr | NAME *= expr
                                | if wn (==|!=) 0[.0]: stmt* [else: stmt*]
        return b, a
    expr ::= number | NAME | -expr | expr (+|-|*|/) expr | expr ** 2
           | (sqrt|exp|cos|sin)(expr) | np.array([expr, ...])

Each function is executed symbolically along its two paths (`wn == 0` true / false); scalars become
`let` bindings in source order, arrays are lists of scalar terms with numpy's elementwise
broadcasting of array-with-scalar arithmetic.  The result is one polymorphic Lean `def` per
function of the shape   if wn == 0 then <lets> ⟨b, a⟩ else <lets> ⟨b, a⟩ .
"""
import ast
import os

FUNCS = ["absacce", "relacce", "reldisp", "pvelo", "pacce", "relvelo"]
CALLS = {"sqrt": "sqrt", "exp": "exp", "cos": "cos", "sin": "sin"}
OPS = {ast.Add: "+", ast.Sub: "-", ast.Mult: "*", ast.Div: "/"}


class TranslateError(Exception):
    pass


def _num(v, node):
    if isinstance(v, bool) or not isinstance(v, (int, float)):
        raise TranslateError("line %d: unsupported constant %r" % (node.lineno, v))
    if float(v) != int(v) or v < 0:
        raise TranslateError("line %d: non-natural literal %r" % (node.lineno, v))
    return str(int(v))


class Path:
    """symbolic execution of one path through a function body"""

    def __init__(self, wn_is_zero):
        self.wn_is_zero = wn_is_zero
        self.lets = []  # (name, lean term)
        self.env = {"Q": ("s", "Q"), "dT": ("s", "dT"), "wn": ("s", "wn")}
        self.ret = None

    def expr(self, n):
        """-> ("s", term) scalar or ("a", [terms]) array"""
        if isinstance(n, ast.Constant):
            return ("s", _num(n.value, n))
        if isinstance(n, ast.Name):
            if n.id not in self.env:
                raise TranslateError("line %d: unknown name %s" % (n.lineno, n.id))
            return self.env[n.id]
        if isinstance(n, ast.UnaryOp) and isinstance(n.op, ast.USub):
            k, v = self.expr(n.operand)
            if k == "s":
                return ("s", "-%s" % v)
            return ("a", ["-%s" % t for t in v])
        if isinstance(n, ast.BinOp) and type(n.op) in OPS:
            return self.binop(OPS[type(n.op)], self.expr(n.left), self.expr(n.right), n)
        if isinstance(n, ast.BinOp) and isinstance(n.op, ast.Pow):
            if not (isinstance(n.right, ast.Constant) and n.right.value == 2):
                raise TranslateError("line %d: only **2 is supported" % n.lineno)
            k, v = self.expr(n.left)
            if k != "s":
                raise TranslateError("line %d: array power" % n.lineno)
            return ("s", "(%s * %s)" % (v, v))
        if isinstance(n, ast.Call):
            f = n.func
            if isinstance(f, ast.Name) and f.id in CALLS and len(n.args) == 1 and not n.keywords:
                k, v = self.expr(n.args[0])
                if k != "s":
                    raise TranslateError("line %d: array argument" % n.lineno)
                return ("s", "(%s %s)" % (CALLS[f.id], v))
            if (isinstance(f, ast.Attribute) and f.attr == "array" and isinstance(f.value, ast.Name)
                    and f.value.id == "np" and len(n.args) == 1 and not n.keywords
                    and isinstance(n.args[0], ast.List)):
                out = []
                for e in n.args[0].elts:
                    k, v = self.expr(e)
                    if k != "s":
                        raise TranslateError("line %d: nested array" % n.lineno)
                    out.append(v)
                return ("a", out)
        raise TranslateError("line %d: unsupported expression %s" % (n.lineno, ast.dump(n)[:80]))

    def binop(self, op, l, r, n):
        if l[0] == "s" and r[0] == "s":
            return ("s", "(%s %s %s)" % (l[1], op, r[1]))
        if l[0] == "a" and r[0] == "s":
            return ("a", ["(%s %s %s)" % (t, op, r[1]) for t in l[1]])
        if l[0] == "s" and r[0] == "a":
            return ("a", ["(%s %s %s)" % (l[1], op, t) for t in r[1]])
        if len(l[1]) != len(r[1]):
            raise TranslateError("line %d: array length mismatch" % n.lineno)
        return ("a", ["(%s %s %s)" % (a, op, b) for a, b in zip(l[1], r[1])])

    def bind(self, name, val):
        if val[0] == "s":
            # rebinding shadows, exactly as in Python
            self.lets.append((name, val[1]))
            self.env[name] = ("s", name)
        else:
            self.env[name] = val

    def test(self, t):
        """value of an `if` test on this path; only wn ==/!= 0"""
        if (isinstance(t, ast.Compare) and len(t.ops) == 1 and isinstance(t.left, ast.Name)
                and t.left.id == "wn" and isinstance(t.comparators[0], ast.Constant)
                and t.comparators[0].value == 0
                and not isinstance(t.comparators[0].value, bool)):
            if isinstance(t.ops[0], ast.Eq):
                return self.wn_is_zero
            if isinstance(t.ops[0], ast.NotEq):
                return not self.wn_is_zero
        raise TranslateError("line %d: unsupported test" % t.lineno)

    def run(self, stmts):
        for s in stmts:
            if self.ret is not None:
                raise TranslateError("line %d: code after return" % s.lineno)
            if isinstance(s, ast.Expr) and isinstance(s.value, ast.Constant) and isinstance(s.value.value, str):
                continue
            if isinstance(s, ast.Assign) and len(s.targets) == 1 and isinstance(s.targets[0], ast.Name):
                self.bind(s.targets[0].id, self.expr(s.value))
            elif isinstance(s, ast.AugAssign) and isinstance(s.target, ast.Name) and type(s.op) in OPS:
                cur = self.expr(ast.copy_location(ast.Name(id=s.target.id, ctx=ast.Load()), s))
                self.bind(s.target.id, self.binop(OPS[type(s.op)], cur, self.expr(s.value), s))
            elif isinstance(s, ast.If):
                self.run(s.body if self.test(s.test) else s.orelse)
            elif isinstance(s, ast.Return):
                v = s.value
                if not (isinstance(v, ast.Tuple) and len(v.elts) == 2):
                    raise TranslateError("line %d: return must be `b, a`" % s.lineno)
                b, a = self.expr(v.elts[0]), self.expr(v.elts[1])
                if b[0] != "a" or a[0] != "a":
                    raise TranslateError("line %d: b, a must be arrays" % s.lineno)
                self.ret = (b[1], a[1])
            else:
                raise TranslateError("line %d: unsupported statement %s" % (s.lineno, type(s).__name__))

    def lean(self, indent):
        if self.ret is None:
            raise TranslateError("path without return")
        pad = " " * indent
        out = ["%slet %s := %s" % (pad, n, t) for n, t in self.lets]
        out.append("%s⟨[%s], [%s]⟩" % (pad, ", ".join(self.ret[0]), ", ".join(self.ret[1])))
        return "\n".join(out)


def translate_source(text):
    tree = ast.parse(text)
    found = {}
    for node in tree.body:
        if isinstance(node, ast.FunctionDef) and node.name in FUNCS:
            args = [a.arg for a in node.args.args]
            if args != ["Q", "dT", "wn"] or node.args.defaults or node.args.kwonlyargs:
                raise TranslateError("%s: signature changed: %s" % (node.name, args))
            paths = []
            for wz in (True, False):
                p = Path(wz)
                p.run(node.body)
                paths.append(p)
            found[node.name] = (node.lineno, paths)
    missing = [f for f in FUNCS if f not in found]
    if missing:
        raise TranslateError("functions not found: %s" % missing)
    out = [
        "import PyYetiVerif.Model.Srs",
        "/-! GENERATED by harness/translate/c03_srscoef.py from pyyeti/srs.py — do not edit.",
        "The six coefficient functions, symbolically executed along `wn == 0` / `wn != 0`. -/",
        "namespace PyYetiVerif.Generated.SrsCoef",
        "open PyYetiVerif.Srs PyYetiVerif.Srs.TransOps",
        "variable {α : Type} [Add α] [Sub α] [Mul α] [Div α] [Neg α] [BEq α]",
        "  [OfNat α 0] [OfNat α 1] [OfNat α 2] [OfNat α 4] [OfNat α 6] [TransOps α]",
        "",
    ]
    for f in FUNCS:
        line, (pz, pn) = found[f]
        out.append("/-- srs.py:%s -/" % f)
        out.append("def %s (Q dT wn : α) : Coef α :=" % f)
        out.append("  if wn == 0 then")
        out.append(pz.lean(4))
        out.append("  else")
        out.append(pn.lean(4))
        out.append("")
    out.append("end PyYetiVerif.Generated.SrsCoef")
    return "\n".join(out) + "\n"


def run(repo, lean_dir):
    src = os.path.join(repo, "pyyeti", "srs.py")
    text = translate_source(open(src, encoding="utf-8").read())
    dst = os.path.join(lean_dir, "PyYetiVerif", "Generated", "SrsCoef.lean")
    old = open(dst, encoding="utf-8").read() if os.path.exists(dst) else None
    if old != text:
        with open(dst, "w", encoding="utf-8") as f:
            f.write(text)
    return ["SrsCoef.lean"]


if __name__ == "__main__":
    import sys

    print(translate_source(open(sys.argv[1]).read()))
