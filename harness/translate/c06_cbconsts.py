"""Translator for C06: the tolerances, thresholds, defaults and unit factors of pyyeti/cb.py (and the two n2p.py
constants the C06 model uses) that the Lean model of the Craig-Bampton checks depends on
    ->  lean/PyYetiVerif/Generated/RigidBodyConsts.lean

The source is read with Python `ast` (the repo code is NOT executed here).  What is extracted and the shape each
occurrence must have (anything else raises `Unparsable`, which the property module turns into runner.TieBroken):

  cb._get_conv_factors   `if conv == "m2e": lengthconv = 1 / <a>; massconv = <b>  elif conv == "e2m": lengthconv = <c>;
                         massconv = <d>  else: lengthconv, massconv = conv`                     -> the four factors
  cb.mk_net_drms         keyword-only defaults `ref=[0, 0, 0]`, `reorder=False`, `g=<x> / <y>`, `tau="g"`;
                         exactly one comparison `abs(grfrc).max() > abs(Kcb[bb]).max() * <c>`   -> groundTolExp
                         `if uset_if.shape[0] > <n>`: ... `123 if rbe3_indep_dof is None else …` / `dof_indep = 123456`
  cb._cbcoordchk         exactly one `np.allclose(krr, rhs, atol=abs(krr).max() * <c>)`         -> refTolExp
                         `if lb_orig > <n>` (twice, same n), `len(refpoint) != <n>`
  cb._values_check       `mattol = <c>` (once)                                                  -> mattolExp
  cb.rbdispchk           default `tol=<c>`                                                      -> rbdispTolExp
  cb.cbcheck             keyword-only defaults `uref=(0, 0, 0)`, `conv=None`, `em_filt=0`, `rb_norm=None`, `reorder=True`,
                         `n_freefree_modes=<n>`; `if em_filt > 0`, `effmass_percent > em_filt`
  cb._solve_eig          `sp_la.eigsh(k, p, m, sigma=<c>, mode="normal")`                       -> eigshSigma
  n2p.rbgeom_uset        all float literals are the three equal thresholds `abs(.) + abs(.) > <c>` -> tinyExp
  n2p.find_xyz_triples   default `tol=<c>` (a decimal), `atol=tol`, `atol=2 * tol`, `atol=tol * mx`, `atol=tol * model_scale`

Decimal literals are kept both as IEEE bit patterns (what the Float driver uses) and, where a theorem is about the
number, as the exact decimal fraction of the source text.
"""
import ast
import os
import struct
from fractions import Fraction

SRC_CB = os.path.join("pyyeti", "cb.py")
SRC_N2P = os.path.join("pyyeti", "nastran", "n2p.py")
OUT = os.path.join("PyYetiVerif", "Generated", "RigidBodyConsts.lean")


class Unparsable(Exception):
    pass


def _funcs(tree, path):
    fns = {}
    for n in tree.body:
        if isinstance(n, ast.FunctionDef):
            if n.name in fns:
                raise Unparsable("%s: function %s defined twice" % (path, n.name))
            fns[n.name] = n
    return fns


def _body(fn):
    body = list(fn.body)
    if body and isinstance(body[0], ast.Expr) and isinstance(getattr(body[0], "value", None), ast.Constant):
        body = body[1:]
    return body


def _walk(nodes):
    for st in nodes:
        yield from ast.walk(st)


def _own_walk(fn):
    """nodes of the body of `fn` without the bodies of nested function definitions"""
    out = []

    def rec(n):
        for c in ast.iter_child_nodes(n):
            if isinstance(c, (ast.FunctionDef, ast.Lambda)):
                continue
            out.append(c)
            rec(c)

    for st in _body(fn):
        if isinstance(st, ast.FunctionDef):
            continue
        out.append(st)
        rec(st)
    return out


def _num(n, what, kinds=(int, float)):
    if isinstance(n, ast.Constant) and type(n.value) in kinds:
        return n.value
    raise Unparsable("%s is not a numeric literal" % what)


def _neg_pow10(x, what):
    for k in range(1, 40):
        if float("1e-%d" % k) == x:
            return k
    raise Unparsable("%s is %r, not a negative power of ten" % (what, x))


def _kwdefault(fn, name):
    for a, d in zip(fn.args.kwonlyargs, fn.args.kw_defaults):
        if a.arg == name:
            return d
    pos = fn.args.args
    defs = fn.args.defaults
    for a, d in zip(pos[len(pos) - len(defs):], defs):
        if a.arg == name:
            return d
    raise Unparsable("%s: no default for %s" % (fn.name, name))


def _is_zero3(n, kind):
    return isinstance(n, kind) and len(n.elts) == 3 and all(isinstance(e, ast.Constant) and e.value == 0 and type(e.value) is int
                                                           for e in n.elts)


def _src(text, n):
    return ast.get_source_segment(text, n)


def _dec(text, n, what):
    """the exact decimal value of a float literal, from its source text"""
    s = _src(text, n)
    try:
        fr = Fraction(s)
    except (ValueError, TypeError):
        raise Unparsable("%s: %r is not a decimal literal" % (what, s))
    if float(fr) != n.value:
        raise Unparsable("%s: literal %r does not round to its own value" % (what, s))
    return fr


def _abs_max(n, inner):
    """`abs(<inner>).max()`"""
    return (isinstance(n, ast.Call) and isinstance(n.func, ast.Attribute) and n.func.attr == "max" and not n.args
            and isinstance(n.func.value, ast.Call) and isinstance(n.func.value.func, ast.Name)
            and n.func.value.func.id == "abs" and len(n.func.value.args) == 1 and inner(n.func.value.args[0]))


def parse(repo):
    text = open(os.path.join(repo, SRC_CB), encoding="utf-8").read()
    tree = ast.parse(text)
    fns = _funcs(tree, SRC_CB)
    for name in ("_get_conv_factors", "mk_net_drms", "_cbcoordchk", "_values_check", "rbdispchk", "cbcheck", "_solve_eig"):
        if name not in fns:
            raise Unparsable("cb.py: top-level def %s not found" % name)
    c = {}

    # --- _get_conv_factors
    body = _body(fns["_get_conv_factors"])
    if len(body) != 2 or not isinstance(body[0], ast.If) or not isinstance(body[1], ast.Return):
        raise Unparsable("_get_conv_factors: expected one if-chain and a return")

    def conv_test(t, s):
        return (isinstance(t, ast.Compare) and len(t.ops) == 1 and isinstance(t.ops[0], ast.Eq) and isinstance(t.left, ast.Name)
                and t.left.id == "conv" and isinstance(t.comparators[0], ast.Constant) and t.comparators[0].value == s)

    def two_assign(stmts, what):
        if len(stmts) != 2 or not all(isinstance(s, ast.Assign) and len(s.targets) == 1 and isinstance(s.targets[0], ast.Name)
                                      for s in stmts):
            raise Unparsable("_get_conv_factors: branch %s is not two assignments" % what)
        if [s.targets[0].id for s in stmts] != ["lengthconv", "massconv"]:
            raise Unparsable("_get_conv_factors: branch %s does not assign lengthconv, massconv" % what)
        return stmts[0].value, stmts[1].value

    i1 = body[0]
    if not conv_test(i1.test, "m2e") or len(i1.orelse) != 1 or not isinstance(i1.orelse[0], ast.If) \
            or not conv_test(i1.orelse[0].test, "e2m"):
        raise Unparsable("_get_conv_factors: the chain is not `if conv == 'm2e' … elif conv == 'e2m' … else`")
    l1, m1 = two_assign(i1.body, "m2e")
    l2, m2 = two_assign(i1.orelse[0].body, "e2m")
    if not (isinstance(l1, ast.BinOp) and isinstance(l1.op, ast.Div) and _num(l1.left, "m2e length numerator") == 1):
        raise Unparsable("_get_conv_factors: m2e lengthconv is not `1 / <number>`")
    inch = _dec(text, l1.right, "m2e length denominator")
    c["m2eLen"] = 1 / float(l1.right.value)
    c["m2eLenFrac"] = 1 / inch
    c["m2eMass"] = _num(m1, "m2e massconv", (float,))
    c["m2eMassFrac"] = _dec(text, m1, "m2e massconv")
    c["e2mLen"] = _num(l2, "e2m lengthconv", (float,))
    c["e2mLenFrac"] = _dec(text, l2, "e2m lengthconv")
    c["e2mMass"] = _num(m2, "e2m massconv", (float,))
    c["e2mMassFrac"] = _dec(text, m2, "e2m massconv")
    els = i1.orelse[0].orelse
    if not (len(els) == 1 and isinstance(els[0], ast.Assign) and isinstance(els[0].targets[0], ast.Tuple)
            and [e.id for e in els[0].targets[0].elts] == ["lengthconv", "massconv"] and isinstance(els[0].value, ast.Name)
            and els[0].value.id == "conv"):
        raise Unparsable("_get_conv_factors: the else branch is not `lengthconv, massconv = conv`")

    # --- mk_net_drms
    fn = fns["mk_net_drms"]
    if not _is_zero3(_kwdefault(fn, "ref"), ast.List):
        raise Unparsable("mk_net_drms: default of ref is not [0, 0, 0]")
    d = _kwdefault(fn, "reorder")
    if not (isinstance(d, ast.Constant) and d.value is False):
        raise Unparsable("mk_net_drms: default of reorder is not False")
    d = _kwdefault(fn, "tau")
    if not (isinstance(d, ast.Constant) and d.value == "g"):
        raise Unparsable("mk_net_drms: default of tau is not 'g'")
    for nm in ("bsubset", "uset", "sccoord", "conv", "rbe3_indep_dof"):
        d = _kwdefault(fn, nm)
        if not (isinstance(d, ast.Constant) and d.value is None):
            raise Unparsable("mk_net_drms: default of %s is not None" % nm)
    d = _kwdefault(fn, "g")
    if not (isinstance(d, ast.BinOp) and isinstance(d.op, ast.Div)):
        raise Unparsable("mk_net_drms: default of g is not `<number> / <number>`")
    c["g"] = float(_num(d.left, "g numerator", (float,))) / float(_num(d.right, "g denominator", (float,)))
    c["gFrac"] = _dec(text, d.left, "g numerator") / _dec(text, d.right, "g denominator")
    if _dec(text, d.right, "g denominator") != inch:
        raise Unparsable("mk_net_drms: the inch in the default g differs from the inch of _get_conv_factors")
    own = _own_walk(fn)
    gr = [n for n in own if isinstance(n, ast.Compare) and len(n.ops) == 1 and isinstance(n.ops[0], ast.Gt)
          and _abs_max(n.left, lambda a: isinstance(a, ast.Name) and a.id == "grfrc")]
    if len(gr) != 1:
        raise Unparsable("mk_net_drms: %d comparisons `abs(grfrc).max() > …`, expected 1" % len(gr))
    r = gr[0].comparators[0]
    if not (isinstance(r, ast.BinOp) and isinstance(r.op, ast.Mult)
            and _abs_max(r.left, lambda a: isinstance(a, ast.Subscript) and isinstance(a.value, ast.Name) and a.value.id == "Kcb")):
        raise Unparsable("mk_net_drms: the grounding threshold is not `abs(Kcb[bb]).max() * <c>`")
    c["groundTolExp"] = _neg_pow10(_num(r.right, "grounding threshold", (float,)), "mk_net_drms grounding threshold")
    sh = [n for n in own if isinstance(n, ast.If) and isinstance(n.test, ast.Compare) and len(n.test.ops) == 1
          and isinstance(n.test.ops[0], ast.Gt) and isinstance(n.test.left, ast.Subscript)
          and isinstance(n.test.left.value, ast.Attribute) and n.test.left.value.attr == "shape"
          and isinstance(n.test.left.value.value, ast.Name) and n.test.left.value.value.id == "uset_if"]
    if len(sh) != 1:
        raise Unparsable("mk_net_drms: %d tests `uset_if.shape[0] > n`, expected 1" % len(sh))
    c["rbe3AllDofRows"] = _num(sh[0].test.comparators[0], "uset_if.shape[0] threshold", (int,))
    ints_ = sorted({n.value for n in ast.walk(sh[0]) if isinstance(n, ast.Constant) and type(n.value) is int and n.value > 100})
    if ints_ != [123, 123456]:
        raise Unparsable("mk_net_drms: independent-DOF codes of the RBE3 are %s, expected [123, 123456]" % ints_)
    c["rbe3IndepDefault"], c["rbe3IndepAll"] = 123, 123456
    # the F46 line: rbcg = n2p.rbgeom_uset(uset_if, cg_sc)
    rbcg = [n for n in own if isinstance(n, ast.Assign) and len(n.targets) == 1 and isinstance(n.targets[0], ast.Name)
            and n.targets[0].id == "rbcg"]
    if len(rbcg) != 1 or not (isinstance(rbcg[0].value, ast.Call) and len(rbcg[0].value.args) == 2
                              and isinstance(rbcg[0].value.args[1], ast.Name)):
        raise Unparsable("mk_net_drms: `rbcg = n2p.rbgeom_uset(uset_if, <name>)` not found")
    c["rbcgRefArg"] = rbcg[0].value.args[1].id

    # --- _cbcoordchk
    fn = fns["_cbcoordchk"]
    own = _own_walk(fn)
    ac = [n for n in own if isinstance(n, ast.Call) and isinstance(n.func, ast.Attribute) and n.func.attr == "allclose"]
    if len(ac) != 1 or len(ac[0].keywords) != 1 or ac[0].keywords[0].arg != "atol":
        raise Unparsable("_cbcoordchk: expected exactly one np.allclose(…, atol=…)")
    if [getattr(a, "id", None) for a in ac[0].args] != ["krr", "rhs"]:
        raise Unparsable("_cbcoordchk: allclose arguments are not (krr, rhs)")
    at = ac[0].keywords[0].value
    if not (isinstance(at, ast.BinOp) and isinstance(at.op, ast.Mult)
            and _abs_max(at.left, lambda a: isinstance(a, ast.Name) and a.id == "krr")):
        raise Unparsable("_cbcoordchk: atol is not `abs(krr).max() * <c>`")
    c["refTolExp"] = _neg_pow10(_num(at.right, "refpoint tolerance", (float,)), "_cbcoordchk refpoint tolerance")
    lbo = [n.comparators[0] for n in own if isinstance(n, ast.Compare) and isinstance(n.left, ast.Name) and n.left.id == "lb_orig"
           and len(n.ops) == 1 and isinstance(n.ops[0], ast.Gt)]
    if len(lbo) != 2 or len({_num(x, "lb_orig threshold", (int,)) for x in lbo}) != 1:
        raise Unparsable("_cbcoordchk: expected two tests `lb_orig > n` with the same n")
    c["trimMinRows"] = lbo[0].value
    ln = [n.comparators[0] for n in own if isinstance(n, ast.Compare) and len(n.ops) == 1 and isinstance(n.ops[0], ast.NotEq)
          and isinstance(n.left, ast.Call) and isinstance(n.left.func, ast.Name) and n.left.func.id == "len"
          and isinstance(n.left.args[0], ast.Name) and n.left.args[0].id == "refpoint"]
    if len(ln) != 2 or {_num(x, "len(refpoint)", (int,)) for x in ln} != {6}:
        raise Unparsable("_cbcoordchk: expected two tests `len(refpoint) != 6`")

    # --- _values_check
    mt = [n for n in _own_walk(fns["_values_check"]) if isinstance(n, ast.Assign) and len(n.targets) == 1
          and isinstance(n.targets[0], ast.Name) and n.targets[0].id == "mattol"]
    if len(mt) != 1:
        raise Unparsable("_values_check: %d assignments to mattol, expected 1" % len(mt))
    c["mattolExp"] = _neg_pow10(_num(mt[0].value, "mattol", (float,)), "_values_check mattol")

    # --- rbdispchk
    c["rbdispTolExp"] = _neg_pow10(_num(_kwdefault(fns["rbdispchk"], "tol"), "rbdispchk tol", (float,)), "rbdispchk default tol")

    # --- cbcheck
    fn = fns["cbcheck"]
    if not _is_zero3(_kwdefault(fn, "uref"), ast.Tuple):
        raise Unparsable("cbcheck: default of uref is not (0, 0, 0)")
    for nm in ("conv", "rb_norm"):
        d = _kwdefault(fn, nm)
        if not (isinstance(d, ast.Constant) and d.value is None):
            raise Unparsable("cbcheck: default of %s is not None" % nm)
    d = _kwdefault(fn, "reorder")
    if not (isinstance(d, ast.Constant) and d.value is True):
        raise Unparsable("cbcheck: default of reorder is not True")
    c["emFiltDefault"] = _num(_kwdefault(fn, "em_filt"), "cbcheck em_filt", (int,))
    c["nFreeFreeDefault"] = _num(_kwdefault(fn, "n_freefree_modes"), "cbcheck n_freefree_modes", (int,))
    own = _own_walk(fn)
    ef = [n for n in own if isinstance(n, ast.Compare) and len(n.ops) == 1 and isinstance(n.ops[0], ast.Gt)
          and isinstance(n.comparators[0], ast.Name) and n.comparators[0].id == "em_filt"]
    ef0 = [n for n in own if isinstance(n, ast.Compare) and len(n.ops) == 1 and isinstance(n.ops[0], ast.Gt)
           and isinstance(n.left, ast.Name) and n.left.id == "em_filt" and isinstance(n.comparators[0], ast.Constant)
           and n.comparators[0].value == 0]
    if len(ef) != 1 or not (isinstance(ef[0].left, ast.Name) and ef[0].left.id == "effmass_percent") or len(ef0) != 1:
        raise Unparsable("cbcheck: the print filter is not `if em_filt > 0` … `effmass_percent > em_filt`")
    hun = [n for n in own if isinstance(n, ast.BinOp) and isinstance(n.op, ast.Div) and isinstance(n.left, ast.Constant)
           and isinstance(n.right, ast.Call) and isinstance(n.right.func, ast.Attribute) and n.right.func.attr == "diag"]
    if len(hun) != 1 or hun[0].left.value != 100:
        raise Unparsable("cbcheck: `100 / np.diag(mg)` not found")

    # --- _solve_eig
    eg = [n for n in _own_walk(fns["_solve_eig"]) if isinstance(n, ast.Call) and isinstance(n.func, ast.Attribute) and n.func.attr == "eigsh"]
    if len(eg) != 1:
        raise Unparsable("_solve_eig: %d calls of eigsh, expected 1" % len(eg))
    kw = {k.arg: k.value for k in eg[0].keywords}
    if set(kw) != {"sigma", "mode"} or kw["mode"].value != "normal":
        raise Unparsable("_solve_eig: eigsh keywords are %s" % sorted(kw))
    c["eigshSigma"] = float(_num(kw["sigma"], "eigsh sigma", (float, int)))

    # --- n2p.py
    text2 = open(os.path.join(repo, SRC_N2P), encoding="utf-8").read()
    fns2 = _funcs(ast.parse(text2), SRC_N2P)
    for name in ("rbgeom_uset", "find_xyz_triples"):
        if name not in fns2:
            raise Unparsable("n2p.py: top-level def %s not found" % name)
    fl = [n for n in _walk(_body(fns2["rbgeom_uset"])) if isinstance(n, ast.Constant) and type(n.value) is float]
    if len(fl) != 3 or len({n.value for n in fl}) != 1:
        raise Unparsable("rbgeom_uset: float literals are %s, expected three equal thresholds" % [n.value for n in fl])
    c["tiny"] = fl[0].value
    c["tinyExp"] = _neg_pow10(fl[0].value, "rbgeom_uset fix-up threshold")
    fx = fns2["find_xyz_triples"]
    d = _kwdefault(fx, "tol")
    c["xyzTol"] = _num(d, "find_xyz_triples tol", (float,))
    c["xyzTolFrac"] = _dec(text2, d, "find_xyz_triples tol")
    atols = []
    for n in _walk(_body(fx)):
        if isinstance(n, ast.Call) and isinstance(n.func, ast.Attribute) and n.func.attr == "allclose":
            kws = {k.arg: k.value for k in n.keywords}
            if set(kws) != {"atol"}:
                raise Unparsable("find_xyz_triples: an allclose call has keywords %s" % sorted(kws))
            atols.append(ast.unparse(kws["atol"]))
    if atols != ["tol", "2 * tol", "tol * mx", "tol * model_scale"]:
        raise Unparsable("find_xyz_triples: the absolute tolerances are %s" % atols)
    return c


def _bits(x):
    return struct.unpack("<Q", struct.pack("<d", float(x)))[0]


def _frac(name, fr, doc):
    return ["/-- %s -/" % doc, "def %sNum : Nat := %d" % (name, fr.numerator), "def %sDen : Nat := %d" % (name, fr.denominator)]


def render(c):
    L = [
        "/-! GENERATED by harness/translate/c06_cbconsts.py from pyyeti/cb.py (_get_conv_factors, mk_net_drms, _cbcoordchk,",
        "_values_check, rbdispchk, cbcheck, _solve_eig) and pyyeti/nastran/n2p.py (rbgeom_uset, find_xyz_triples).",
        "Do not edit: regenerated from /repo's working tree on every `./check C06`. -/",
        "namespace PyYetiVerif.Generated.RigidBodyConsts",
        "",
        "/-! ### cb._get_conv_factors: IEEE bit patterns of the factors the code computes, and the exact decimals of the source -/",
        "def m2eLenBits : UInt64 := %d" % _bits(c["m2eLen"]),
        "def m2eMassBits : UInt64 := %d" % _bits(c["m2eMass"]),
        "def e2mLenBits : UInt64 := %d" % _bits(c["e2mLen"]),
        "def e2mMassBits : UInt64 := %d" % _bits(c["e2mMass"]),
    ]
    L += _frac("m2eLen", c["m2eLenFrac"], "`lengthconv = 1 / %r` (m2e) as an exact fraction" % float(1 / c["m2eLenFrac"]))
    L += _frac("m2eMass", c["m2eMassFrac"], "`massconv = %r` (m2e)" % c["m2eMass"])
    L += _frac("e2mLen", c["e2mLenFrac"], "`lengthconv = %r` (e2m)" % c["e2mLen"])
    L += _frac("e2mMass", c["e2mMassFrac"], "`massconv = %r` (e2m)" % c["e2mMass"])
    L += [
        "",
        "/-! ### cb.mk_net_drms -/",
        "/-- default `g` (standard gravity in inch/s^2) -/",
        "def gBits : UInt64 := %d" % _bits(c["g"]),
    ]
    L += _frac("g", c["gFrac"], "the default `g` as an exact fraction")
    L += [
        "/-- `abs(grfrc).max() > abs(Kcb[bb]).max() * 1e-%d`: the grounding warning -/" % c["groundTolExp"],
        "def groundTolExp : Nat := %d" % c["groundTolExp"],
        "def groundTolBits : UInt64 := %d" % _bits(float("1e-%d" % c["groundTolExp"])),
        "/-- `uset_if.shape[0] > %d`: more rows than one grid -> RBE3 on `rbe3IndepDefault`, else on all six DOF -/" % c["rbe3AllDofRows"],
        "def rbe3AllDofRows : Nat := %d" % c["rbe3AllDofRows"],
        "def rbe3IndepDefault : Nat := %d" % c["rbe3IndepDefault"],
        "def rbe3IndepAll : Nat := %d" % c["rbe3IndepAll"],
        "/-- the second argument of `rbcg = n2p.rbgeom_uset(uset_if, …)` (finding F46: `cg_sc` is the offset FROM `ref`) -/",
        "def rbcgRefArg : String := %s" % _lean_str(c["rbcgRefArg"]),
        "",
        "/-! ### cb._cbcoordchk / _values_check / rbdispchk / cbcheck / _solve_eig -/",
        "/-- `np.allclose(krr, rhs, atol=abs(krr).max() * 1e-%d)` -/" % c["refTolExp"],
        "def refTolExp : Nat := %d" % c["refTolExp"],
        "def refTolBits : UInt64 := %d" % _bits(float("1e-%d" % c["refTolExp"])),
        "/-- zero-stiffness trimming only when the b-set has more than this many DOF -/",
        "def trimMinRows : Nat := %d" % c["trimMinRows"],
        "/-- `mattol = 1e-%d` of `_values_check` -/" % c["mattolExp"],
        "def mattolExp : Nat := %d" % c["mattolExp"],
        "def mattolBits : UInt64 := %d" % _bits(float("1e-%d" % c["mattolExp"])),
        "/-- default `tol` of `rbdispchk` -/",
        "def rbdispTolExp : Nat := %d" % c["rbdispTolExp"],
        "def rbdispTolBits : UInt64 := %d" % _bits(float("1e-%d" % c["rbdispTolExp"])),
        "/-- defaults of `cbcheck` -/",
        "def emFiltDefault : Nat := %d" % c["emFiltDefault"],
        "def nFreeFreeDefault : Nat := %d" % c["nFreeFreeDefault"],
        "/-- shift of the free-free eigensolution -/",
        "def eigshSigmaBits : UInt64 := %d" % _bits(c["eigshSigma"]),
        "",
        "/-! ### n2p.rbgeom_uset / find_xyz_triples -/",
        "/-- `abs(loc2[1]) + abs(loc2[0]) > 1e-%d` -/" % c["tinyExp"],
        "def tinyExp : Nat := %d" % c["tinyExp"],
        "def tinyBits : UInt64 := %d" % _bits(c["tiny"]),
    ]
    L += _frac("xyzTol", c["xyzTolFrac"], "default `tol` of `find_xyz_triples` (%r)" % c["xyzTol"])
    L += ["", "end PyYetiVerif.Generated.RigidBodyConsts"]
    return "\n".join(L) + "\n"


def _lean_str(s):
    return '"' + s.replace("\\", "\\\\").replace('"', '\\"') + '"'


def run(repo, lean_dir):
    c = parse(repo)
    text = render(c)
    path = os.path.join(lean_dir, OUT)
    old = open(path, encoding="utf-8").read() if os.path.exists(path) else None
    if old != text:
        with open(path, "w", encoding="utf-8") as f:
            f.write(text)
    out = {k: (str(v) if isinstance(v, Fraction) else v) for k, v in c.items()}
    return ["RigidBodyConsts"], out


if __name__ == "__main__":
    import sys

    sys.stdout.write(render(parse(sys.argv[1] if len(sys.argv) > 1 else "/repo")))
