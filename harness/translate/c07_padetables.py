"""Translator for C07: pyyeti/expmint.py Pade tables -> lean/PyYetiVerif/Generated/PadeTables.lean.

Python `ast` only; no repo code is executed.  What is extracted

  * class `_ExpmIntPadeHelper`, methods pade3_i, pade5_i, pade7_i, pade9_i, pade13_scaled_i
    and class `_ExpmPadeHelper_SS`, methods pade3, pade5, pade7, pade9, pade13_scaled:
    every method body is executed *symbolically*; the returned U, V (and P, Q) become
    polynomials in the matrix, one coefficient per power, so that the generated Lean lists say
    which literal multiplies which power (the structure), together with the power of `h` in front
    and, for the scaled order-13 methods, the power of `2**-s` carried by every monomial;
  * function `_geti2`: the `if pade <= K:` blocks for K = 3, 5, 7, 9 (P, Q, `(h * h) *` factor);
  * the branch thresholds of `expmint` and `_expm_SS` (eta tests, `theta_13`), which method each
    branch calls, and the `getEPQ` switch (`norm1 <= 2.0978...` -> getEPQ1 else getEPQ2);
  * the call shapes `mf._solve_P_Q(U, V)` (exp) and `_solve_P_Q_2(P, Q)` (integrals) — numerator
    first, denominator second;
  * the driver logic of `expmint` / `_expm_SS` (which norm quantities enter `eta_1..eta_5`, the doubles of the
    thresholds, the scaling rule `max(int(np.<round>(np.<log>(eta_5 / theta_13))), 0)` with its nilpotent guard, the
    `_ell` increment, the squaring loop `for _ in range(<expr>)` with its body), the `np.allclose(I_test, I)`
    tolerances of `_geti2` (numpy defaults unless given), the two power-series loops (`tol`, `maxloops`, start `j`,
    loop condition, body, raise test) of `_geti2` / `expmint_pow`, the assignments of `_procBhalf` and the norm
    expression of `getEPQ` — statements as `ast.unparse` normal forms, pinned by theorem `driver_logic_pinned`.

Literals are taken as the exact rationals of their *decimal text*; where the nearest double is a
different number (six + six literals of the order-9 table of `_geti2`) the double is emitted too.
`U, V = self.pade7()` / `self.pade9()` are inherited from scipy's `_ExpmPadeHelper` (not in
/repo): the generated file states scipy's `b` tables as TRUSTED hand constants; the
correspondence check compares them with the executed scipy methods on every run.

Grammar of a method body (anything else raises TranslateError -> the tie is broken):

    stmt ::= NAME = ( float-literal , ... )                      table
           | NAME = expr | NAME[:n] += expr | n = self.nss
           | U, V = self.pade7() | U, V = self.pade9()
           | return NAME, NAME [, NAME, NAME]
    expr ::= number | NAME | NAME[int] | self.A | self.A<k> | self.ident | self.ssA | H.<same>
           | expr + expr | expr * expr (at most one matrix factor) | 2 ** -s | 2 ** (-k * s)
           | mf._smart_matrix_product(expr, expr, structure=...) | np.dot(expr, expr)
           | matrix[<slices>]   (block selection inside the augmented matrix: transparent)
"""
import ast
import json
import os
from fractions import Fraction

SRC = os.path.join("pyyeti", "expmint.py")
INT_METHODS = [("pade3_i", 3), ("pade5_i", 5), ("pade7_i", 7), ("pade9_i", 9), ("pade13_scaled_i", 13)]
SS_METHODS = [("pade3", 3), ("pade5", 5), ("pade7", 7), ("pade9", 9), ("pade13_scaled", 13)]
GETI2_ORDERS = [3, 5, 7, 9]

# scipy.sparse.linalg._matfuncs._ExpmPadeHelper.pade7 / pade9 (TRUSTED constants, cross-checked
# behaviourally by the correspondence check on every run)
SCIPY_B = {
    7: [17297280, 8648640, 1995840, 277200, 25200, 1512, 56, 1],
    9: [17643225600, 8821612800, 2075673600, 302702400, 30270240, 2162160, 110880, 3960, 90, 1],
}


class TranslateError(Exception):
    pass


def _bad(node, msg):
    raise TranslateError("line %s: %s" % (getattr(node, "lineno", "?"), msg))


class Mono(dict):
    """polynomial: {(deg, sigma_pow, h_pow): Fraction}; value = sum c * A^deg * (2**-s)^sigma * h^hpow"""

    @staticmethod
    def scalar(c, sig=0, hp=0):
        return Mono({(0, sig, hp): Fraction(c)})

    def is_scalar(self):
        return all(k[0] == 0 for k in self) and not getattr(self, "matrix", False)

    def add(self, o):
        r = Mono(self)
        for k, v in o.items():
            r[k] = r.get(k, 0) + v
        r.matrix = getattr(self, "matrix", False) or getattr(o, "matrix", False)
        return r

    def mul(self, o):
        r = Mono()
        for (d1, s1, h1), v1 in self.items():
            for (d2, s2, h2), v2 in o.items():
                k = (d1 + d2, s1 + s2, h1 + h2)
                r[k] = r.get(k, 0) + v1 * v2
        r.matrix = getattr(self, "matrix", False) or getattr(o, "matrix", False)
        return r


def _matrix(deg):
    m = Mono({(deg, 0, 0): Fraction(1)})
    m.matrix = True
    return m


class Sym:
    """symbolic execution of one method body"""

    def __init__(self, text, owner_names, args):
        self.text = text
        self.owner = owner_names  # names that denote the helper object: "self" / "H"
        self.env = {}
        self.tables = {}  # name -> (list of Fraction (decimal text), list of Fraction (double))
        self.inherited = None
        self.ret = None
        for a in args:
            if a == "h":
                self.env["h"] = Mono.scalar(1, 0, 1)
            elif a == "s":
                self.env["s"] = "s"

    # ---- literals ---------------------------------------------------------------------
    def literal(self, n):
        sign = 1
        if isinstance(n, ast.UnaryOp) and isinstance(n.op, ast.USub):
            sign, n = -1, n.operand
        if not (isinstance(n, ast.Constant) and isinstance(n.value, (int, float)) and not isinstance(n.value, bool)):
            _bad(n, "table entry is not a number literal")
        txt = ast.get_source_segment(self.text, n)
        try:
            dec = Fraction(txt.replace("_", ""))
        except (ValueError, ZeroDivisionError):
            _bad(n, "cannot read literal %r" % txt)
        return sign * dec, sign * Fraction(float(n.value))

    # ---- expressions ------------------------------------------------------------------
    def sigma(self, n):
        """2 ** -s  |  2 ** (-k * s)  ->  sigma power, else None"""
        if not (isinstance(n, ast.BinOp) and isinstance(n.op, ast.Pow)):
            return None
        if not (isinstance(n.left, ast.Constant) and n.left.value == 2 and not isinstance(n.left.value, bool)):
            return None
        e = n.right
        if isinstance(e, ast.UnaryOp) and isinstance(e.op, ast.USub) and isinstance(e.operand, ast.Name) \
                and self.env.get(e.operand.id) == "s":
            return 1
        if isinstance(e, ast.BinOp) and isinstance(e.op, ast.Mult) and isinstance(e.right, ast.Name) \
                and self.env.get(e.right.id) == "s":
            k = e.left
            if isinstance(k, ast.UnaryOp) and isinstance(k.op, ast.USub) and isinstance(k.operand, ast.Constant) \
                    and isinstance(k.operand.value, int) and k.operand.value > 0:
                return k.operand.value
        return None

    def attr(self, n):
        if isinstance(n.value, ast.Name) and n.value.id in self.owner:
            a = n.attr
            if a == "ident":
                return _matrix(0)
            if a in ("A", "ssA"):
                return _matrix(1)
            if a[0] == "A" and a[1:].isdigit() and 2 <= int(a[1:]) <= 10:
                return _matrix(int(a[1:]))
        _bad(n, "unsupported attribute %s" % ast.dump(n)[:60])

    def expr(self, n):
        if isinstance(n, ast.Constant):
            if isinstance(n.value, (int, float)) and not isinstance(n.value, bool):
                return Mono.scalar(self.literal(n)[0])
            _bad(n, "unsupported constant")
        if isinstance(n, ast.Name):
            v = self.env.get(n.id)
            if isinstance(v, Mono):
                return v
            _bad(n, "unknown or non-value name %s" % n.id)
        if isinstance(n, ast.Attribute):
            return self.attr(n)
        if isinstance(n, ast.Subscript):
            if isinstance(n.value, ast.Name) and n.value.id in self.tables:
                i = n.slice
                if isinstance(i, ast.Constant) and isinstance(i.value, int):
                    tab = self.tables[n.value.id][0]
                    if 0 <= i.value < len(tab):
                        return Mono.scalar(tab[i.value])
                _bad(n, "table index out of range / not a literal")
            v = self.expr(n.value)  # block selection of a matrix: transparent
            if not getattr(v, "matrix", False):
                _bad(n, "subscript on a non-matrix")
            return v
        s = self.sigma(n)
        if s is not None:
            return Mono.scalar(1, s, 0)
        if isinstance(n, ast.BinOp) and isinstance(n.op, ast.Add):
            return self.expr(n.left).add(self.expr(n.right))
        if isinstance(n, ast.BinOp) and isinstance(n.op, ast.Mult):
            l, r = self.expr(n.left), self.expr(n.right)
            if getattr(l, "matrix", False) and getattr(r, "matrix", False):
                _bad(n, "elementwise product of two matrices")
            return l.mul(r)
        if isinstance(n, ast.Call):
            f = n.func
            name = None
            if isinstance(f, ast.Attribute) and isinstance(f.value, ast.Name):
                name = f.value.id + "." + f.attr
            if name in ("mf._smart_matrix_product", "np.dot") and len(n.args) == 2:
                for kw in n.keywords:
                    if kw.arg != "structure":
                        _bad(n, "unexpected keyword %s" % kw.arg)
                l, r = self.expr(n.args[0]), self.expr(n.args[1])
                if not (getattr(l, "matrix", False) and getattr(r, "matrix", False)):
                    _bad(n, "matrix product of a non-matrix")
                return l.mul(r)
        _bad(n, "unsupported expression %s" % ast.dump(n)[:80])

    # ---- statements -------------------------------------------------------------------
    def run(self, stmts):
        for st in stmts:
            if self.ret is not None:
                _bad(st, "code after return")
            if isinstance(st, ast.Expr) and isinstance(st.value, ast.Constant) and isinstance(st.value.value, str):
                continue
            if isinstance(st, ast.Assign) and len(st.targets) == 1:
                t, v = st.targets[0], st.value
                if isinstance(t, ast.Name) and isinstance(v, ast.Tuple):
                    pairs = [self.literal(e) for e in v.elts]
                    self.tables[t.id] = ([p[0] for p in pairs], [p[1] for p in pairs])
                    continue
                if isinstance(t, ast.Name) and isinstance(v, ast.Attribute) and v.attr == "nss":
                    self.env[t.id] = "n"
                    continue
                if isinstance(t, ast.Tuple) and [getattr(e, "id", None) for e in t.elts] == ["U", "V"] \
                        and isinstance(v, ast.Call) and not v.args and not v.keywords \
                        and isinstance(v.func, ast.Attribute) and isinstance(v.func.value, ast.Name) \
                        and v.func.value.id in self.owner and v.func.attr in ("pade7", "pade9"):
                    self.inherited = int(v.func.attr[4:])
                    continue
                if isinstance(t, ast.Name):
                    self.env[t.id] = self.expr(v)
                    continue
            if isinstance(st, ast.AugAssign) and isinstance(st.op, ast.Add) and isinstance(st.target, ast.Subscript) \
                    and isinstance(st.target.value, ast.Name) and isinstance(self.env.get(st.target.value.id), Mono):
                # U[:n] += expr : the rows below n of every power >= 2 of the augmented matrix vanish
                self.env[st.target.value.id] = self.env[st.target.value.id].add(self.expr(st.value))
                continue
            if isinstance(st, ast.Return) and isinstance(st.value, ast.Tuple):
                names = [getattr(e, "id", None) for e in st.value.elts]
                if names not in (["U", "V"], ["U", "V", "P", "Q"]):
                    _bad(st, "unexpected return %s" % names)
                self.ret = names
                continue
            _bad(st, "unsupported statement %s" % type(st).__name__)
        if self.ret is None:
            raise TranslateError("method without return")


def _coeffs(mono, hp_expected, scaled):
    """-> (list of Fractions by degree, list of (deg, sigma, hpow))"""
    byd = {}
    shape = []
    for (d, sg, hp), c in sorted(mono.items()):
        if c == 0:
            continue
        if d in byd:
            raise TranslateError("two monomials of the same degree with different h/2**-s factors")
        byd[d] = c
        shape.append((d, sg, hp))
    n = max(byd) + 1 if byd else 0
    return [byd.get(d, Fraction(0)) for d in range(n)], shape


def _find(tree, kind, name):
    for n in tree.body:
        if isinstance(n, kind) and n.name == name:
            return n
    raise TranslateError("%s not found" % name)


def _method(cls, name):
    for n in cls.body:
        if isinstance(n, ast.FunctionDef) and n.name == name:
            return n
    raise TranslateError("%s.%s not found" % (cls.name, name))


def _threshold_chain(fn, text, owner):
    """`if eta_k < LIT and mf._ell(X.A, m) == 0:  U, V[, P, Q] = X.padem[_i](...)` -> [(m, LIT, method)]"""
    out = []
    theta13 = None
    for st in fn.body:
        if isinstance(st, ast.If) and isinstance(st.test, ast.BoolOp) and isinstance(st.test.op, ast.And) \
                and len(st.test.values) == 2:
            c, e = st.test.values
            if not (isinstance(c, ast.Compare) and len(c.ops) == 1 and isinstance(c.ops[0], ast.Lt)
                    and isinstance(c.left, ast.Name) and c.left.id.startswith("eta_")
                    and isinstance(c.comparators[0], ast.Constant)):
                _bad(st, "threshold test outside the grammar")
            if not (isinstance(e, ast.Compare) and len(e.ops) == 1 and isinstance(e.ops[0], ast.Eq)
                    and isinstance(e.left, ast.Call) and isinstance(e.left.func, ast.Attribute)
                    and e.left.func.attr == "_ell" and isinstance(e.left.args[1], ast.Constant)
                    and isinstance(e.comparators[0], ast.Constant) and e.comparators[0].value == 0):
                _bad(st, "`_ell` test outside the grammar")
            m = e.left.args[1].value
            lit = Fraction(ast.get_source_segment(text, c.comparators[0]))
            called = None
            for s2 in st.body:
                if isinstance(s2, ast.Assign) and isinstance(s2.value, ast.Call) \
                        and isinstance(s2.value.func, ast.Attribute) and isinstance(s2.value.func.value, ast.Name) \
                        and s2.value.func.value.id == owner:
                    called = s2.value.func.attr
            if called is None:
                _bad(st, "no pade method called in the branch")
            out.append((m, lit, c.left.id, called))
        if isinstance(st, ast.Assign) and isinstance(st.targets[0], ast.Name) and st.targets[0].id == "theta_13":
            theta13 = Fraction(ast.get_source_segment(text, st.value))
    if theta13 is None:
        raise TranslateError("%s: theta_13 not found" % fn.name)
    return out, theta13


def _solve_shapes(fn):
    """names of the first two arguments of every call of _solve_P_Q / _solve_P_Q_2 inside fn"""
    shapes = set()
    for n in ast.walk(fn):
        if isinstance(n, ast.Call):
            nm = n.func.attr if isinstance(n.func, ast.Attribute) else getattr(n.func, "id", None)
            if nm in ("_solve_P_Q", "_solve_P_Q_2") and len(n.args) >= 2:
                shapes.add((nm, getattr(n.args[0], "id", "?"), getattr(n.args[1], "id", "?")))
    return shapes



def _src(n):
    return ast.unparse(n)


def _driver_logic(fn, text, owner):
    """the non-table part of `expmint` / `_expm_SS`: eta definitions, the scaling rule, the `_ell` increment and the
    squaring loop -> dict (strings are `ast.unparse` normal forms)"""
    out = {"etas": [], "round": None, "log": None, "floor0": False, "zero_guard": False, "ell_added": False,
           "loop_range": None, "loop_body": None, "thr_double": []}
    for st in fn.body:
        if isinstance(st, ast.Assign) and len(st.targets) == 1 and isinstance(st.targets[0], ast.Name) \
                and st.targets[0].id.startswith("eta_") and isinstance(st.value, ast.Call) \
                and isinstance(st.value.func, ast.Name) and st.value.func.id in ("max", "min"):
            args = []
            for a in st.value.args:
                if isinstance(a, ast.Attribute) and isinstance(a.value, ast.Name) and a.value.id == owner:
                    args.append(a.attr)
                elif isinstance(a, ast.Name):
                    args.append(a.id)
                else:
                    _bad(st, "eta definition outside the grammar")
            out["etas"].append((st.targets[0].id, st.value.func.id, args))
        if isinstance(st, ast.If) and isinstance(st.test, ast.Compare) and isinstance(st.test.left, ast.Name) \
                and st.test.left.id == "eta_5":
            if not (len(st.test.ops) == 1 and isinstance(st.test.ops[0], ast.Eq)
                    and isinstance(st.test.comparators[0], ast.Constant) and st.test.comparators[0].value == 0
                    and len(st.body) == 1 and _src(st.body[0]) == "s = 0" and len(st.orelse) == 1):
                _bad(st, "nilpotent guard of the scaling exponent outside the grammar")
            out["zero_guard"] = True
            v = st.orelse[0]
            # s = max(int(np.<round>(np.<log>(eta_5 / theta_13))), 0)
            ok = isinstance(v, ast.Assign) and _src(v.targets[0]) == "s" and isinstance(v.value, ast.Call)
            c = v.value if ok else None
            if ok and isinstance(c.func, ast.Name) and c.func.id == "max" and len(c.args) == 2 \
                    and isinstance(c.args[1], ast.Constant) and c.args[1].value == 0:
                out["floor0"] = True
                c = c.args[0]
            if not (ok and isinstance(c, ast.Call) and isinstance(c.func, ast.Name) and c.func.id == "int"
                    and len(c.args) == 1 and isinstance(c.args[0], ast.Call)
                    and isinstance(c.args[0].func, ast.Attribute) and len(c.args[0].args) == 1
                    and isinstance(c.args[0].args[0], ast.Call)
                    and isinstance(c.args[0].args[0].func, ast.Attribute)
                    and _src(c.args[0].args[0].args[0]) == "eta_5 / theta_13"):
                _bad(st, "scaling exponent formula outside the grammar")
            out["round"] = c.args[0].func.attr
            out["log"] = c.args[0].args[0].func.attr
        if isinstance(st, ast.Assign) and _src(st.targets[0]) == "s" and "_ell" in _src(st.value):
            if _src(st.value) != "s + mf._ell(2 ** (-s) * %s.A, 13)" % owner:
                _bad(st, "`_ell` increment of s outside the grammar: %s" % _src(st.value))
            out["ell_added"] = True
        if isinstance(st, ast.For):
            if not (isinstance(st.iter, ast.Call) and isinstance(st.iter.func, ast.Name) and st.iter.func.id == "range"
                    and len(st.iter.args) == 1 and not st.orelse):
                _bad(st, "squaring loop outside the grammar")
            out["loop_range"] = _src(st.iter.args[0])
            out["loop_body"] = [_src(b) for b in st.body]
        if isinstance(st, ast.If) and isinstance(st.test, ast.BoolOp) and isinstance(st.test.op, ast.And) \
                and len(st.test.values) == 2 and isinstance(st.test.values[0], ast.Compare) \
                and isinstance(st.test.values[0].left, ast.Name) and st.test.values[0].left.id.startswith("eta_") \
                and isinstance(st.test.values[0].comparators[0], ast.Constant):
            out["thr_double"].append(Fraction(float(st.test.values[0].comparators[0].value)))
    if out["loop_range"] is None or out["round"] is None or not out["ell_added"]:
        raise TranslateError("%s: scaling rule / squaring loop not found" % fn.name)
    return out


def _while_loop(fn, what):
    """the single `while` loop of `_geti2` / `expmint_pow` with its constants"""
    consts = {}
    loop = None
    raise_test = None
    for st in ast.walk(fn):
        if isinstance(st, ast.Assign) and len(st.targets) == 1 and isinstance(st.targets[0], ast.Name) \
                and st.targets[0].id in ("tol", "maxloops", "j") and isinstance(st.value, ast.Constant):
            consts[st.targets[0].id] = Fraction(str(st.value.value)) if st.targets[0].id != "tol" else Fraction(repr(st.value.value))
        if isinstance(st, ast.While):
            if loop is not None:
                raise TranslateError("%s: more than one while loop" % what)
            loop = st
        if isinstance(st, ast.If) and len(st.body) == 1 and isinstance(st.body[0], ast.Raise) \
                and "maxloops" in _src(st.test):
            raise_test = _src(st.test)
    if loop is None or set(consts) != {"tol", "maxloops", "j"} or raise_test is None:
        raise TranslateError("%s: power-series loop outside the grammar" % what)
    return {"tol": consts["tol"], "maxloops": int(consts["maxloops"]), "j0": int(consts["j"]),
            "cond": _src(loop.test), "body": [_src(b) for b in loop.body], "raise": raise_test}


def _allclose_args(fn):
    """`np.allclose(I_test, I[, rtol=..][, atol=..])` inside `_geti2` (numpy defaults 1e-5 / 1e-8)"""
    found = None
    for n in ast.walk(fn):
        if isinstance(n, ast.Call) and isinstance(n.func, ast.Attribute) and n.func.attr == "allclose":
            if found is not None:
                raise TranslateError("_geti2: more than one allclose")
            kw = {"rtol": Fraction(1, 10 ** 5), "atol": Fraction(1, 10 ** 8)}
            pos = ["rtol", "atol"]
            if [_src(a) for a in n.args[:2]] != ["I_test", "I"]:
                raise TranslateError("_geti2: allclose arguments changed: %s" % _src(n))
            for k, a in zip(pos, n.args[2:]):
                if not isinstance(a, ast.Constant):
                    raise TranslateError("_geti2: allclose tolerance is not a literal")
                kw[k] = Fraction(repr(a.value))
            for k in n.keywords:
                if k.arg not in kw or not isinstance(k.value, ast.Constant):
                    raise TranslateError("_geti2: allclose keyword outside the grammar: %s" % _src(n))
                kw[k.arg] = Fraction(repr(k.value.value))
            found = kw
    if found is None:
        raise TranslateError("_geti2: allclose acceptance test not found")
    return found


def extract(text):
    """-> dict with everything the generated file and the behavioural cross-check need"""
    tree = ast.parse(text)
    res = {"int": {}, "ss": {}, "geti2": {}}
    for cname, key, methods, owner in (("_ExpmIntPadeHelper", "int", INT_METHODS, ("self",)),
                                       ("_ExpmPadeHelper_SS", "ss", SS_METHODS, ("self",))):
        cls = _find(tree, ast.ClassDef, cname)
        for mname, m in methods:
            fn = _method(cls, mname)
            args = [a.arg for a in fn.args.args][1:]
            want = {"pade13_scaled_i": ["s", "h"], "pade13_scaled": ["s"]}.get(mname, ["h"] if key == "int" else [])
            if args != want:
                raise TranslateError("%s.%s: signature changed: %s" % (cname, mname, args))
            sy = Sym(text, owner, args)
            sy.run(fn.body)
            ent = {"m": m, "name": mname, "inherited": sy.inherited, "tables": sy.tables, "ret": sy.ret}
            for nm in sy.ret:
                if nm in ("U", "V") and sy.inherited:
                    b = [Fraction(x) for x in SCIPY_B[sy.inherited]]
                    co = [b[d] if (d % 2 == 1) == (nm == "U") else Fraction(0) for d in range(len(b))]
                    while co and co[-1] == 0:
                        co.pop()
                    ent[nm] = (co, [(d, 0, 0) for d, c in enumerate(co) if c != 0])
                    continue
                v = sy.env.get(nm)
                if not isinstance(v, Mono):
                    raise TranslateError("%s.%s: %s is not a polynomial" % (cname, mname, nm))
                ent[nm] = _coeffs(v, None, m == 13)
            res[key][m] = ent
    # _geti2 -------------------------------------------------------------------------------
    g = _find(tree, ast.FunctionDef, "_geti2")
    if [a.arg for a in g.args.args] != ["H", "E", "I", "h", "pade"]:
        raise TranslateError("_geti2: signature changed")
    seen = []
    for st in g.body:
        if isinstance(st, ast.If) and isinstance(st.test, ast.Compare) and isinstance(st.test.left, ast.Name) \
                and st.test.left.id == "pade":
            if not (len(st.test.ops) == 1 and isinstance(st.test.ops[0], ast.LtE)
                    and isinstance(st.test.comparators[0], ast.Constant)) or st.orelse:
                _bad(st, "_geti2 branch test outside the grammar")
            K = st.test.comparators[0].value
            body = list(st.body)
            last = body.pop()
            if not (isinstance(last, ast.Return) and isinstance(last.value, ast.Call)
                    and getattr(last.value.func, "id", None) == "_solve_P_Q_2"
                    and [getattr(a, "id", None) for a in last.value.args[:2]] == ["P", "Q"]):
                _bad(last, "_geti2 branch must end with `return _solve_P_Q_2(P, Q, ...)`")
            sy = Sym(text, ("H",), ["h"])
            sy.run(body + [_fake_return()])
            ent = {"m": K, "tables": sy.tables}
            for nm in ("P", "Q"):
                v = sy.env.get(nm)
                if not isinstance(v, Mono):
                    raise TranslateError("_geti2 pade<=%s: %s is not a polynomial" % (K, nm))
                ent[nm] = _coeffs(v, None, False)
            seen.append((K, ent))
    # `pade` is 3, 5, 7, 9 or 13: the i-th block must be the one order GETI2_ORDERS[i] reaches
    # (first K >= order) and order 13 must fall through all of them
    ks = [k for k, _ in seen]
    if len(ks) != len(GETI2_ORDERS) or ks != sorted(ks) or not all(isinstance(k, int) for k in ks) or ks[-1] >= 13 \
            or [min([k for k in ks if k >= m] or [None]) for m in GETI2_ORDERS] != ks:
        raise TranslateError("_geti2: table branches `pade <= %s` do not select orders %s" % (ks, GETI2_ORDERS))
    for m, (K, ent) in zip(GETI2_ORDERS, seen):
        ent["m"] = m
        res["geti2"][m] = ent
    # double-valued versions of the geti2 tables (literals beyond 2**53)
    for K, ent in res["geti2"].items():
        ent["inexact"] = {nm: [i for i, (a, b) in enumerate(zip(*ent["tables"][nm])) if a != b] for nm in ("p", "q")}
    for key in ("int", "ss"):
        for m, ent in res[key].items():
            for nm, (dec, dbl) in ent["tables"].items():
                if dec != dbl:
                    raise TranslateError("%s pade%d: literal of table %s is not a double; the translator only "
                                         "supports that for _geti2" % (key, m, nm))
    # thresholds ---------------------------------------------------------------------------
    ex = _find(tree, ast.FunctionDef, "expmint")
    res["thr_expmint"], res["theta13_expmint"] = _threshold_chain(ex, text, "H")
    sx = _find(tree, ast.FunctionDef, "_expm_SS")
    res["thr_ss"], res["theta13_ss"] = _threshold_chain(sx, text, "h")
    want_i = [(3, "pade3_i"), (5, "pade5_i"), (7, "pade7_i"), (9, "pade9_i")]
    want_s = [(3, "pade3"), (5, "pade5"), (7, "pade7"), (9, "pade9")]
    if [(t[0], t[3]) for t in res["thr_expmint"]] != want_i:
        raise TranslateError("expmint: branch chain changed: %s" % res["thr_expmint"])
    if [(t[0], t[3]) for t in res["thr_ss"]] != want_s:
        raise TranslateError("_expm_SS: branch chain changed: %s" % res["thr_ss"])
    sh = _solve_shapes(ex)
    if sh != {("_solve_P_Q", "U", "V"), ("_solve_P_Q_2", "P", "Q")}:
        raise TranslateError("expmint: solve calls changed: %s" % sorted(sh))
    if _solve_shapes(sx) != {("_solve_P_Q", "U", "V")}:
        raise TranslateError("_expm_SS: solve calls changed")
    # getEPQ switch --------------------------------------------------------------------------
    ge = _find(tree, ast.FunctionDef, "getEPQ")
    sw = None
    for i, st in enumerate(ge.body):
        if isinstance(st, ast.If) and isinstance(st.test, ast.Compare) and isinstance(st.test.left, ast.Name) \
                and st.test.left.id == "norm1" and len(st.test.ops) == 1 \
                and isinstance(st.test.comparators[0], ast.Constant):
            op = {ast.LtE: "le", ast.Lt: "lt"}.get(type(st.test.ops[0]))
            r1 = st.body[0] if len(st.body) == 1 else None
            r2 = ge.body[i + 1] if i + 1 < len(ge.body) else None

            def callee(r):
                if isinstance(r, ast.Return) and isinstance(r.value, ast.Call) and isinstance(r.value.func, ast.Name):
                    if [getattr(a, "id", None) for a in r.value.args] == ["A", "h", "order", "B", "half"]:
                        return r.value.func.id
                return None

            if op is None or callee(r1) is None or callee(r2) is None or st.orelse:
                _bad(st, "getEPQ switch outside the grammar")
            sw = (Fraction(ast.get_source_segment(text, st.test.comparators[0])), op, callee(r1), callee(r2))
    if sw is None:
        raise TranslateError("getEPQ: switch not found")
    res["switch"] = sw
    # driver logic: scaling rule, squaring loop, acceptance test, series truncation rules, _procBhalf slicing ----
    res["logic_expmint"] = _driver_logic(ex, text, "H")
    res["logic_ss"] = _driver_logic(sx, text, "h")
    res["allclose"] = _allclose_args(g)
    res["series"] = _while_loop(g, "_geti2")
    res["pow"] = _while_loop(_find(tree, ast.FunctionDef, "expmint_pow"), "expmint_pow")
    pb = _find(tree, ast.FunctionDef, "_procBhalf")
    res["procbhalf"] = [_src(n) for n in ast.walk(pb) if isinstance(n, ast.Assign)]
    norm = [n for n in ge.body if isinstance(n, ast.Assign) and _src(n.targets[0]) == "norm1"]
    if len(norm) != 1:
        raise TranslateError("getEPQ: norm1 assignment not found")
    res["epq_norm"] = _src(norm[0].value)
    return res


def _fake_return():
    return ast.Return(value=ast.Tuple(elts=[ast.Name(id="U", ctx=ast.Load()), ast.Name(id="V", ctx=ast.Load())],
                                      ctx=ast.Load()))


# ---------------------------------------------------------------------------------------------
# Lean output


def _q(x):
    x = Fraction(x)
    if x.denominator == 1:
        return str(x.numerator) if x >= 0 else "(%d)" % x.numerator
    return "(%d / %d)" % (x.numerator, x.denominator)


def _list(xs):
    return "[" + ", ".join(_q(x) for x in xs) + "]"


def _shape(sh):
    return "[" + ", ".join("(%d, %d, %d)" % t for t in sh) + "]"


def render(res):
    o = [
        "/-! GENERATED by harness/translate/c07_padetables.py from pyyeti/expmint.py — do not edit.",
        "Pade numerators / denominators as polynomials in the matrix: entry `k` of a list is the",
        "coefficient of the `k`-th power (the literal the code multiplies that power with).",
        "`*_shape` lists, per monomial, (power of the matrix, power of `2**-s`, power of `h`).",
        "Literals are the exact rationals of the decimal text of the source. -/",
        "namespace PyYetiVerif.Generated.PadeTables",
        "",
    ]
    for key, title in (("int", "_ExpmIntPadeHelper.%s"), ("ss", "_ExpmPadeHelper_SS.%s")):
        for m, ent in sorted(res[key].items()):
            o.append("/-- expmint.py:" + title % ent["name"] + (" (U, V inherited from scipy pade%d: trusted constants)" % m
                                                         if ent["inherited"] else "") + " -/")
            o.append("def %s%d_inherited : Bool := %s" % (key, m, "true" if ent["inherited"] else "false"))
            for nm in ent["ret"]:
                co, sh = ent[nm]
                o.append("def %s%d_%s : List Rat := %s" % (key, m, nm, _list(co)))
                o.append("def %s%d_%s_shape : List (Nat × Nat × Nat) := %s" % (key, m, nm, _shape(sh)))
            o.append("")
    for K, ent in sorted(res["geti2"].items()):
        o.append("/-- expmint.py:_geti2, branch `pade <= %d` -/" % K)
        for nm in ("P", "Q"):
            co, sh = ent[nm]
            o.append("def geti2_%d_%s : List Rat := %s" % (K, nm, _list(co)))
            o.append("def geti2_%d_%s_shape : List (Nat × Nat × Nat) := %s" % (K, nm, _shape(sh)))
        for nm in ("p", "q"):
            o.append("/-- the raw tuple `%s` as the doubles the interpreter uses (differs from the decimal text at "
                     "indices %s) -/" % (nm, ent["inexact"][nm]))
            o.append("def geti2_%d_%s_text : List Rat := %s" % (K, nm, _list(ent["tables"][nm][0])))
            o.append("def geti2_%d_%s_double : List Rat := %s" % (K, nm, _list(ent["tables"][nm][1])))
        o.append("")
    o.append("/-- scipy `_ExpmPadeHelper.pade7/pade9` tables `b` (TRUSTED hand constants; compared with the executed")
    o.append("scipy methods by the correspondence check) -/")
    o.append("def scipy_b7 : List Rat := %s" % _list(SCIPY_B[7]))
    o.append("def scipy_b9 : List Rat := %s" % _list(SCIPY_B[9]))
    o.append("")
    o.append("/-- expmint: (order, threshold) of the `eta < threshold and _ell(A, order) == 0` chain -/")
    o.append("def expmint_thresholds : List (Nat × Rat) := [" +
             ", ".join("(%d, %s)" % (t[0], _q(t[1])) for t in res["thr_expmint"]) + "]")
    o.append("def expmint_theta13 : Rat := %s" % _q(res["theta13_expmint"]))
    o.append("/-- _expm_SS (getEPQ2): the same chain -/")
    o.append("def ss_thresholds : List (Nat × Rat) := [" +
             ", ".join("(%d, %s)" % (t[0], _q(t[1])) for t in res["thr_ss"]) + "]")
    o.append("def ss_theta13 : Rat := %s" % _q(res["theta13_ss"]))
    sw = res["switch"]
    o.append("/-- getEPQ: `norm1 <= switch` -> getEPQ1, else getEPQ2 -/")
    o.append("def epq_switch : Rat := %s" % _q(sw[0]))
    o.append("def epq_switch_inclusive : Bool := %s" % ("true" if sw[1] == "le" else "false"))
    o.append("def epq_switch_below_is_epq1 : Bool := %s" % ("true" if (sw[2], sw[3]) == ("getEPQ1", "getEPQ2") else "false"))
    o.append("")
    o.append("/-! driver logic (scaling rule, squaring loops, acceptance test, truncation rules); statements as")
    o.append("`ast.unparse` normal forms -/")

    def _strs(xs):
        return "[" + ", ".join(json.dumps(x) for x in xs) + "]"

    for key, lg in (("expmint", res["logic_expmint"]), ("ss", res["logic_ss"])):
        o.append("def %s_thresholds_double : List Rat := %s" % (key, _list(lg["thr_double"])))
        o.append("def %s_eta_defs : List (String × String × List String) := [%s]" % (
            key, ", ".join("(%s, %s, %s)" % (json.dumps(a), json.dumps(b), _strs(c)) for a, b, c in lg["etas"])))
        o.append("def %s_scaling_round : String := %s" % (key, json.dumps(lg["round"])))
        o.append("def %s_scaling_log : String := %s" % (key, json.dumps(lg["log"])))
        o.append("def %s_scaling_floor0 : Bool := %s" % (key, "true" if lg["floor0"] else "false"))
        o.append("def %s_scaling_zero_guard : Bool := %s" % (key, "true" if lg["zero_guard"] else "false"))
        o.append("def %s_scaling_ell_added : Bool := %s" % (key, "true" if lg["ell_added"] else "false"))
        o.append("def %s_loop_range : String := %s" % (key, json.dumps(lg["loop_range"])))
        o.append("def %s_loop_body : List String := %s" % (key, _strs(lg["loop_body"])))
    o.append("/-- `np.allclose(I_test, I)` of `_geti2` (numpy's defaults unless given) -/")
    o.append("def geti2_allclose_rtol : Rat := %s" % _q(res["allclose"]["rtol"]))
    o.append("def geti2_allclose_atol : Rat := %s" % _q(res["allclose"]["atol"]))
    for key, lp in (("geti2_series", res["series"]), ("pow", res["pow"])):
        o.append("def %s_tol : Rat := %s" % (key, _q(lp["tol"])))
        o.append("def %s_maxloops : Nat := %d" % (key, lp["maxloops"]))
        o.append("def %s_j0 : Nat := %d" % (key, lp["j0"]))
        o.append("def %s_cond : String := %s" % (key, json.dumps(lp["cond"])))
        o.append("def %s_body : List String := %s" % (key, _strs(lp["body"])))
        o.append("def %s_raise : String := %s" % (key, json.dumps(lp["raise"])))
    o.append("def procbhalf_assignments : List String := %s" % _strs(res["procbhalf"]))
    o.append("def epq_norm_expr : String := %s" % json.dumps(res["epq_norm"]))
    o.append("")
    o.append("end PyYetiVerif.Generated.PadeTables")
    return "\n".join(o) + "\n"


def run(repo, lean_dir):
    src = os.path.join(repo, SRC)
    text = open(src, encoding="utf-8").read()
    res = extract(text)
    out = render(res)
    dst = os.path.join(lean_dir, "PyYetiVerif", "Generated", "PadeTables.lean")
    old = open(dst, encoding="utf-8").read() if os.path.exists(dst) else None
    if old != out:
        with open(dst, "w", encoding="utf-8") as f:
            f.write(out)
    return ["PadeTables.lean"], res


if __name__ == "__main__":
    import sys

    print(render(extract(open(sys.argv[1]).read())))
