"""C05 — rainflow: C and Python agree with ASTM E1049 (DESIGN.md section 6/C05).

Tie: exact correspondence between the Lean model (lean/PyYetiVerif/Model/Rainflow.lean, run
over Int through Drivers/C05.lean) and
  * pyyeti.rainflow.py_rain (plain Python; the numba-decorated definition is the same source
    text, numba is not installed in this sandbox),
  * pyyeti/rainflow/c_rain.c compiled here from the working tree, with and without
    USE_FASTER_RAINFLOW_ROUTINE,
  * the cyclecount.rainflow wrapper.
Inputs are integers / dyadic rationals, so IEEE arithmetic is exact and the Int model is the
implementation's true semantics.
"""
import importlib
import importlib.util
import itertools
import warnings
import os
import shutil
import subprocess
import sys
import sysconfig
import tempfile

import numpy as np

from runner import Infra, TieBroken, isolated_map, generated_changed

ID = "C05"
LEAN_MODULES = ["PyYetiVerif.Props.C05", "PyYetiVerif.Props.C05Gen", "PyYetiVerif.Props.C05Struct",
                "PyYetiVerif.Props.C05TwoPass", "PyYetiVerif.Props.C05Dup", "PyYetiVerif.Props.C05Plateau",
                "PyYetiVerif.Audit.C05"]
AUDIT_FILE = "PyYetiVerif/Audit/C05.lean"
THEOREMS = [
    "PyYetiVerif.C05." + n
    for n in (
        "count_total rows_total cycle_values cycle_values_abs offsets_variant_agrees "
        "loop_exit refines_astm negate shift scale largest_range_counted largest_range_needs_reversals "
        # the source as translated (Generated/PyRain.lean, Generated/RainflowWrap.lean) is the model
        "generated_rainflow1_eq_model generated_rainflow2_eq_model generated_entry_eq_model "
        "generated_wrapper_eq_model generated_rainflow2_eq_model_field "
        "generated_c_rainflow1_eq_model generated_c_rainflow2_eq_model generated_c_eq_generated_py "
        # the two-pass build of c_rain.c (macro not defined): Props/C05TwoPass.lean
        "generated_c_rainflow1_twopass_eq_model generated_c_rainflow2_twopass_eq_model "
        "generated_c_twopass_eq_fast twopass_count_eq_length "
        # entry points
        "entry_refuses_iff entry_other_errors entry_impls_agree_partial entry_impls_agree_needs_safe "
        "entry_result_shape wrapper_is_relabel call_history_irrelevant "
        # structure of the table
        "rows_in_closing_order full_cycles_laminar starts_stops_unique residual_half_cycles_chain "
        "duplicate_first range_le_overall duplicate_first_field plateau_erases_point "
        "duplicate_insertion_not_harmless monotone_points_are_counted "
        # duplicate_insertion for interior points, exact condition: Props/C05Dup.lean
        "duplicate_insertion_interior "
        # runs of k >= 2 equal points: Props/C05Plateau.lean
        "plateau_zero_rows plateau_insertion_general plateau_ends_record plateau_at_start "
        "rainflow_plateau_parity rainflow_plateau_compress_false"
    ).split()
]
TRUSTED = [
    "correspondence harness harness/props/c05.py (exact comparison: integers for the list model, IEEE bit patterns "
    "for the generated programs and the entry model run at Float)",
    "translator harness/translate/c05_pyrain.py (Python ast; grammar and embedding semantics in its docstring and in "
    "Model/RainflowImp.lean; anything outside the grammar breaks the tie); its output is compared bit for bit with "
    "py_rain on every run",
    "translator harness/translate/c05_crain.py (a C-subset parser for rainflow1/rainflow2 of c_rain.c and the numpy "
    "C-API idioms listed in its docstring: calloc, PyArray_SimpleNew, PyArray_DATA cursors, the slice-and-return block); "
    "its output for both macro settings is compared bit for bit with the gcc build on every run",
    "gcc build of c_rain.c from the working tree (both settings of USE_FASTER_RAINFLOW_ROUTINE); the C entry function "
    "`rainflow` (argument parsing, PyArray_FROM_OTF) is tied by correspondence only",
    "numpy's conversion of the caller's object to an array (np.atleast_1d / PyArray_FROM_OTF) and pandas' DataFrame "
    "constructor: observed by the container/dtype streams, not modelled",
    "Lean's Float is the machine's IEEE double (used only to run the generated programs, never in a proof)",
    "numba-decorated py_rain is the same source text as plain py_rain (numba not installed: not executed)",
    "for doubles whose differences round, agreement with the real-number ASTM procedure is not claimed",
]
RULE = (
    "sequences over small integer alphabets (exhaustive by length) plus seeded random integer/"
    "dyadic sequences with ties, plateaus and monotone runs; a case is one (sequence) compared on "
    "all seven implementation variants; non-trivial = length >= 3 and at least one cycle is closed "
    "inside the loop (step 4 or 5) before step 6; distinct by the sequence itself. Generated programs and entry model: "
    "the same sequences plus arbitrary finite doubles (not dyadic: differences round), compared by bit pattern; "
    "containers/dtypes/shapes: every variant of a base sequence (list, tuple, Series with default/permuted/reversed "
    "index, Index, memoryview, array.array, range, 0-d, 1xn, nx1, 3-d, empty, one point, bool/int*/uint*/float16/32/64/"
    "longdouble, strided/negative-stride/Fortran/read-only/byte-swapped/unaligned views) on every entry point; call "
    "sequences: random sessions of calls with getoffsets omitted / keyword / positional and use_pandas omitted/True/False "
    "on one set of modules; plateau oracle: records over 3..10 pairwise distinct integers with 1..3 positions replaced by runs "
    "of 2..6 copies (start, interior, end), each compared with its parity-compressed record on every implementation. NaN/inf inputs, complex, object and masked arrays are outside the property's domain: "
    "skipped and counted."
)
ASSUMPTIONS = [
    "float arithmetic on the generated integer/dyadic inputs is exact",
    "theorems about the translated source are over any element type whose abs(a-b) is the model's |a-b| (every ordered "
    "field); at IEEE doubles the translated program is run, not proved about",
]
MANIFEST = {
    "level_text": "Proof (Lean 4, kernel-checked, standard axioms only). (1) About an exact list model of the rainflow "
    "stack machine: 2*sum(count) = L-1, row count, every row carries the range/sum of the two points its offsets name "
    "(start < stop < L), the offsets-free variant computes the same table, the loop exits exactly where the code's "
    "tests say, the code's `j == 2` test equals ASTM E1049's 'Y contains the starting point S' (refinement of an "
    "explicit-S transcription of the standard), negate/shift/scale equivariance over any ordered field, the overall "
    "range is counted for strictly alternating input; structure of the table: rows are listed in closing order (no "
    "later row has an endpoint inside an earlier one; full cycles are nested or disjoint; every index is start of at "
    "most one row and stop of at most one), the half cycles form one chain 0 = s1 < e1 = s2 < ... = L-1, every range "
    "is at most the overall range, and exactly what a plateau does (a repeated first point only adds a zero half "
    "cycle; an interior plateau is counted as a zero full cycle that ERASES the point from the stack). (2) About the "
    "source itself: harness/translate/c05_pyrain.py re-emits py_rain.py (`rainflow`, `_rainflow1`, `_rainflow2`) and "
    "the import block + wrapper of cyclecount.py, harness/translate/c05_crain.py (a C-subset parser) re-emits "
    "`rainflow1`/`rainflow2` of c_rain.c for both macro settings, as shallow embeddings (arrays, indices j/n, pointer "
    "bumps `*rf++`, in-place writes, break, the final slice; failure on any out-of-range index, unwritten cell or "
    "exhausted fuel) and Lean proves for all inputs that the Python programs and the C programs of BOTH "
    "configurations (USE_FASTER_RAINFLOW_ROUTINE defined = shipped, and the two-pass build without it, whose tables "
    "are allocated with exactly the row count pass one has counted: the rows written so far are a prefix of the final "
    "table) never fail and compute the model's table (generated_*_eq_model, generated_c_*_eq_model, "
    "generated_c_*_twopass_eq_model, generated_c_twopass_eq_fast, generated_c_eq_generated_py), so every theorem "
    "holds of what the source says now. A repeated interior point is kept (zero half cycle) iff it is the last "
    "point, otherwise both copies are erased as one zero full cycle (duplicate_insertion_interior); runs of any length "
    "compress by parity, not to one point (plateau_insertion_general, plateau_at_start, rainflow_plateau_parity, "
    "rainflow_plateau_compress_false). (3) Entry points: ValueError iff not a vector of >= 2 points, result shape, the wrapper is "
    "a relabelling, results do not depend on the call history. Tie: the translator (regenerated and re-proved every "
    "run) + exact correspondence of model, generated programs (bit for bit at IEEE doubles, including non-dyadic "
    "values) and entry model with py_rain, gcc-built c_rain (both macro settings) and the wrapper over containers, "
    "dtypes, shapes and call sequences.",
    "level_note": "Trusted: Lean kernel; propext, Classical.choice, Quot.sound; the Python harness and translator; gcc; "
    "numpy's array conversion and pandas' DataFrame constructor (observed, not modelled). The C entry function "
    "(PyArg_ParseTupleAndKeywords, PyArray_FROM_OTF, the ndim/L test) is tied by correspondence only (the two-pass C "
    "variant is proved like the shipped one and additionally compared bit for bit with its own gcc build). Theorems are over exact arithmetic: for doubles whose differences round, C and Python "
    "perform identical IEEE operations (checked bit for bit against the translated program) but agreement with the "
    "real-number ASTM procedure is not claimed. 'largest range is always counted' is proved for true reversal "
    "sequences only (`[0,1,2]` shows the hypothesis is necessary). The two implementations agree only for dtypes that "
    "cast safely to float64: for np.longdouble (also complex, object) c_rain raises TypeError where py_rain counts "
    "(entry_impls_agree_partial; reported as a failing input). numba variant = same source text, not executed. The plateau "
    "theorems are about one run; that they compose over several runs in one record (pairwise distinct other values) is "
    "measured on py_rain, both c_rain builds and the wrapper (oracle families plateau-parity, plateau-zero-rows), not proved.",
    "technique": "Lean 4 proof (induction over the stack machine, refinement to an ASTM spec, refinement of "
    "source-to-Lean shallow embeddings of py_rain.py, cyclecount.py and c_rain.c to the model) + exact differential correspondence "
    "with py_rain, gcc-built c_rain and the wrapper",
}
PARTIAL = (
    "entry_impls_agree (py_rain and c_rain are the same function of (peaks, getoffsets)) is proved only for arrays "
    "whose dtype casts safely to float64 (entry_impls_agree_partial); entry_impls_agree_needs_safe shows the "
    "hypothesis is necessary: for np.longdouble / complex / object arrays c_rain raises TypeError where py_rain "
    "returns a table. duplicate_insertion is false as first stated; what is true is proved in full: duplicate_first "
    "(first point: one zero half cycle in front), duplicate_insertion_interior (a copy of an interior point whose "
    "neighbour below on the stack differs is KEPT as a zero half cycle iff it is the last point of the input, and "
    "ERASED together with the original as one zero FULL cycle as soon as any point follows), plateau_erases_point, "
    "the counterexample duplicate_insertion_not_harmless; runs of any length k >= 2: plateau_at_start (k-1 zero half cycles, "
    "then the compressed record), plateau_insertion_general / plateau_ends_record (interior or last position, stack "
    "x :: w :: rest with w != x: a run of 2j+1 gains j zero full cycles and continues like ONE copy, a run of 2j+2 gains "
    "j zero full cycles and continues like TWO copies), rainflow_plateau_parity (offset-free table: runs compress by "
    "parity) and rainflow_plateau_compress_false (compressing every run to one point does NOT preserve the non-zero "
    "rows); these are stated for ONE run relative to the machine state before it (hypothesis w != x: the point under the "
    "run on the stack has a different value, which an input without plateaus can violate, e.g. 5,2,3,5); a whole-record "
    "statement over all runs at once is only checked by the model-free oracle (families plateau-parity, "
    "plateau-zero-rows: records over pairwise distinct values with runs of 2..6 copies), not proved. "
    "c_rain.c: rainflow1/rainflow2 are translated AND proved equal to the model for both macro settings "
    "(generated_c_rainflow1/2_eq_model for the shipped one, which also pin `shippedFast = true`; "
    "generated_c_rainflow1/2_twopass_eq_model for the two-pass build); the C entry function `rainflow` (O|p parsing, "
    "PyArray_FROM_OTF) is modelled by hand (cEntry) and tied by correspondence."
)


def translate(ctx):
    from translate import c05_pyrain

    c05_pyrain.generate(ctx.repo, ctx.lean)
    c05_pyrain.generate_wrapper(ctx.repo, ctx.lean)
    from translate import c05_crain

    c05_crain.generate(ctx.repo, ctx.lean)
    return ["PyRain.lean", "RainflowWrap.lean", "CRain.lean"]


def _build_c(repo):
    """Compile c_rain.c from the working tree, with and without the macro."""
    src = os.path.join(repo, "pyyeti", "rainflow", "c_rain.c")
    text = open(src).read()
    tmp = tempfile.mkdtemp(prefix="verif_c05_")
    mods = {}
    inc = [sysconfig.get_paths()["include"], np.get_include()]
    ext = sysconfig.get_config_var("EXT_SUFFIX") or ".so"
    try:
        for tag in ("fast", "slow"):
            d = os.path.join(tmp, tag)
            os.makedirs(d)
            t = text
            if tag == "slow":
                lines = [
                    l for l in t.split("\n") if l.strip() != "#define USE_FASTER_RAINFLOW_ROUTINE"
                ]
                if len(lines) == len(t.split("\n")):
                    # macro line not found: the fast variant is then the only one that exists
                    continue
                t = "\n".join(lines)
            cfile = os.path.join(d, "c_rain.c")
            open(cfile, "w").write(t)
            so = os.path.join(d, "c_rain" + ext)
            cmd = ["gcc", "-shared", "-fPIC", "-O2", "-fno-strict-aliasing"] + ["-I" + i for i in inc] + [cfile, "-o", so, "-lm"]
            p = subprocess.run(cmd, capture_output=True, text=True)
            if p.returncode != 0:
                raise Infra("gcc failed on c_rain.c (%s):\n%s" % (tag, p.stderr[-1500:]))
            spec = importlib.util.spec_from_file_location("c_rain", so)
            m = importlib.util.module_from_spec(spec)
            spec.loader.exec_module(m)
            mods[tag] = m
    finally:
        shutil.rmtree(tmp, ignore_errors=True)
    return mods


def _impls(ctx):
    from pyyeti.rainflow import py_rain
    from pyyeti import cyclecount

    c = _build_c(ctx.repo)
    impls = {
        "py": py_rain.rainflow,
        "cfast": c["fast"].rainflow,
    }
    if "slow" in c:
        impls["cslow"] = c["slow"].rainflow
    impls["wrapper"] = lambda p, getoffsets=False: cyclecount.rainflow(p, getoffsets, use_pandas=False)
    return impls


def _canon(rf, os_, scale):
    """rows -> tuples of ints (rng, sum, full, s, e); None when a value is not integral."""
    rf = np.asarray(rf)
    rows = []
    r2 = rf[:, 0] * (2 * scale)
    s2 = rf[:, 1] * (2 * scale)
    for i in range(rf.shape[0]):
        a, b, cnt = r2[i], s2[i], rf[i, 2]
        if a != int(a) or b != int(b) or cnt not in (0.5, 1.0):
            return ("non-integral", rf.tolist())
        row = (int(a), int(b), 1 if cnt == 1.0 else 0)
        if os_ is not None:
            row = row + (int(os_[i][0]), int(os_[i][1]))
        rows.append(row)
    return rows


def _call(fn, seq, scale, offs):
    x = np.array(seq, dtype=float) / scale
    try:
        if offs:
            rf, os_ = fn(x, getoffsets=True)
            os_ = np.asarray(os_)
            if os_.shape != (np.asarray(rf).shape[0], 2):
                return ("bad-shape", list(os_.shape))
            return _canon(rf, os_, scale)
        rf = fn(x, getoffsets=False) if fn.__name__ != "<lambda>" else fn(x)
        return _canon(rf, None, scale)
    except ValueError:
        return "value-error"


def _parse_model(rep, offs):
    if rep in ("value-error", "bad-op"):
        return rep
    if rep == "":
        return []
    rows = []
    for r in rep.split(";"):
        rows.append(tuple(int(t) for t in r.split()))
    return rows


def _gen_random(ctx, n):
    rng = ctx.rng
    out = []
    for _ in range(n):
        kind = rng.random()
        if kind < 0.55:
            L = rng.randint(2, 40)
        elif kind < 0.95:
            L = rng.randint(2, 300)
        else:
            L = rng.randint(300, 1500)
        style = rng.choice(["small", "wide", "walk", "alternating", "plateau", "monotone-runs"])
        if style == "small":
            k = rng.randint(1, 6)
            seq = [rng.randint(-k, k) for _ in range(L)]
        elif style == "wide":
            seq = [rng.randint(-(10 ** 6), 10 ** 6) for _ in range(L)]
        elif style == "walk":
            v = 0
            seq = []
            for _ in range(L):
                v += rng.randint(-5, 5)
                seq.append(v)
        elif style == "alternating":
            seq = []
            v = 0
            sign = rng.choice([-1, 1])
            for _ in range(L):
                v = v + sign * rng.randint(1, 12)
                seq.append(v)
                sign = -sign
        elif style == "plateau":
            seq = []
            while len(seq) < L:
                seq += [rng.randint(-4, 4)] * rng.randint(1, 4)
            seq = seq[:L]
        else:
            seq = []
            v = 0
            while len(seq) < L:
                d = rng.choice([-1, 1]) * rng.randint(0, 3)
                for _ in range(rng.randint(1, 6)):
                    v += d
                    seq.append(v)
            seq = seq[:L]
        scale = rng.choice([1, 1, 2, 8, 1024])
        out.append((tuple(seq), scale, style))
    return out


def _corpus(ctx):
    path = os.path.join(ctx.verif, "corpus", "c05.json")
    import json

    if os.path.exists(path):
        return [(tuple(s), 1, "corpus") for s in json.load(open(path))]
    return []


def _inputs(ctx):
    cases = list(_corpus(ctx))
    amax, lmax = ctx.pick((3, 7), (4, 8))
    for L in range(2, lmax + 1):
        for seq in itertools.product(range(amax + 1), repeat=L):
            cases.append((seq, 1, "exhaustive"))
    ctx.extra["exhaustive_set"] = "all sequences over {0..%d} of length 2..%d" % (amax, lmax)
    cases += _gen_random(ctx, ctx.pick(6000, 60000))
    # malformed stream: the API refuses fewer than two points
    cases += [((), 1, "malformed"), ((5,), 1, "malformed")]
    return cases


def correspondence(ctx):
    impls = _impls(ctx)
    cases = _inputs(ctx)
    drv = ctx.driver("C05")
    req = []
    for seq, scale, style in cases:
        s = " ".join(str(v) for v in seq)
        req.append("rf " + s)
        req.append("rf1 " + s)
    rep = drv.ask(req)
    ctx.extra["impl_variants"] = sorted(impls)

    def run_impls(item):
        i, (seq, scale, style) = item
        res = {}
        for name, fn in impls.items():
            if name == "wrapper" and style == "exhaustive" and (i % 7):
                continue  # the wrapper is a thin pass-through: sample it
            res[name] = (_call(fn, seq, scale, True), _call(fn, seq, scale, False))
        return res

    impl_res = isolated_map(run_impls, list(enumerate(cases)))
    for i, (seq, scale, style) in enumerate(cases):
        m_off = _parse_model(rep[2 * i], True)
        m_pl = _parse_model(rep[2 * i + 1], False)
        nontriv = (
            isinstance(m_off, list)
            and len(seq) >= 3
            and any(not (r[3] + 1 == r[4] and r[2] == 0) for r in m_off[:1])
            or (isinstance(m_off, list) and any(r[2] == 1 for r in m_off))
        )
        ctx.case(seq if scale == 1 else (seq, scale), nontrivial=bool(nontriv), branch="style:" + style)
        if isinstance(m_off, list):
            if any(r[2] == 1 for r in m_off):
                ctx.count("branch:full-cycle(step4)")
            if any(r[2] == 0 and r[4] != r[3] + 1 for r in m_off):
                ctx.count("branch:half-nonadjacent")
        else:
            ctx.count("branch:" + str(m_off))
        if isinstance(impl_res[i], str):
            ctx.disagree("crash", {"seq": list(seq), "scale": scale}, impl_res[i], m_off)
            continue
        for name, pair in impl_res[i].items():
            for offs, want, got in ((True, m_off, pair[0]), (False, m_pl, pair[1])):
                if got != want:
                    ctx.disagree("%s-%s" % (name, "offsets" if offs else "plain"),
                                 {"seq": list(seq), "scale": scale}, got, want)
        if i % 20000 == 0:
            ctx.sample({"seq": list(seq)[:40], "scale": scale, "model_rows": m_off[:4] if isinstance(m_off, list) else m_off})
    ctx.exhaustive = False  # exhaustive only over the finite set named in extra.exhaustive_set
    _streams_float(ctx, impls, cases)
    ctx.require_branches([
        "branch:full-cycle(step4)", "branch:half-nonadjacent", "branch:value-error",
        "float:dyadic", "float:non-dyadic", "float:exact-tie",
        "reply:generated:tables", "reply:generated:table", "reply:generated:frames", "reply:generated:frame",
        "reply:generated:value-error", "stream:generated-c-2f", "stream:generated-c-1f", "stream:generated-c-2s",
        "stream:generated-c-1s", "reply:entry:tables", "reply:entry:table", "reply:entry:value-error",
        "reply:entry:type-error", "reply:wrapper:frames", "reply:wrapper:frame", "reply:wrapper:tables",
        "reply:wrapper:table", "reply:wrapper:value-error", "reply:call:value-error", "reply:call:tables",
        "reply:call:frames", "container:series", "container:memoryview", "container:0", "container:1xn",
        "container:nx1", "container:dtype", "container:unaligned", "callseq:session", "callseq:omitted-after-true",
    ])


# ---------------------------------------------------------------------------------------
# generated programs / entry model at IEEE doubles: requests and canonical forms


def _bits(a):
    return [int(v) for v in np.ascontiguousarray(np.asarray(a, dtype=np.float64)).view(np.uint64).ravel()]


def _nd(shape, data):
    return " ".join(str(int(d)) for d in shape) + " | " + " ".join(str(b) for b in _bits(data))


def _rows(a):
    a = np.asarray(a)
    if a.ndim != 2:
        return "bad-ndim-%d" % a.ndim
    if a.dtype == np.float64:
        v = np.ascontiguousarray(a).view(np.uint64)
    elif a.dtype.kind in "iu":
        v = a
    else:
        return "bad-dtype-%s" % a.dtype
    return ";".join(" ".join(str(int(x)) for x in row) for row in v)


def _canon_any(call):
    """run `call()` and put what the caller sees into the drivers' reply format"""
    import pandas as pd

    try:
        with np.errstate(all="ignore"), warnings.catch_warnings():
            warnings.simplefilter("ignore")
            r = call()
    except ValueError:
        return "value-error"
    except TypeError:
        return "type-error"
    except Exception as ex:  # noqa: BLE001  (an IndexError/KeyError escaping from the code under test is a result)
        return "raises-" + type(ex).__name__

    def frame(df, want_kind):
        if not isinstance(df, pd.DataFrame):
            return None
        idx = df.index
        if not (isinstance(idx, pd.RangeIndex) and idx.start == 0 and idx.step == 1 and idx.stop == len(df)):
            return "bad-index"
        a = df.to_numpy()
        if a.dtype.kind != want_kind:
            return "bad-dtype-%s" % a.dtype
        return ",".join(str(c) for c in df.columns) + "|" + _rows(a)

    if isinstance(r, tuple):
        if len(r) != 2:
            return "bad-tuple-%d" % len(r)
        f0, f1 = frame(r[0], "f"), frame(r[1], "i")
        if f0 is not None and f1 is not None:
            return "frames " + f0 + "|" + f1
        if f0 is not None or f1 is not None:
            return "bad-mixed"
        if not (isinstance(r[0], np.ndarray) and isinstance(r[1], np.ndarray)):
            return "bad-type"
        if r[0].dtype != np.float64 or r[1].dtype.kind != "i" or r[0].shape[1:] != (3,) or r[1].shape[1:] != (2,):
            return "bad-shape-%s-%s-%s-%s" % (r[0].dtype, r[0].shape, r[1].dtype, r[1].shape)
        return "tables " + _rows(r[0]) + "|" + _rows(r[1])
    f0 = frame(r, "f")
    if f0 is not None:
        return "frame " + f0
    if not isinstance(r, np.ndarray):
        return "bad-type"
    if r.dtype != np.float64 or r.shape[1:] != (3,):
        return "bad-shape-%s-%s" % (r.dtype, r.shape)
    return "table " + _rows(r)


def _gen_doubles(ctx, n):
    """arbitrary finite doubles (not dyadic: differences and sums round)"""
    g = ctx.np_rng(505)
    out = []
    for _ in range(n):
        L = int(g.integers(2, 60)) if g.random() < 0.9 else int(g.integers(60, 400))
        style = int(g.integers(0, 7))
        if style == 0:
            x = g.normal(size=L)
        elif style == 1:
            x = g.uniform(-1, 1, size=L) * 10.0 ** g.integers(-300, 300)
        elif style == 2:
            x = np.round(g.normal(size=L), 1)                      # many near ties, 0.1-grid (not dyadic)
        elif style == 3:
            x = 1.0 + g.integers(-3, 4, size=L) * 2.0 ** -52       # neighbours of 1.0
        elif style == 4:
            x = g.choice([0.1, 0.2, 0.3, 0.7, -0.1, -0.0, 0.0, 5e-324, -5e-324, 1e308, -1e308], size=L)
        elif style == 5:
            x = np.cumsum(g.normal(size=L))
        else:
            x = g.uniform(-1, 1, size=L) * g.choice([1e-310, 1.0, 1e300], size=L)
        out.append(np.asarray(x, dtype=np.float64))
    return out


class _Unaligned:
    pass


def _containers(x):
    """every container / dtype / shape variant of the float64 vector `x` (small integers):
    (kind, object, in-domain?)"""
    import array as pyarray
    import pandas as pd

    L = len(x)
    xi = x.astype(np.int64)
    perm = np.argsort((xi * 2654435761 + np.arange(L) * 40503) % 1000003, kind="stable")
    out = [
        ("list", x.tolist()), ("tuple", tuple(x.tolist())), ("list-int", [int(v) for v in xi]),
        ("series", pd.Series(x)), ("series-permuted-index", pd.Series(x, index=perm)),
        ("series-offset-index", pd.Series(x, index=np.arange(L) + 5)), ("series-reversed", pd.Series(x)[::-1]),
        ("series-str-index", pd.Series(x, index=["k%d" % i for i in range(L)])),
        ("index", pd.Index(x)), ("memoryview", memoryview(x.copy())), ("array.array-d", pyarray.array("d", x.tolist())),
        ("array.array-i", pyarray.array("i", [int(v) for v in xi])), ("range", range(L)),
        ("0-d-npfloat", np.float64(x[0])), ("0-d-array", np.array(x[0])), ("pyfloat", float(x[0])), ("pyint", int(xi[0])),
        ("1xn", x[None, :].copy()), ("nx1", x[:, None].copy()), ("3-d", x.reshape(1, 1, -1).copy()),
        ("list-of-lists", [x.tolist()]), ("empty-list", []), ("empty-array", np.zeros(0)), ("one-point", [float(x[0])]),
        ("one-point-array", x[:1].copy()), ("two-points", x[:2].copy()),
        ("strided", np.column_stack([x, x + 1])[:, 0]), ("negative-stride", x[::-1].copy()[::-1]),
        ("fortran-row", np.asfortranarray(np.vstack([x, x]))[0]), ("byteswapped", x.astype(">f8")),
    ]
    ro = x.copy()
    ro.setflags(write=False)
    out.append(("read-only", ro))
    buf = np.zeros(8 * L + 1, dtype=np.uint8)
    un = np.ndarray((L,), dtype=np.float64, buffer=buf, offset=1)
    un[:] = x
    out.append(("unaligned", un))
    for dt in ("int8", "int16", "int32", "int64", "uint8", "uint16", "uint32", "uint64", "float16", "float32",
               "float64", "longdouble"):
        y = (xi - xi.min()) if dt.startswith("u") else xi
        if np.abs(y).max() < 100:
            out.append(("dtype-" + dt, y.astype(dt)))
    out.append(("dtype-bool", xi > np.median(xi)))
    return out


def _nd_of(obj):
    """(shape, float64 data, casts-safely?) as numpy sees the object; None when it is outside the
    property's domain (complex, object, string arrays)"""
    a = np.asarray(obj)
    if a.dtype.kind not in "biuf":
        return None
    with np.errstate(all="ignore"):
        return a.shape, a.astype(np.float64).ravel(), bool(np.can_cast(a.dtype, np.float64, "safe"))


_GOPTS = [("-", ()), ("1", (True,)), ("0", (False,)), ("1", (1,)), ("0", (0,)), ("1", "kw-true"), ("0", "kw-false")]


def _call_with(fn, obj, gopt, up=None):
    args = gopt[1]
    kw = {}
    if args == "kw-true":
        args, kw = (), {"getoffsets": True}
    elif args == "kw-false":
        args, kw = (), {"getoffsets": False}
    if up is not None:
        kw["use_pandas"] = up
    return lambda: fn(obj, *args, **kw)


def _thunk(fn, obj, *args, **kw):
    """the call `fn(obj, *args, **kw)`, to be made later (in a forked child); arrays are handed over as fresh copies"""
    if isinstance(obj, np.ndarray) and type(obj) is np.ndarray and obj.flags.aligned and obj.flags.c_contiguous \
            and obj.dtype == np.float64 and obj.flags.writeable:
        return lambda: fn(obj.copy(), *args, **kw)
    return lambda: fn(obj, *args, **kw)


def _streams_float(ctx, impls, cases):
    """generated programs and entry model, run at IEEE doubles, against the real code"""
    from pyyeti.rainflow import py_rain
    from pyyeti import cyclecount

    rng = ctx.rng
    availc = 1 if cyclecount.rain.__name__.endswith("c_rain") else 0
    ctx.extra["cyclecount_rain"] = cyclecount.rain.__name__

    def wrapper_over_py(p, g, up):
        old = cyclecount.rain
        cyclecount.rain = py_rain
        try:
            return cyclecount.rainflow(p, g, up)
        finally:
            cyclecount.rain = old

    greq, gwant = [], []     # generated driver: request, (stream, tag, call to make on the real code)
    mreq, mwant = [], []     # model driver

    def vec_streams(x, tag, full):
        nd = _nd((len(x),), x)
        for g in (1, 0):
            greq.append("ge %d %s" % (g, nd))
            gwant.append(("generated-py-entry", tag, _thunk(py_rain.rainflow, x, bool(g))))
        if len(x) >= 2:
            for which, name, g in (("2f", "cfast", True), ("1f", "cfast", False), ("2s", "cslow", True), ("1s", "cslow", False)):
                if name in impls:
                    greq.append("gc %s %s" % (which, nd))
                    gwant.append(("generated-c-" + which, tag, _thunk(impls[name], x, g)))
        if full:
            for g in (1, 0):
                for up in (1, 0):
                    greq.append("gw %d %d %s" % (g, up, nd))
                    gwant.append(("generated-wrapper", tag, _thunk(wrapper_over_py, x, bool(g), bool(up))))
            for name, fn in impls.items():
                if name == "wrapper":
                    continue
                for gtxt, gval in (("1", True), ("0", False), ("-", None)):
                    mreq.append("me %s %s 1 %s" % ("py" if name == "py" else "c", gtxt, nd))
                    mwant.append(("entry-model-" + name, tag, _thunk(fn, x) if gval is None else _thunk(fn, x, gval)))
            for gtxt, gval in (("1", True), ("0", False), ("-", None)):
                for utxt, uval in (("1", True), ("0", False), ("-", None)):
                    kw = {}
                    if gval is not None:
                        kw["getoffsets"] = gval
                    if uval is not None:
                        kw["use_pandas"] = uval
                    mreq.append("mw %d %s %s 1 %s" % (availc, gtxt, utxt, nd))
                    mwant.append(("wrapper-model", tag, _thunk(cyclecount.rainflow, x, **kw)))

    # (a) the integer/dyadic cases of the list-model streams (a sample of the exhaustive ones)
    ex_every, rnd_every = ctx.pick((11, 1), (67, 7))   # about 8 000 + 6 000 (quick) / 7 000 + 8 500 (thorough) vectors
    for i, (seq, scale, style) in enumerate(cases):
        if style == "exhaustive" and i % ex_every:
            continue
        if style not in ("exhaustive", "corpus", "malformed") and i % rnd_every:
            continue
        if len(seq) > 400 and i % 4:
            continue
        x = np.array(seq, dtype=float) / scale
        vec_streams(x, {"seq": list(seq), "scale": scale}, full=(i % 5 == 0))
        ctx.count("float:dyadic")
    # (b) arbitrary doubles
    for k, x in enumerate(_gen_doubles(ctx, ctx.pick(700, 3000))):
        vec_streams(x, {"bits": _bits(x)}, full=(k % 3 == 0))
        with np.errstate(all="ignore"):
            d = np.diff(x)
        ctx.case(("dbl", x.tobytes()), nontrivial=len(x) >= 3, branch="float:non-dyadic")
        if np.any(np.abs(d[1:]) == np.abs(d[:-1])) if len(d) > 1 else False:
            ctx.count("float:exact-tie")
    # (c) containers, dtypes, shapes on every entry point
    bases = [np.array(s, dtype=float) for s in ([1, 3, 2, 5, 0], [0, 1], [2, 2, 2], [4, 0, 3, 1, 2, 1, 3, 0, 4],
                                                [1, 0, 1, 0, 1, 0, 1])]
    for _ in range(ctx.pick(6, 40)):
        bases.append(np.array([rng.randint(0, 9) for _ in range(rng.randint(2, 14))], dtype=float))
    for x in bases:
        for kind, obj in _containers(x):
            ndo = _nd_of(obj)
            if ndo is None:
                ctx.skip("container outside the domain: " + kind)
                continue
            shape, data, safe = ndo
            nd = _nd(shape, data)
            tag = {"seq": [int(v) for v in x], "scale": 1, "container": kind}
            ctx.case(("cont", kind, x.tobytes()), nontrivial=True, branch="container:" + kind.split("-")[0])
            for gtxt, gval in (("1", True), ("0", False)):
                for name, fn in impls.items():
                    if name == "wrapper":
                        for utxt, uval in (("1", True), ("0", False)):
                            mreq.append("mw %d %s %s %d %s" % (availc, gtxt, utxt, int(safe), nd))
                            mwant.append(("wrapper-container", tag, _thunk(cyclecount.rainflow, obj, gval, uval)))
                        continue
                    mreq.append("me %s %s %d %s" % ("py" if name == "py" else "c", gtxt, int(safe), nd))
                    mwant.append(("entry-container-" + name, tag, _thunk(fn, obj, gval)))
                greq.append("ge %s %s" % (gtxt, nd))
                gwant.append(("generated-py-container", tag, _thunk(py_rain.rainflow, obj, gval)))
    # (d) call sequences: one session on one set of modules; every call must be what it is on its own
    targets = [n for n in impls if n != "wrapper"] + ["wrapper"]
    for sess in range(ctx.pick(40, 400)):
        calls = []
        for _ in range(rng.randint(3, 9)):
            t = rng.choice(targets)
            x = np.array([rng.randint(0, 6) for _ in range(rng.choice([0, 1, 2, 3, 5, 8]))], dtype=float)
            gopt = rng.choice(_GOPTS)
            up = rng.choice([None, True, False]) if t == "wrapper" else None
            calls.append((t, x, gopt, up))
        hist = []
        for t, x, gopt, up in calls:
            nd = _nd((len(x),), x)
            hist.append("%s(g=%s%s)" % (t, gopt[0] if gopt[1] == () or not isinstance(gopt[1], str) else gopt[1],
                                         "" if up is None else ",up=%s" % up))
            tag = {"seq": [int(v) for v in x], "scale": 1, "session": list(hist)}
            if t == "wrapper":
                mreq.append("mw %d %s %s 1 %s" % (availc, gopt[0], "-" if up is None else str(int(up)), nd))
                mwant.append(("call-sequence-wrapper", tag, _call_with(cyclecount.rainflow, x, gopt, up)))
            else:
                mreq.append("me %s %s 1 %s" % ("py" if t == "py" else "c", gopt[0], nd))
                mwant.append(("call-sequence-" + t, tag, _call_with(impls[t], x, gopt)))
            if gopt[0] == "-" and len(hist) > 1 and "g=1" in hist[-2]:
                ctx.count("callseq:omitted-after-true")
        ctx.case(("sess", sess, tuple(hist)), nontrivial=True, branch="callseq:session")
    # the calls on the real code are made in forked children, in order (a session's calls share one set of modules
    # unless a chunk boundary falls between them): a mutation that corrupts memory is a result, not the end of the check
    vals = isolated_map(lambda w: _canon_any(w[2]), mwant + gwant, chunk=3000)
    mwant = [(w[0], w[1], v) for w, v in zip(mwant, vals[:len(mwant)])]
    gwant = [(w[0], w[1], v) for w, v in zip(gwant, vals[len(mwant):])]
    # ask the drivers
    mrep = ctx.driver("C05").ask(mreq)
    try:
        grep = ctx.driver("C05Gen").ask(greq)
    except Infra as e:
        if generated_changed(sys.modules[__name__]):
            raise TieBroken("the regenerated embedding (Generated/PyRain.lean, RainflowWrap.lean) does not elaborate: %s"
                            % str(e)[-400:])
        raise
    # the list model computes a range as `if a < b then b - a else a - b`: for a = -0.0, b = +0.0 that is -0.0 where
    # abs(a - b) is +0.0 -- the same number; the translated programs call abs and are compared bit for bit
    mrep = [r.replace(";%d " % 2 ** 63, ";0 ").replace("|%d " % 2 ** 63, "|0 ").replace("s %d " % 2 ** 63, "s 0 ")
            .replace("e %d " % 2 ** 63, "e 0 ") for r in mrep]
    for (stream, tag, want), got in list(zip(mwant, mrep)) + list(zip(gwant, grep)):
        kind = got.split(" ")[0]
        ctx.count("reply:" + stream.split("-")[0] + ":" + kind)
        if stream.startswith("generated-c-"):
            ctx.count("stream:" + stream)
        if got != want:
            ctx.disagree(stream, tag, want[:300], got[:300])
    ctx.extra["float_stream_requests"] = {"model_driver": len(mreq), "generated_driver": len(greq)}


# ---------------------------------------------------------------------------------------
# model-free oracle: the property restated on the API; an independent ASTM reference


def _astm_reference(p):
    """ASTM E1049-85 5.4.4 with an explicit starting point S (independent of pyYeti and of
    the Lean model)."""
    stack = []  # (value, offset)
    S = 0
    out = []
    for k, v in enumerate(p):
        stack.append((v, k))
        while len(stack) >= 3:
            a, b, c = stack[-3], stack[-2], stack[-1]
            X = abs(b[0] - c[0])
            Y = abs(a[0] - b[0])
            if X < Y:
                break
            if S in (a[1], b[1]):
                out.append((Y / 2, (a[0] + b[0]) / 2, 0.5, a[1], b[1]))
                del stack[-3]
                S = b[1]
            else:
                out.append((Y / 2, (a[0] + b[0]) / 2, 1.0, a[1], b[1]))
                del stack[-3:-1]
    for a, b in zip(stack, stack[1:]):
        out.append((abs(a[0] - b[0]) / 2, (a[0] + b[0]) / 2, 0.5, a[1], b[1]))
    return out


def _oracle_one(ctx, impls, seq, scale):
    x = np.array(seq, dtype=float) / scale
    L = len(x)
    ref = _astm_reference(x.tolist())
    tables = {}
    x0 = x.copy()
    for name, fn in impls.items():
        # the plain call first, then with offsets, on the SAME caller-owned float64 array: the caller's data must not
        # change, and the second call must see what the first one saw
        rf1 = np.asarray(fn(x, getoffsets=False) if fn.__name__ != "<lambda>" else fn(x))
        rf, os_ = fn(x, getoffsets=True)
        rf = np.asarray(rf)
        os_ = np.asarray(os_)
        tables[name] = (rf, os_)
        inp = {"seq": list(seq), "scale": scale, "impl": name}
        # call sequence on one module: after a call that asked for offsets, a call that OMITS the optional argument
        # (and one that passes it positionally) must again return the plain table
        for how, call in (("omitted", lambda: fn(x)), ("positional-false", lambda: fn(x, False)),
                          ("positional-true-then-omitted", lambda: (fn(x, True), fn(x))[1])):
            r3 = call()
            if isinstance(r3, tuple) or np.asarray(r3).shape != rf1.shape or np.asarray(r3).tobytes() != rf1.tobytes():
                ctx.fail("default-after-offsets", "%s: the call with getoffsets %s, made after a call with getoffsets=True, does "
                         "not return the plain cycle table" % (name, how), inp,
                         "tuple of %d" % len(r3) if isinstance(r3, tuple) else np.asarray(r3).tolist()[:8], rf1.tolist()[:8])
                break
        if x.tobytes() != x0.tobytes():
            ctx.fail("input-overwritten", "the caller's peaks array is modified by the call", inp, x.tolist()[:12], x0.tolist()[:12])
            x = x0.copy()
        if rf.shape != rf1.shape or rf.tobytes() != rf1.tobytes():
            ctx.fail("offsets-vs-plain", "table differs with and without offsets", inp, rf1.tolist(), rf.tolist())
        if 2 * rf[:, 2].sum() != L - 1:
            ctx.fail("count-total", "2*sum(count) != L-1", inp, float(2 * rf[:, 2].sum()), L - 1)
        got = [tuple(r) + tuple(o) for r, o in zip(rf.tolist(), os_.tolist())]
        if got != [tuple(float(v) for v in r[:3]) + (r[3], r[4]) for r in ref]:
            ctx.fail("astm", "table differs from the ASTM E1049 reference procedure", inp, got[:8], ref[:8])
        for r, o in zip(rf.tolist(), os_.tolist()):
            s, e = o
            if not (0 <= s < e < L) or r[0] != abs(x[s] - x[e]) / 2 or r[1] != (x[s] + x[e]) / 2:
                ctx.fail("cycle-values", "row does not match the points its offsets name", inp, [r, o], "amp,mean of x[s],x[e]")
                break
        _oracle_structure(ctx, name, inp, x, rf, os_)
    # the same numbers handed over in other dtypes (raw integer counts, single precision): same table
    if hash(tuple(seq)) % 3 == 0 and L >= 2:
        si = np.array(seq, dtype=np.int64)
        variants = [("int64", si, si.astype(float)), ("int32", si.astype(np.int32), si.astype(float)),
                    ("float32", x.astype(np.float32), x.astype(np.float32).astype(float))]
        if np.abs(si).max() < 30000:
            variants.append(("int16", si.astype(np.int16), si.astype(float)))
            # unsigned counts around mid-scale: every decreasing step would wrap if differenced in the input dtype
            variants.append(("uint16", (si + 32768).astype(np.uint16), (si + 32768).astype(float)))
        if 0 <= si.min() and si.max() < 256:
            variants.append(("uint8", si.astype(np.uint8), si.astype(float)))
        variants.append(("list", [float(v) for v in x], x))
        variants.append(("tuple", tuple(float(v) for v in x), x))
        # containers whose integer indexing is by LABEL: the sequence is the values in storage order
        import pandas as pd
        perm = np.argsort(((si * 2654435761 + np.arange(L) * 40503) % 1000003), kind="stable")
        variants.append(("series", pd.Series(x), x))
        variants.append(("series-reversed", pd.Series(x)[::-1], x[::-1].copy()))
        variants.append(("series-permuted-index", pd.Series(x, index=perm), x))
        variants.append(("series-offset-index", pd.Series(x, index=np.arange(L) + 5), x))
        for dt, y, yf in variants:
            refy = _astm_reference(np.asarray(yf, float).tolist())
            want = [tuple(float(v) for v in r[:3]) + (r[3], r[4]) for r in refy]
            for name, fn in impls.items():
                if name == "wrapper" and dt in ("list", "tuple"):
                    continue
                try:
                    with np.errstate(all="ignore"), warnings.catch_warnings():
                        warnings.simplefilter("ignore")
                        rfy, osy = fn(y, getoffsets=True)
                        rfy1 = np.asarray(fn(y, getoffsets=False) if fn.__name__ != "<lambda>" else fn(y))
                except Exception as e:  # noqa: BLE001
                    ctx.fail("dtype-" + dt + "-raises", "%s refuses a %s peaks array" % (name, dt),
                             {"seq": list(seq), "scale": scale, "impl": name, "dtype": dt}, repr(e)[:120], "a cycle table")
                    continue
                got = [tuple(r) + tuple(o) for r, o in zip(np.asarray(rfy).tolist(), np.asarray(osy).tolist())]
                if got != want or np.asarray(rfy).tobytes() != rfy1.tobytes():
                    ctx.fail("dtype-" + dt, "%s: the table for a %s array differs from the table of the same numbers as float64"
                             % (name, dt), {"seq": list(seq), "scale": scale, "impl": name, "dtype": dt}, got[:8], want[:8])
    base = tables["py"]
    for name, (rf, os_) in tables.items():
        if rf.tobytes() != base[0].tobytes() or os_.tolist() != base[1].tolist():
            ctx.fail("c-vs-python", "%s and py_rain return different tables" % name,
                     {"seq": list(seq), "scale": scale}, rf.tolist()[:8], base[0].tolist()[:8])
    # symmetries (exact on dyadic input)
    fn = impls["cfast"]
    rf, os_ = base
    for tag, y, f_amp, f_mean in (
        ("negate", -x, lambda a: a, lambda m: -m),
        ("shift", x + 3.0, lambda a: a, lambda m: m + 3.0),
        ("scale", 4.0 * x, lambda a: 4.0 * a, lambda m: 4.0 * m),
    ):
        for name in ("py", "cfast"):
            r2, o2 = impls[name](y, getoffsets=True)
            r2 = np.asarray(r2)
            want = np.column_stack([f_amp(rf[:, 0]), f_mean(rf[:, 1]), rf[:, 2]]) if rf.size else rf
            if r2.shape != want.shape or not np.array_equal(r2, want) or np.asarray(o2).tolist() != os_.tolist():
                ctx.fail("symmetry-" + tag, "table does not transform in the obvious way under " + tag,
                         {"seq": list(seq), "scale": scale, "impl": name}, r2.tolist()[:8], want.tolist()[:8])
    # largest range counted (true reversal sequences only)
    with np.errstate(all="ignore"):
        d = np.diff(x)
    if L >= 2 and np.all(d != 0) and np.all(d[1:] * d[:-1] < 0):
        if rf[:, 0].max() * 2 != x.max() - x.min():
            ctx.fail("largest-range", "overall range is not among the counted ranges",
                     {"seq": list(seq), "scale": scale}, float(rf[:, 0].max() * 2), float(x.max() - x.min()))



def _plateau_record(base, runs):
    out = []
    for i, v in enumerate(base):
        out += [v] * runs.get(i, 1)
    return out


def _oracle_plateau(ctx, impls, base, runs):
    """Props/C05Plateau.lean restated on the real routines, model-free: `base` has pairwise distinct values, `runs`
    maps a position to the length of the run of copies put there.  (1) the non-zero-range rows (amplitude, mean,
    count, in order) of the record are those of the record with every run compressed BY PARITY (odd -> 1 copy,
    even -> 2 copies; a run at the very start -> 1 copy); (2) the zero-range rows are exactly: k-1 half cycles for a
    run of k at the start, floor(k/2) full cycles for a run inside, floor((k-1)/2) full cycles plus one half cycle
    (k even) for a run that ends the record."""
    last = len(base) - 1
    runs = {int(i): int(k) for i, k in runs.items()}
    rec = _plateau_record(base, runs)
    comp = _plateau_record(base, {i: (1 if i == 0 or k % 2 else 2) for i, k in runs.items()})
    want_full = sum(k // 2 for i, k in runs.items() if 0 < i < last) + sum((k - 1) // 2 for i, k in runs.items() if i == last)
    want_half = sum(k - 1 for i, k in runs.items() if i == 0) + sum(1 for i, k in runs.items() if i == last and k % 2 == 0)
    for name, fn in impls.items():
        inp = {"seq": list(base), "scale": 1, "runs": {str(i): k for i, k in runs.items()}, "impl": name}
        a = np.asarray(fn(np.array(rec, dtype=float), getoffsets=True)[0])
        b = np.asarray(fn(np.array(comp, dtype=float), getoffsets=True)[0])
        nz_a = [tuple(r) for r in a.tolist() if r[0] != 0]
        nz_b = [tuple(r) for r in b.tolist() if r[0] != 0]
        if nz_a != nz_b:
            ctx.fail("plateau-parity", "%s: the non-zero rows of a record with runs of equal points are not those of the "
                     "record with every run compressed by parity (odd -> 1, even -> 2 copies)" % name, inp, nz_a[:8], nz_b[:8])
        z = [r[2] for r in a.tolist() if r[0] == 0]
        got = [sum(1 for c in z if c == 1.0), sum(1 for c in z if c == 0.5)]
        if got != [want_full, want_half]:
            ctx.fail("plateau-zero-rows", "%s: the zero-range rows of a record with runs of equal points are not the ones "
                     "the plateau theorems name [full, half]" % name, inp, got, [want_full, want_half])


def _gen_plateau(ctx, n):
    rng = ctx.rng
    out = []
    for _ in range(n):
        L = rng.randint(3, 10)
        base = rng.sample(range(-12, 13), L)
        pos = rng.sample(range(L), rng.randint(1, min(3, L)))
        out.append((tuple(base), {i: rng.randint(2, 6) for i in pos}))
    return out


def _want_rows(x):
    ref = _astm_reference(np.asarray(x, float).tolist())
    return [tuple(float(v) for v in r[:3]) + (r[3], r[4]) for r in ref]


def _got_rows(rf, os_):
    return [tuple(r) + tuple(o) for r, o in zip(np.asarray(rf).tolist(), np.asarray(os_).tolist())]


def _oracle_structure(ctx, name, inp, x, rf, os_):
    """the structure theorems restated on the real output"""
    L = len(x)
    rf = np.asarray(rf)
    os_ = np.asarray(os_)
    n = rf.shape[0]
    full = rf[:, 2] == 1.0
    if rf.ndim != 2 or rf.shape[1] != 3 or os_.shape != (n, 2) or os_.dtype.kind != "i" or rf.dtype != np.float64 \
            or n != L - 1 - int(full.sum()) or not np.all((rf[:, 2] == 1.0) | (rf[:, 2] == 0.5)):
        ctx.fail("result-shape", "%s: table is not (L-1-fullcycles) x 3 float64 with an equally long x 2 integer offsets "
                 "table" % name, inp, [list(rf.shape), str(rf.dtype), list(os_.shape), str(os_.dtype)],
                 [L - 1 - int(full.sum()), 3, 2])
        return
    s, e = os_[:, 0], os_[:, 1]
    for i in range(n):
        lat = (e[i + 1:] < s[i]) | (e[i] < s[i + 1:]) | ((s[i + 1:] < s[i]) & (e[i] < e[i + 1:])) if full[i] \
            else (e[i] <= s[i + 1:])
        if not np.all(lat):
            j = i + 1 + int(np.argmin(lat))
            ctx.fail("structure-closing-order", "%s: a row is listed after a row whose span it reaches into" % name, inp,
                     [os_[i].tolist(), bool(full[i]), os_[j].tolist()], "later rows avoid the span of earlier ones")
            break
    if len(set(s.tolist())) != n or len(set(e.tolist())) != n:
        ctx.fail("structure-unique-endpoints", "%s: an offset is start (or stop) of two rows" % name, inp,
                 os_.tolist()[:12], "starts distinct, stops distinct")
    h = os_[~full]
    if L >= 2 and (len(h) == 0 or h[0, 0] != 0 or h[-1, 1] != L - 1 or np.any(h[1:, 0] != h[:-1, 1])):
        ctx.fail("structure-half-chain", "%s: the half cycles do not chain from offset 0 to L-1" % name, inp,
                 h.tolist()[:12], "0 = s1, e_i = s_(i+1), e_m = L-1")
    if n and rf[:, 0].max() * 2 > x.max() - x.min():
        ctx.fail("structure-range-bound", "%s: a counted range exceeds the overall range" % name, inp,
                 float(rf[:, 0].max() * 2), float(x.max() - x.min()))


def _oracle_entry(ctx, impls, seq, scale):
    """containers / dtypes / shapes, the wrapper's packaging and call sequences, model-free"""
    import pandas as pd
    from pyyeti import cyclecount

    x = np.array(seq, dtype=float) / scale
    base = {"seq": list(seq), "scale": scale}
    fns = dict(impls)
    fns["wrapper-pandas"] = lambda p, getoffsets=False: cyclecount.rainflow(p, getoffsets)

    def run(fn, obj, g):
        try:
            with np.errstate(all="ignore"), warnings.catch_warnings():
                warnings.simplefilter("ignore")
                r = fn(obj, getoffsets=g)
            return "ok", r
        except Exception as ex:  # noqa: BLE001
            return type(ex).__name__, str(ex)[:100]

    if float(np.abs(x).max()) < 100 and np.all(x == np.round(x)) and len(x) >= 2:
        for kind, obj in _containers(x):
            ndo = _nd_of(obj)
            if ndo is None:
                continue
            shape, data, _safe = ndo
            vector = len(shape) == 1 and shape[0] >= 2
            want = _want_rows(data) if vector else None
            inp = dict(base, container=kind)
            fam = kind if kind.startswith("dtype-") else "container-" + kind
            for name, fn in fns.items():
                st, r = run(fn, obj, True)
                st1, r1 = run(fn, obj, False)
                inp2 = dict(inp, impl=name)
                if not vector:
                    if st != "ValueError" or st1 != "ValueError":
                        ctx.fail("refusal-" + kind, "%s does not refuse (ValueError) a %s input that is not a vector of at "
                                 "least two points" % (name, kind), inp2, [st, st1], "ValueError")
                    continue
                if st != "ok" or st1 != "ok":
                    ctx.fail(fam + "-raises", "%s refuses a real vector handed over as %s" % (name, kind), inp2,
                             [st, str(r)[:80]] if st != "ok" else [st1, str(r1)[:80]], "the cycle table")
                    continue
                got = _got_rows(r[0].to_numpy() if isinstance(r[0], pd.DataFrame) else r[0],
                                r[1].to_numpy() if isinstance(r[1], pd.DataFrame) else r[1])
                plain = r1.to_numpy() if isinstance(r1, pd.DataFrame) else np.asarray(r1)
                if got != want or plain.tolist() != [list(w[:3]) for w in want]:
                    ctx.fail(fam, "%s: the table for the vector handed over as %s is not the table of the same numbers"
                             % (name, kind), inp2, got[:8], want[:8])
    # the wrapper's packaging
    if len(x) >= 2:
        try:
            ref_rf, ref_os = cyclecount.rain.rainflow(x, True)
            res = {(g, up): cyclecount.rainflow(x, g, **({} if up is None else {"use_pandas": up}))
                   for g in (True, False) for up in (True, False, None)}
        except Exception as ex:  # noqa: BLE001
            ctx.fail("wrapper-raises", "cyclecount.rainflow raises on a valid vector", base, repr(ex)[:120], "a cycle table")
            res = {}
        for (g, up), r in res.items():
            if True:
                parts = r if g else (r,)
                inp = dict(base, getoffsets=g, use_pandas=up)
                if (up is False) != all(isinstance(q, np.ndarray) for q in parts) or \
                        (up is not False) != all(isinstance(q, pd.DataFrame) for q in parts) or len(parts) != (2 if g else 1):
                    ctx.fail("wrapper-type", "cyclecount.rainflow returns the wrong kind of object", inp,
                             [type(q).__name__ for q in parts], "DataFrames iff use_pandas")
                    continue
                for q, cols, ref in zip(parts, (["amp", "mean", "count"], ["start", "stop"]), (ref_rf, ref_os)):
                    vals = q.to_numpy() if isinstance(q, pd.DataFrame) else q
                    if vals.shape != np.asarray(ref).shape or vals.tolist() != np.asarray(ref).tolist():
                        ctx.fail("wrapper-values", "cyclecount.rainflow does not return the implementation's numbers", inp,
                                 vals.tolist()[:6], np.asarray(ref).tolist()[:6])
                    if isinstance(q, pd.DataFrame):
                        if list(q.columns) != cols:
                            ctx.fail("wrapper-columns", "DataFrame columns are not %s" % cols, inp, list(q.columns), cols)
                        if list(q.index) != list(range(len(q))):
                            ctx.fail("wrapper-index", "DataFrame index is not 0..n-1", inp, list(q.index)[:8], "0..n-1")
    # call sequences: a session on ONE set of modules with alternating options; every call is what it is on its own
    r = np.random.default_rng(abs(hash((tuple(seq), scale))) % (2 ** 32))
    vecs = [x, x[::-1].copy(), np.array([3.0, 1.0, 2.0]), np.array([1.0]), x[:2].copy()]
    for name, fn in impls.items():
        if name == "wrapper":
            continue
        hist = []
        for _ in range(6):
            y = vecs[int(r.integers(0, len(vecs)))]
            gopt = _GOPTS[int(r.integers(0, len(_GOPTS)))]
            hist.append("g=" + (gopt[0] if not isinstance(gopt[1], str) else gopt[1]))
            try:
                got = _call_with(fn, y, gopt)()
                st = "ok"
            except Exception as ex:  # noqa: BLE001
                got, st = None, type(ex).__name__
            inp = dict(base, impl=name, session=list(hist), peaks=y.tolist())
            if len(y) < 2:
                if st != "ValueError":
                    ctx.fail("call-history-" + name, "a call in a session accepts fewer than two points", inp, st, "ValueError")
                continue
            want = _want_rows(y)
            if st != "ok":
                ctx.fail("call-history-" + name, "a call in a session refuses a valid vector", inp, st, "the cycle table")
            elif gopt[0] == "1":
                if not isinstance(got, tuple) or _got_rows(got[0], got[1]) != want:
                    ctx.fail("call-history-" + name, "a call with getoffsets=True in a session does not return (rf, os) of "
                             "its own arguments", inp, str(got)[:120], want[:6])
            else:
                if isinstance(got, tuple) or np.asarray(got).tolist() != [list(w[:3]) for w in want]:
                    ctx.fail("call-history-" + name, "a call without offsets in a session does not return the plain table "
                             "of its own arguments (its result depends on an earlier call)", inp,
                             "tuple" if isinstance(got, tuple) else np.asarray(got).tolist()[:6], [list(w[:3]) for w in want][:6])

def search(ctx, hints):
    impls = _impls(ctx)
    cases = [(tuple(h["input"]["seq"]), h["input"]["scale"]) for h in hints[:50]
             if "seq" in h["input"] and len(h["input"]["seq"]) >= 2]
    cases += [(s, sc) for s, sc, _ in _corpus(ctx)]
    cases += [((1, 3, 2, 5, 0), 1), ((4, 0, 3, 1, 2, 1, 3, 0, 4), 1), ((0, 5, 5, 1), 1)]
    nfirst = len(cases)
    for L in range(2, 7):
        for seq in itertools.product(range(4), repeat=L):
            cases.append((seq, 1))
    cases += [(s, sc) for s, sc, _ in _gen_random(ctx, ctx.pick(1500, 15000))]
    # the entry-point oracle (containers, wrapper packaging, sessions) on the hints, the corpus and every 9th (thorough: 40th) case
    every = ctx.pick(9, 40)
    cases = [(c[0], c[1], i < nfirst or i % every == 0) for i, c in enumerate(cases)]
    # records with runs of 2..6 equal points over pairwise distinct values (Props/C05Plateau.lean, model-free)
    fixed = [((0, 5, 1), {1: k}) for k in range(2, 7)] + [((5, 1, 4), {0: k}) for k in range(2, 7)] \
        + [((0, 5, 1), {2: k}) for k in range(2, 7)] + [((3, 9, 1, 7, 2), {1: 4, 3: 3}), ((3, 9, 1, 7, 2), {0: 3, 2: 6, 4: 2})]
    cases += [(b, r, "plateau") for b, r in fixed + _gen_plateau(ctx, ctx.pick(400, 4000))]
    def one(case):
        sub = type(ctx).__new__(type(ctx))
        sub.failures = []
        sub.fail = lambda *a: type(ctx).fail(sub, *a)
        if case[2] == "plateau":
            _oracle_plateau(sub, impls, case[0], case[1])
            return sub.failures
        _oracle_one(sub, impls, case[0], case[1])
        if case[2] is True:
            _oracle_entry(sub, impls, case[0], case[1])
        return sub.failures

    res = isolated_map(one, cases, chunk=2000)
    for case, r in zip(cases, res):
        ctx.count("oracle-cases")
        if case[2] == "plateau":
            ctx.count("oracle-plateau-cases")
        if isinstance(r, str):
            if sum(1 for g in ctx.failures if g["family"] == "crash") >= 4:
                continue
            if case[2] == "plateau":
                ctx.fail("crash", "the compiled routine crashes the interpreter (%s)" % r,
                         {"seq": list(case[0]), "scale": 1, "runs": {str(i): k for i, k in case[1].items()}}, r, "a cycle table")
                continue
            ctx.fail("crash", "the compiled routine crashes the interpreter (%s)" % r,
                     {"seq": list(case[0]), "scale": case[1]}, r, "a cycle table")
        else:
            for f in r:   # a few inputs per family; a standing family must not crowd out another one
                if sum(1 for g in ctx.failures if g["family"] == f["family"]) < 4:
                    ctx.failures.append(f)
        if len({g["family"] for g in ctx.failures}) > 8:
            break


def replay(ctx, data):
    f = data["failure"]
    impls = _impls(ctx)
    case = (tuple(f["input"]["seq"]), f["input"]["scale"])

    def one(c):
        if "runs" in f["input"]:
            _oracle_plateau(ctx, impls, c[0], f["input"]["runs"])
            if f["family"] == "crash":   # the call that crashed is the one on the record with the runs
                impls["cfast"](np.array(_plateau_record(c[0], {int(i): k for i, k in f["input"]["runs"].items()}), dtype=float))
        _oracle_one(ctx, impls, c[0], c[1])
        _oracle_entry(ctx, impls, c[0], c[1])
        return [g for g in ctx.failures if g["family"] == f["family"]] or ctx.failures

    r = isolated_map(one, [case])[0]
    if isinstance(r, str):
        return {"family": "crash", "what": r, "input": f["input"]}
    return r[0] if r else None
