"""C20 — tolerance-limit factors and order statistics meet their definitions (DESIGN.md 6/C20).

Tie: correspondence between pyyeti.stats (imported from the working tree) and the Lean models
  * Model/OrderStats.lean (exact): `order_stats('r'|'n')` integers and the ValueError of 'n' compared
    EXACTLY with `rank` / `nSearch` on short-decimal (p, c) read as exact rationals; `order_stats('c')`
    compared to 1e-10 with the rational `tail`; a subsample is re-evaluated at core `Rat` (the driver's
    default instance is an unreduced-fraction type, same polymorphic definitions);
  * Model/KFactor.lean (no special functions exist executably in Lean): the model's expressions are
    run at Float with the library kernels supplied as lookup tables computed here with scipy, so a
    reply is a number only if the model asked for exactly the predicted kernel values
    (df = n-1, nc = sqrt(n) z_p, chi2.ppf(1-c, n-1), Phi(1/sqrt n +- R)); compared to 1e-12 (relative).
Inputs whose confidence is within 1e-9 of c at the decisive integer are ties: skipped and counted.

Oracle (model-free: python integers/Fractions and scipy only, never the Lean model): adjacent-integer
checks of 'r' and 'n', 'c' against the exact binomial sum, 'p' inverts 'c', mutual consistency of the
query forms, scalar == broadcast; ksingle = nct.ppf(c, n-1, z_p sqrt n)/sqrt n and its defining
cdf equation, kdouble's two coverage equations, monotone in p and c, limit n -> oo.

Extension (public entry points, root finders, constants):
  * translator harness/translate/c20_stats.py -> Generated/C20Stats.lean: constants / switch points / branch and
    np.broadcast argument orders / effect skeletons of every function, checked by `decide` in Props/C20Api.lean;
  * stream `api` (exact): order_stats as a whole against Model/OrderStatsApi.lean — `which` strings, absent arguments
    (None), broadcasting order and shape, python-int / numpy-scalar / array packaging, TypeError / ValueError kinds, the
    'p' answers against the rational bisection `pQuery` (2^-41), argument arrays unchanged;
  * streams `ksingle-array`, `kdouble-array`, `getr-loop` (Float): Model/KFactorApi.lean run with the kernel values the
    implementation itself asked for (stats.norm is wrapped by a recorder during the call); values to 1e-12 / 1e-10 and
    the number of Newton passes exactly;
  * oracle items `apicall`, `kcall` (elementwise = scalar calls, shape = numpy's broadcast shape, arguments unchanged,
    invalid `which` / missing arguments raise), `proot` (sign change within brentq's tolerance, exact arithmetic),
    `newton` (convergence below the cap; hypotheses and conclusions of newton_monotone_convex), `nctasym`, `kge`
    (hypotheses / conclusions of ksingle_tendsto, ksingle_ge_normal).
"""
import json
import math
import os
import warnings
from fractions import Fraction

import numpy as np

from runner import Infra, TieBroken

ID = "C20"
LEAN_MODULES = ["PyYetiVerif.Props.C20", "PyYetiVerif.Props.C20Api", "PyYetiVerif.Props.C20Root", "PyYetiVerif.Props.C20Limit",
                "PyYetiVerif.Audit.C20"]
AUDIT_FILE = "PyYetiVerif/Audit/C20.lean"
THEOREMS = [
    "PyYetiVerif.C20." + n
    for n in (
        "tail_def tail_succ tail_antitone_r tail_monotone_n tail_monotone_q tail_bounds "
        "rank_extremal rank_succ_fails rank_extremal_ge tie_example "
        "n_extremal n_extremal_adjacent n_eq_r n_total confidence_eventually n_exists queries_consistent "
        "ksingle_def ksingle_strictMono_c ksingle_strictMono_p getr_fixed_point getr_strictMono getr_pos "
        "kdouble_def kdouble_strictMono_c kdouble_strictMono_p "
        # public entry points (Props/C20Api.lean)
        "order_stats_dispatch order_stats_dispatch_tie order_stats_absent order_stats_broadcast_r order_stats_broadcast_n "
        "order_stats_broadcast_p order_stats_broadcast_c order_stats_scalar order_stats_broadcast_readAt "
        "kfactor_elementwise_ksingle kfactor_elementwise_kdouble arguments_unchanged stats_effects_safe stats_consts_tie stats_dtype_tie "
        # root finders (Props/C20Root.lean)
        "tail_strictMono_q bisect_brackets_root p_query_defined_iff p_query_bracket p_query_exists_unique p_query_close "
        "newton_monotone_convex newton_vector_stops "
        # large samples (Props/C20Limit.lean)
        "ksingle_rate ksingle_tendsto ksingle_ge_normal"
    ).split()
]
TRUSTED = [
    "scipy.stats norm/nct/chi2 satisfy KFactor.Spec (strictly increasing cdf, ppf its inverse on (0,1), nct "
    "stochastically increasing in its non-centrality); residuals of the resulting equations are measured every run",
    "the three added hypotheses, each measured by the oracle on every run: the residual of _getr is concave on R >= 0 "
    "(tangent inequality; newton_monotone_convex); NctAsym: the nct quantile stays within B_c (1 + |nc|/sqrt df) of nc and "
    "P(T <= nc) <= 1/2 for nc >= 0 (ksingle_tendsto, ksingle_ge_normal)",
    "scipy.stats.binom.ppf/sf, scipy.special.betainc and brentq+ceil compute the exact-arithmetic quantities of "
    "Model/OrderStats.lean away from ties (|confidence - c| >= 1e-9); measured by exact comparison every run",
    "the continuous extension n -> betainc(r, n-r+1, q) is increasing, so ceil(root) is the least integer meeting c",
    "brentq returns a point inside a sign-change bracket of width <= xtol + rtol |x| (scipy defaults 2e-12, 4 eps; the "
    "calls in stats.py pass no tolerances: checked by the translator); the oracle checks the sign change in exact arithmetic",
    "numpy: np.broadcast iterates in C order over the broadcast shape, `out.flat = list` fills in C order, ufunc calls "
    "broadcast their arguments; np.asarray of an ndarray returns the same object; the whitelisted numpy/scipy calls of "
    "harness/translate/c20_stats.py return new objects (the effect skeleton is what arguments_unchanged is about)",
    "Drivers/C20.lean evaluates the polymorphic model at an unreduced-fraction instance; a subsample is re-evaluated "
    "at core Rat (the instance the theorems specialise to) and must agree exactly",
    "correspondence harness harness/props/c20.py, translator harness/translate/c20_stats.py (Python ast, no execution)",
]
RULE = (
    "p and c are short decimals (2-4 digits) read as exact rationals, n in 1..3000 (quick) / 1..40000 (thorough), "
    "r in 1..40; a case is one call of order_stats('r'|'n'|'c') or of ksingle/kdouble/_getr compared with the Lean "
    "model; non-trivial = the answer is not the default (rank >= 1, n > r or the n = r boundary, 0 < conf < 1, "
    "every k-factor case); distinct by (which, p, c, n, r); ties (|confidence - c| < 1e-9 at the decisive integer) "
    "are skipped and counted.  Entry-point cases (`api`, `ksingle-array`, `kdouble-array`, `getr-loop`): the whole decision "
    "table (8 `which` strings x 16 subsets of absent arguments) plus random calls whose three read arguments have shapes "
    "drawn from one broadcast target (rank 0-3, extents 0-4, 12 % made incompatible), 6 % of read arguments absent, the "
    "asked-for argument given in 25 %, values handed over as python scalars / numpy scalars / 0-d arrays / nested lists / "
    "tuples / C-, F-ordered and strided arrays; integer arguments as int64, int32, float64, int8, uint8, int16, uint16 arrays "
    "(every width that holds the values; unsigned only for values >= 1; findings F54/F55); tol of kdouble in {1e-14 .. 1e-3}; non-trivial = "
    "a value with at least one element comes back; Newton steps within 0.1 % of tol make the pass count undecidable in "
    "floating point: skipped and counted"
)
ASSUMPTIONS = [
    "0 < p < 1, 0 < c < 1, r >= 1, n >= 1 (k-factors: n >= 2)",
    "order_stats('n'): the answer does not exceed r * 2**31 (beyond that the code raises ValueError; theorem n_total)",
    "float evaluation decides confidence comparisons correctly when |confidence - c| >= 1e-9",
]
PARTIAL = (
    "partial: the order-statistics half is proved outright (all linearly ordered fields), now including the public entry "
    "point (dispatch, absent arguments, broadcasting, result packaging: exact correspondence) and the 'p' query (exactly one "
    "root in (0,1) over the reals; bracketing solvers are within their bracket width of it; brentq itself is trusted to "
    "return a point inside a sign-change bracket of its documented width, which the oracle checks in exact arithmetic). "
    "The k-factor half is proved relative to KFactor.Spec (Lean has no executable erf / non-central t / chi-square, so the "
    "cdfs are abstract parameters).  Still not proved: (1) that _getr's Newton loop stops within MAXLOOPS = 100 passes — "
    "proved is: under the measured concavity hypothesis the iterates are monotone and bounded from the first one on and the "
    "stopping test — also the vectorised one, `not np.any(abs(r - rold) > tol)` over all elements — is reached after finitely "
    "many passes for every tol > 0 (newton_monotone_convex, newton_vector_stops; no quadratic rate, so no bound by 100); (2) the n -> oo limit of kdouble (needs continuity of the normal quantile and the "
    "chi-square asymptotics): oracle only; the limit of ksingle (k -> z_p, from above for c >= 1/2) is proved relative to "
    "Spec extended by the two measured clauses NctAsym; (3) composition of the nested binary broadcasts inside kdouble into "
    "the ternary broadcast of the model (tied by the exact shape/value stream, not proved)"
)
MANIFEST = {
    "level_text": "Proof (Lean 4, kernel-checked, standard axioms only). Order statistics: an exact model of "
    "order_stats('c'|'r'|'n') over any linearly ordered field; the confidence is the upper binomial sum (tail_def), "
    "obeys the Pascal recurrence, is antitone in r, monotone in n and in 1-p (strictly inside (0,1): tail_strictMono_q); "
    "the returned rank is extremal (c < conf(k) <-> k <= rank; rank+1 fails), the returned sample size is extremal "
    "(c <= conf(m) <-> n <= m, including the n = r boundary of finding F10), the ValueError branch is reached only beyond "
    "r*2^31, and the query forms are mutually consistent; exact ties are characterised (tie_example). The 'p' query has "
    "exactly one answer in (0,1) for 1 <= r <= n (p_query_exists_unique: intermediate value theorem for the confidence "
    "polynomial), raises exactly otherwise (p_query_defined_iff), and any bracketing solver is within its bracket width of "
    "that answer (bisect_brackets_root, p_query_bracket). The public entry point is modelled as a whole: decision logic on "
    "`which`, absent arguments, the ignored asked-for argument (order_stats_dispatch, order_stats_absent), numpy "
    "broadcasting (order_stats_broadcast_*: shape = broadcast shape, element [idx] = scalar answer of the clipped index; "
    "order_stats_scalar: scalar kinds), and no function of stats.py writes a caller's buffer (arguments_unchanged + "
    "stats_effects_safe on effect skeletons regenerated from the source). The constants and switch points of stats.py "
    "(doubling factor and limit, brentq brackets, MAXLOOPS, starting point, default tol, branch order, np.broadcast "
    "argument orders) are regenerated into Generated/C20Stats.lean on every run and checked by `decide` "
    "(stats_consts_tie, order_stats_dispatch_tie), as are the conversions (`n = np.asarray(n, dtype=float)`, `r = int(r)`) that make "
    "the answers independent of the integer dtype of the caller's arrays (stats_dtype_tie; findings F54/F55). k-factors: ksingle/kdouble/_getr written against abstract distribution "
    "kernels; from the specification 'strictly increasing cdf, ppf its inverse' the defining probability equations and "
    "strict monotonicity in p and c are proved; ksingle/kdouble on arrays are the scalar formulas elementwise with ONE "
    "Newton pass count per call (kfactor_elementwise_*); Newton's iterates in _getr are monotone and bounded after the "
    "first step and reach the (vectorised) stopping test for every tol > 0 (newton_monotone_convex, newton_vector_stops, "
    "under a measured concavity hypothesis); ksingle -> z_p as n -> oo with an explicit rate, from above for c >= 1/2 (ksingle_tendsto, "
    "ksingle_ge_normal, under two measured clauses on the nct quantile). All models are tied to the code by exact "
    "integer/rational correspondence (order statistics, packaging) and by Float execution of the same Lean expressions "
    "with scipy supplying kernel values (k-factors, the whole Newton loop with its pass count).",
    "level_note": "Partial for the k-factor half: relative to the stated specification of scipy's norm/nct/chi2 and three "
    "measured hypotheses (concavity of the _getr residual on R >= 0, two nct clauses); not proved: a bound <= MAXLOOPS on "
    "the Newton pass count, the n -> oo limit of kdouble (oracle only). Trusted: Lean kernel; propext, Classical.choice, "
    "Quot.sound; the Python harness and translator; numpy's broadcasting/aliasing semantics as stated in TRUSTED; scipy "
    "binom/betainc/brentq away from ties.",
    "technique": "Lean 4 proof (Pascal-recurrence induction, loop invariants for the scan/doubling/bisection searches, "
    "stride/ravel induction for broadcasting, a taint analysis proved sound for the effect skeletons, intermediate value "
    "theorem, order-theoretic Newton argument, squeeze for the limit) + translator for constants and effect skeletons "
    "(decide-checked) + exact differential correspondence with pyyeti.stats",
}

TIE = 1e-9
# regression guards of repaired findings (fix cd7a6f7): integer arguments handed over as 8/16-bit numpy arrays
FIXED_F54 = "order-stats-n-narrow-int-rank-array"
FIXED_F55 = "kfactor-narrow-int-sample-size-array"
INT_DTYPES = ("int64", "int32", "float64", "int8", "uint8", "int16", "uint16")


def translate(ctx):
    """constants, switch points and effect skeletons of pyyeti/stats.py -> Generated/C20Stats.lean (Python ast only)"""
    from translate import c20_stats as tr

    try:
        c = tr.run(ctx.repo, ctx.lean)
    except tr.Unparsable as e:
        raise TieBroken("stats.py: %s" % e)
    ctx.extra["stats_consts"] = {k: v for k, v in c.items() if k != "effects"}
    return ["C20Stats"]

# ---------------------------------------------------------------------------------------
# helpers


def _stats():
    from pyyeti import stats

    return stats


def _frac(s):
    return Fraction(s)


def _fs(fr):
    return "%d/%d" % (fr.numerator, fr.denominator) if fr.denominator != 1 else str(fr.numerator)


def _bits(x):
    return str(int(np.float64(x).view(np.uint64)))


def _unbits(s):
    return float(np.uint64(int(s)).view(np.float64))


def _dec(rng, kind):
    """a short decimal in (0,1) as a string"""
    if kind == "p":
        u = rng.random()
        if u < 0.45:
            return rng.choice(["0.5", "0.6", "0.72", "0.75", "0.8", "0.9", "0.95", "0.975", "0.99", "0.995",
                               "0.9973", "0.999", "0.25", "0.1"])
        if u < 0.8:
            return "0.%02d" % rng.randint(1, 99)
        return "0.%03d" % rng.randint(1, 999)
    u = rng.random()
    if u < 0.45:
        return rng.choice(["0.5", "0.9", "0.95", "0.99", "0.75", "0.1", "0.217", "0.05", "0.999", "0.25"])
    if u < 0.8:
        return "0.%02d" % rng.randint(1, 99)
    return "0.%03d" % rng.randint(1, 999)


def exact_tail(n, r, q):
    """P(X >= r), X ~ Binomial(n, q), q a Fraction: (numerator, denominator) as python ints."""
    a, d = q.numerator, q.denominator
    den = d ** n
    if r <= 0:
        return den, den
    if r > n:
        return 0, den
    b = d - a
    low = 0
    for k in range(r):
        low += math.comb(n, k) * a ** k * b ** (n - k)
    return den - low, den


def _cmp_tail(n, r, q, c):
    """sign of tail(n, r, q) - c, exactly; and the float gap"""
    num, den = exact_tail(n, r, q)
    lhs = num * c.denominator
    rhs = c.numerator * den
    gap = (lhs - rhs) / (den * c.denominator)
    return (lhs > rhs) - (lhs < rhs), gap


def _call(fn, *a, **k):
    try:
        with warnings.catch_warnings():
            warnings.simplefilter("ignore")
            return fn(*a, **k)
    except ValueError as e:
        return "value-error"
    except Exception as e:  # any other exception kind is itself reportable
        return "error:" + type(e).__name__


def _ival(x):
    if isinstance(x, str):
        return x
    xa = np.asarray(x)
    if xa.ndim != 0:
        return "bad-shape:%s" % (xa.shape,)
    v = xa[()]
    if isinstance(x, float) or xa.dtype.kind == "f":
        if v != int(v):
            return "non-integer:%r" % float(v)
    return int(v)


# ---------------------------------------------------------------------------------------
# case generation


def _gen_order(ctx, count, nmax):
    rng = ctx.rng
    cases = []
    # fixed cases: docstring examples, F10, boundaries
    cases += [
        ("r", "0.99", "0.90", 700, None), ("n", "0.99", "0.90", None, 4), ("c", "0.99", None, 700, 4),
        ("n", "0.72", "0.217", None, 1), ("r", "0.99", "0.90", 25, None), ("r", "0.5", "0.1", 2, None),
        ("n", "0.5", "0.2", None, 2), ("n", "0.5", "0.3", None, 2), ("r", "0.5", "0.3", 1, None),
        ("c", "0.9", None, 10, 11), ("c", "0.9", None, 10, 10), ("c", "0.9", None, 10, 1),
    ]
    cpath = os.path.join(ctx.verif, "corpus", "c20.json")
    if os.path.exists(cpath):
        for e in json.load(open(cpath)):
            cases.append((e["which"], e["p"], e["c"], e["n"], e["r"]))
    for p in ("0.95", "0.97725", "0.99"):
        for r in (1, 2, 5, 12):
            cases.append(("n", p, "0.90", None, r))
    # both sides of the decision boundaries: c a hair above / below the confidence reached at an integer, so that
    # the continuous root of the 'n' query lies within 1e-9 .. 1e-4 of an integer (a rounding of the root before
    # the ceil, a tolerance in the scan of 'r' ... would flip the answer); TIE = 1e-9 keeps genuine float ties out
    for _ in range(max(40, count // 8)):
        p = _dec(rng, "p")
        q = 1 - Fraction(p)
        r = rng.randint(1, 3) if rng.random() < 0.6 else rng.randint(1, 12)
        n0 = max(r, int(r / float(q) * rng.uniform(0.3, 2.5)))
        n0 = min(n0, nmax)
        cf = _conf_float(n0, r, q)
        if not 1e-3 < cf < 1 - 1e-3:
            continue
        d = rng.choice([3e-9, 1e-8, 5e-8, 2.5e-7, 6e-7, 2e-6, 1e-5, 1e-4]) * rng.choice([-1, 1])
        c = repr(cf + d)
        if rng.random() < 0.7:
            cases.append(("n", p, c, None, r))
        else:
            cases.append(("r", p, c, n0, None))
    for _ in range(count):
        which = rng.choice("rrnnc")
        p = _dec(rng, "p")
        c = _dec(rng, "c")
        q = 1 - Fraction(p)
        if which == "r":
            u = rng.random()
            n = rng.randint(1, 12) if u < 0.2 else rng.randint(1, 300) if u < 0.85 else rng.randint(300, nmax)
            if float(q) * n > 400:  # keep the scan short
                n = max(1, int(400 / float(q)))
            cases.append(("r", p, c, n, None))
        elif which == "n":
            r = rng.randint(1, 4) if rng.random() < 0.5 else rng.randint(1, 40)
            while r / float(q) > nmax and r > 1:
                r -= 1
            if r / float(q) > 2 * nmax:
                p = "0.9"
                q = Fraction(1, 10)
            if rng.random() < 0.3:
                # aim at the n = r boundary: c on either side of q**r
                t = float(q) ** r
                if 2e-3 < t < 0.998:
                    c = "%.3f" % min(0.999, max(0.001, t + rng.choice([-0.004, -0.001, 0.001, 0.004])))
            cases.append(("n", p, c, None, r))
        else:
            n = rng.randint(1, 400)
            r = rng.randint(0, min(n + 1, 60))
            cases.append(("c", p, None, n, r))
    return cases


def _gen_k(ctx, count):
    rng = ctx.rng
    out = [(0.99, 0.90, 21), (0.95, 0.5, 2), (0.99865, 0.5, 10)]
    for _ in range(count):
        p = float(_dec(rng, "p"))
        p = p if p >= 0.5 else 1 - p
        c = float(_dec(rng, "c"))
        c = min(max(c, 0.02), 0.995)
        u = rng.random()
        # n >= 2 without an upper limit: a quarter of the cases are large samples (log-uniform up to 1e9), where a
        # large-sample shortcut or a loss of accuracy of the non-central t quantile would show
        n = rng.randint(2, 30) if u < 0.45 else rng.randint(30, 400) if u < 0.75 else int(10 ** rng.uniform(2.6, 9.0))
        out.append((p, c, n))
    return out


# ---------------------------------------------------------------------------------------
# correspondence


def _impl_order(stats, case):
    which, p, c, n, r = case
    pf = float(p)
    if which == "r":
        return _ival(_call(stats.order_stats, "r", p=pf, c=float(c), n=n))
    if which == "n":
        return _ival(_call(stats.order_stats, "n", p=pf, c=float(c), r=r))
    v = _call(stats.order_stats, "c", p=pf, n=n, r=r)
    return v if isinstance(v, str) else float(v)


def _req_order(case, prefix=""):
    which, p, c, n, r = case
    q = 1 - Fraction(p)
    if which == "r":
        return "%sr %d %s %s" % (prefix, n, _fs(q), _fs(Fraction(c)))
    if which == "n":
        return "%sn %d %s %s" % (prefix, r, _fs(q), _fs(Fraction(c)))
    return "%sc %d %d %s" % (prefix, n, r, _fs(q))


def _is_tie(case, model):
    """confidence within TIE of c at the integers that decide the answer (exact arithmetic)"""
    which, p, c, n, r = case
    q = 1 - Fraction(p)
    cf = Fraction(c)
    if which == "r":
        ks = [model, model + 1]
        return any(abs(_cmp_tail(n, k, q, cf)[1]) < TIE for k in ks if k >= 1)
    ns = [model - 1, model]
    return any(abs(_cmp_tail(m, r, q, cf)[1]) < TIE for m in ns if m >= r)


def _kfactor_requests(stats, cases):
    """request lines + what the implementation returned, for the three k-factor streams"""
    from scipy.stats import norm, nct, chi2

    req, meta = [], []
    for p, c, n in cases:
        nf = np.float64(n)
        p64, c64 = np.float64(p), np.float64(c)
        with warnings.catch_warnings():
            warnings.simplefilter("ignore")
            # ksingle
            zp = norm.ppf(p64)
            sn = np.sqrt(nf)
            nc = sn * zp
            df = nf - 1
            t = nct.ppf(c64, df, nc)
            req.append("ks %s %s %s P:%s=%s T:%s,%s,%s=%s" % (
                _bits(p64), _bits(c64), _bits(nf), _bits(p64), _bits(zp), _bits(c64), _bits(df), _bits(nc), _bits(t)))
            meta.append(("ksingle", (p, c, n), _call(stats.ksingle, p, c, n)))
            # kdouble (given the implementation's own R)
            getr = getattr(stats, "_getr", None)
            R = _call(getr, n, p, 1e-12) if getr is not None else "missing"
            if isinstance(R, str):
                req.append("bad")
                meta.append(("kdouble", (p, c, n), "no-_getr:" + R))
                req.append("bad")
                meta.append(("newton", (p, c, n), "no-_getr:" + R))
                continue
            R = np.float64(R)
            omc = 1 - c64
            chi = chi2.ppf(omc, df)
            req.append("kd %s %s %s X:%s,%s=%s" % (_bits(c64), _bits(nf), _bits(R), _bits(omc), _bits(df), _bits(chi)))
            meta.append(("kdouble", (p, c, n), _call(stats.kdouble, p, c, n)))
            # Newton step at the returned R: must be a fixed point of the model's step
            s1 = 1 / np.sqrt(nf)
            lhi, llo = s1 + R, s1 - R
            req.append("ns %s %s %s C:%s=%s C:%s=%s" % (
                _bits(nf), _bits(p64), _bits(R), _bits(lhi), _bits(norm.cdf(lhi)), _bits(llo), _bits(norm.cdf(llo))))
            meta.append(("newton", (p, c, n), float(R)))
    return req, meta


def correspondence(ctx):
    stats = _stats()
    drv = ctx.driver("C20")
    nmax = ctx.pick(3000, 40000)
    cases = _gen_order(ctx, ctx.pick(6000, 25000), nmax)
    req = [_req_order(cs) for cs in cases]
    sub = [i for i in range(len(cases)) if i % 12 == 0 and (cases[i][3] or 0) <= 400
           and (cases[i][0] != "n" or cases[i][4] / float(1 - Fraction(cases[i][1])) <= 600)]
    req_rat = [_req_order(cases[i], "R") for i in sub]
    kcases = _gen_k(ctx, ctx.pick(600, 2500))
    kreq, kmeta = _kfactor_requests(stats, kcases)
    rep = drv.ask(req + req_rat + kreq)
    rep_rat = rep[len(req):len(req) + len(req_rat)]
    krep = rep[len(req) + len(req_rat):]

    # --- exact streams
    for i, cs in enumerate(cases):
        which, p, c, n, r = cs
        impl = _impl_order(stats, cs)
        m = rep[i]
        inp = {"which": which, "p": p, "c": c, "n": n, "r": r}
        if which == "c":
            num, _, den = m.partition("/")
            mv = int(num) / int(den or 1)
            nontriv = 0.0 < mv < 1.0
            ctx.case(cs, nontrivial=nontriv, branch="c:" + ("interior" if nontriv else "trivial"))
            if isinstance(impl, str) or not abs(impl - mv) <= 1e-10:
                ctx.disagree("c-exact", inp, impl, mv)
            continue
        model = m if m == "value-error" else int(m)
        if which == "r":
            br = "r:zero" if model == 0 else "r:equals-n" if model == n else "r:interior"
        else:
            br = ("n:value-error" if model == "value-error" else "n:equals-r" if model == r
                  else "n:no-doubling" if model <= 2 * r else "n:doubling")
        if impl != model:
            if model != "value-error" and not isinstance(impl, str) and abs(impl - model) == 1 and _is_tie(cs, model):
                ctx.skip("tie |confidence - c| < 1e-9")
                continue
            ctx.case(cs, nontrivial=True, branch=br)
            ctx.disagree(which + "-exact", inp, impl, model)
            continue
        ctx.case(cs, nontrivial=(br not in ("r:zero",)), branch=br)
        if i % 400 == 0:
            ctx.sample({"input": inp, "impl": impl, "model": model})
    # --- the Rat instance agrees with the unreduced-fraction instance
    for j, i in enumerate(sub):
        ctx.case(("rat",) + cases[i], nontrivial=False, branch="rat-instance")
        if rep_rat[j] != rep[i]:
            ctx.disagree("driver-instances", {"case": list(cases[i])}, rep[i], rep_rat[j])
    # --- k-factor streams
    for (stream, key, impl), line in zip(kmeta, krep):
        p, c, n = key
        inp = {"which": stream, "p": p, "c": c, "n": n}
        ctx.case((stream,) + key, nontrivial=True, branch="k:" + stream)
        if isinstance(impl, str) or line == "bad-op":
            ctx.disagree("k-" + stream, inp, impl, line)
            continue
        mv = _unbits(line)
        iv = float(impl)
        if not (abs(iv - mv) <= 1e-12 * max(1.0, abs(mv)) if stream != "newton"
                else abs(iv - mv) <= 1e-10 * max(1.0, abs(mv))):
            ctx.disagree("k-" + stream, inp, iv, mv if mv == mv else "nan (the model asked a kernel value the harness "
                         "did not predict, or the step is not a fixed point)")
        elif len(ctx.samples) < 6 and stream == "ksingle":
            ctx.sample({"input": inp, "impl": iv, "model": mv})
    # --- public entry points as a whole
    _corr_api(ctx, stats, drv.ask)
    _corr_kapi(ctx, stats, drv.ask)
    ctx.require_branches(["r:zero", "r:interior", "r:equals-n", "n:equals-r", "n:no-doubling", "n:doubling",
                          "c:interior", "rat-instance", "k:ksingle", "k:kdouble", "k:newton",
                          "api:bad-which", "api:type-error", "api:shape-error", "api:solver-error", "api:broadcast-2d",
                          "api:c:scalar", "api:r:scalar", "api:n:scalar", "api:p:scalar",
                          "api:c:array", "api:r:array", "api:n:array", "api:p:array",
                          "k:ksingle-array", "k:kdouble-array", "k:getr-loop", "k:broadcast-2d", "k:shape-error",
                          "k:getr-loops-2-3", "k:getr-loops-4+"])
    ctx.extra["not_exercised"] = ("n:value-error needs an answer above r*2^31 (p within 1e-9 of 1): theorem n_total "
                                  "characterises it, the exact model cannot be evaluated there")


# ---------------------------------------------------------------------------------------
# public entry points: dispatch, absent arguments, broadcasting, packaging (Model/OrderStatsApi.lean, KFactorApi.lean)

PQ_ITERS = 40          # halvings of the model of the 'p' root finder: centre within 2^-41 of the root
_SHAPES = [(), (), (), (1,), (2,), (3,), (2, 1), (1, 3), (2, 3), (3, 1), (1, 1), (2, 1, 3), (1, 2, 1), (0,), (2, 0), (0, 3)]
_BADWHICH = ["x", "", "C", "c ", " r", "pp", "cr", "N", "which", "rank"]


def _compatible_shapes(rng, k):
    """k shapes that broadcast together (mostly), built from one target shape"""
    tgt = rng.choice([(), (2,), (3,), (2, 3), (3, 2), (2, 1, 3), (4,), (2, 2), (0,), (2, 0), (0, 3), (1,), (1, 1)])
    out = []
    for _ in range(k):
        u = rng.random()
        if u < 0.3:
            out.append(())
        else:
            cut = rng.randint(0, len(tgt))
            sh = tuple(d if rng.random() < 0.6 else 1 for d in tgt[cut:])
            out.append(sh)
    if rng.random() < 0.12:  # make them incompatible
        i = rng.randrange(k)
        out[i] = rng.choice([(5,), (2, 5), (5, 1, 1), (7,)])
    return out


def _int_dtype(rng, a):
    """an integer (or float64) dtype that holds the values of `a`: every width from 8 bits on — since fix cd7a6f7 (F54, F55) the
    code converts to float64 / Python int before it computes; unsigned only for values >= 1 (`r - 1` of the 'c' and 'p'
    queries is done in the caller's dtype: r = 0 is outside the property's domain)"""
    ok = []
    for name in INT_DTYPES:
        dt = np.dtype(name)
        if dt.kind == "f" or not a.size:
            ok.append(dt)
            continue
        info = np.iinfo(dt)
        if a.min() >= (1 if dt.kind == "u" else info.min) and a.max() <= info.max:
            ok.append(dt)
    return rng.choice(ok)


def _pack(rng, arr, kind):
    """hand a value to the implementation the way callers do: python scalars, lists, tuples, arrays of several dtypes and
    memory layouts; the array handed over is kept so that `unchanged` can be checked"""
    a = np.asarray(arr)
    if a.ndim == 0:
        v = a[()]
        u = rng.random()
        if u < 0.5:
            return float(v) if kind == "f" else int(v)
        if u < 0.7:
            return np.float64(v) if kind == "f" else np.int64(v)
        if u < 0.8 and kind == "i":
            return float(v)
        return np.array(v)
    u = rng.random()
    if u < 0.3 and (a.size or a.ndim == 1):   # (a nested list cannot spell an empty array of rank >= 2)
        return a.tolist()
    if u < 0.4 and a.ndim == 1:
        return tuple(a.tolist())
    if kind == "i":
        a = a.astype(_int_dtype(rng, a))
    if u < 0.6:
        return np.asfortranarray(a)
    if u < 0.75 and a.size:
        big = np.zeros(tuple(2 * d for d in a.shape), dtype=a.dtype)   # a non-contiguous view
        sl = tuple(slice(None, None, 2) for _ in a.shape)
        big[sl] = a
        return big[sl]
    return a.copy()


def _nd_str(arr, fmt):
    if arr is None:
        return "-"
    a = np.asarray(arr, dtype=object) if not isinstance(arr, np.ndarray) else arr
    return "%s:%s" % (",".join(str(d) for d in a.shape), ",".join(fmt(x) for x in a.ravel(order="C")))


def _gen_api(ctx, count):
    """(which, {name: None | ndarray of strings (p, c) / ints (n, r)})"""
    rng = ctx.rng
    out = []
    # the whole decision table: every `which` (valid and not) x every subset of absent arguments, scalars
    for w in ["c", "r", "n", "p"] + _BADWHICH[:4]:
        for mask in range(16):
            a = {"p": "0.9", "c": "0.9", "n": 30, "r": 2}
            args = {k: (None if mask >> i & 1 else np.array(a[k], dtype=object)) for i, k in enumerate("pcnr")}
            out.append((w, args))
    for _ in range(count):
        w = rng.choice("crnp") if rng.random() < 0.93 else rng.choice(_BADWHICH)
        reads = {"c": "rnp", "r": "cnp", "n": "crp", "p": "crn"}.get(w, "pcn")
        shapes = dict(zip(reads, _compatible_shapes(rng, 3)))
        args = {}
        for k in "pcnr":
            if k not in shapes:
                # the quantity asked for: usually absent, sometimes given (it is ignored)
                if rng.random() < 0.75:
                    args[k] = None
                    continue
                shapes[k] = rng.choice(_SHAPES)
            elif rng.random() < 0.06:
                args[k] = None
                continue
            sh = shapes[k]
            size = int(np.prod(sh)) if sh else 1
            if k == "p":
                vals = [rng.choice(["0.5", "0.6", "0.75", "0.8", "0.9", "0.95", "0.25", "0.4"]) if rng.random() < 0.7
                        else "0.%02d" % rng.randint(5, 95) for _ in range(size)]
            elif k == "c":
                vals = [rng.choice(["0.5", "0.9", "0.75", "0.2", "0.1", "0.95", "0.6"]) if rng.random() < 0.7
                        else "0.%02d" % rng.randint(3, 97) for _ in range(size)]
            elif k == "n":
                vals = [rng.randint(1, 12) if rng.random() < 0.4 else rng.randint(1, 40) for _ in range(size)]
            else:
                vals = [rng.randint(1, 4) if rng.random() < 0.8 else rng.randint(0, 9) for _ in range(size)]
            arr = np.empty(sh, dtype=object)
            arr.ravel()[...] = vals  # C order
            if sh:
                arr = np.array(vals, dtype=object).reshape(sh)
            else:
                arr = np.array(vals[0], dtype=object)
            args[k] = arr
        out.append((w, args))
    return out


def _api_request(w, args):
    wtok = "~" if w == "" else w.replace(" ", "_")
    fq = lambda x: _fs(Fraction(str(x)))
    return "api %d %s p=%s c=%s n=%s r=%s" % (PQ_ITERS, wtok, _nd_str(args["p"], fq), _nd_str(args["c"], fq),
                                             _nd_str(args["n"], lambda x: str(int(x))), _nd_str(args["r"], lambda x: str(int(x))))


def _classify_exc(e):
    msg = str(e)
    if isinstance(e, TypeError):
        return "err type-error"
    if isinstance(e, ValueError):
        if "invalid `which`" in msg:
            return "err bad-which"
        if "broadcast" in msg or "shape mismatch" in msg:
            return "err shape-error"
        if "different signs" in msg:
            return "err solver-error"
    return "err other:%s:%s" % (type(e).__name__, msg[:60])


def _api_impl(stats, rng, w, args):
    """call the implementation; returns (classification, value, the arrays handed over with their copies)"""
    kw, held = {}, []
    for k in "pcnr":
        if args[k] is None:
            if rng.random() < 0.5:
                kw[k] = None       # explicit None and omitted are the same thing
            continue
        a = args[k]
        num = np.array([float(x) for x in a.ravel()]).reshape(a.shape) if k in "pc" else np.array([int(x) for x in a.ravel()], dtype=np.int64).reshape(a.shape)
        v = _pack(rng, num, "f" if k in "pc" else "i")
        kw[k] = v
        if isinstance(v, np.ndarray):
            held.append((k, v, v.copy()))
    try:
        with warnings.catch_warnings():
            warnings.simplefilter("ignore")
            res = stats.order_stats(w, **kw)
    except Exception as e:  # noqa: BLE001 - every exception kind is part of the modelled behaviour
        return _classify_exc(e), None, held
    if type(res) is int:
        return "pyint", res, held
    if isinstance(res, np.ndarray):
        return ("intarr" if res.dtype.kind in "iu" else "floatarr" if res.dtype.kind == "f" else "arr-" + res.dtype.str), res, held
    if isinstance(res, np.integer):
        return "npint", int(res), held
    if isinstance(res, np.floating):
        return "npfloat", float(res), held
    return "other:" + type(res).__name__, res, held


def _parse_api_reply(line):
    kind, _, rest = line.partition(" ")
    if kind == "err":
        return line, None
    if kind in ("pyint", "npint"):
        return kind, int(rest)
    if kind == "npfloat":
        return kind, float(Fraction(rest))
    dims, _, vals = rest.partition(":")
    shape = tuple(int(d) for d in dims.split(",") if d)
    items = [v for v in vals.split(",") if v]
    if kind == "intarr":
        return kind, np.array([int(v) for v in items], dtype=np.int64).reshape(shape)
    return kind, np.array([float(Fraction(v)) for v in items], dtype=float).reshape(shape)


def _api_element_tie(w, args, idx_val_pairs):
    """is one of the differing integer elements a float tie? (args broadcast elementwise)"""
    reads = {"r": "cnp", "n": "crp"}[w]
    arrs = np.broadcast_arrays(*[args[k] for k in reads])
    for flat, model in idx_val_pairs:
        el = {k: arrs[i].ravel()[flat] for i, k in enumerate(reads)}
        case = (w, str(el["p"]), str(el["c"]), int(el["n"]) if "n" in el else None, int(el["r"]) if "r" in el else None)
        if not _is_tie(case, int(model)):
            return False
    return True


def _corr_api(ctx, stats, drv_lines):
    """stream `api`: order_stats as a whole (dispatch, None, broadcasting order and shape, result packaging) — exact"""
    cases = _gen_api(ctx, ctx.pick(420, 1600))
    rep = drv_lines([_api_request(w, a) for w, a in cases])
    for (w, args), line in zip(cases, rep):
        kind_i, val_i, held = _api_impl(stats, ctx.rng, w, args)
        kind_m, val_m = _parse_api_reply(line)
        absent = "".join(k for k in "pcnr" if args[k] is None)
        inp = {"which": w, "absent": absent, "dtypes": {k: v.dtype.name for k, v, _ in held if k in "nr"},
               **{k: (None if args[k] is None else {"shape": list(args[k].shape), "values": [str(x) for x in args[k].ravel()]}) for k in "pcnr"}}
        br = ("api:" + kind_m.replace("err ", "")) if kind_m.startswith("err") else "api:%s:%s" % (w, "scalar" if kind_m in ("pyint", "npint", "npfloat") else "array")
        nontriv = not kind_m.startswith("err") and (np.size(val_m) > 0)
        ctx.case(("api", w, repr(inp)), nontrivial=nontriv, branch=br)
        if kind_m in ("intarr", "floatarr") and val_m.ndim >= 2 and val_m.size > 1:
            ctx.count("api:broadcast-2d")
        for k, v, keep in held:
            if v.tobytes() != keep.tobytes() or v.shape != keep.shape:
                ctx.disagree("api-argument-modified", inp, "argument %s changed by the call" % k, "unchanged (arguments_unchanged)")
        if kind_i != kind_m:
            ctx.disagree("api-kind", inp, kind_i, kind_m)
            continue
        if val_m is None:
            continue
        if kind_m in ("intarr", "floatarr") and np.shape(val_i) != np.shape(val_m):
            ctx.disagree("api-shape", inp, list(np.shape(val_i)), list(np.shape(val_m)))
            continue
        vi, vm = np.asarray(val_i), np.asarray(val_m)
        if kind_m in ("pyint", "npint", "intarr"):
            if not np.array_equal(vi, vm):
                bad = [(int(f), int(vm.ravel()[f])) for f in np.flatnonzero(vi.ravel() != vm.ravel())]
                if w in ("r", "n") and all(abs(int(vi.ravel()[f]) - m) == 1 for f, m in bad) and _api_element_tie(w, args, bad):
                    ctx.skip("tie |confidence - c| < 1e-9")
                    continue
                ctx.disagree("api-int-values", inp, vi.tolist(), vm.tolist())
        else:
            tol = 1e-10 if w == "c" else 1e-9
            if not np.all(np.abs(vi - vm) <= tol):
                ctx.disagree("api-float-values", inp, vi.tolist(), vm.tolist())


def _kf_grid(ctx, count):
    """(p, c, n) float/int arrays with broadcast-compatible shapes for the k-factor entry points"""
    rng = ctx.rng
    out = []
    for _ in range(count):
        shp = _compatible_shapes(rng, 3)
        arrs = []
        for k, sh in zip("pcn", shp):
            size = int(np.prod(sh)) if sh else 1
            if k == "p":
                vals = [rng.choice([0.5, 0.75, 0.9, 0.95, 0.99, 0.999, 0.6]) if rng.random() < 0.7 else round(rng.uniform(0.5, 0.999), 3) for _ in range(size)]
            elif k == "c":
                vals = [rng.choice([0.5, 0.9, 0.95, 0.1, 0.75, 0.99]) if rng.random() < 0.7 else round(rng.uniform(0.03, 0.99), 2) for _ in range(size)]
            else:
                vals = [rng.randint(2, 12) if rng.random() < 0.5 else rng.randint(2, 400) if rng.random() < 0.8 else int(10 ** rng.uniform(2.5, 6)) for _ in range(size)]
            arrs.append(np.array(vals, dtype=float if k != "n" else np.int64).reshape(sh))
        out.append(tuple(arrs))
    return out


class _NormRecorder:
    """stands in for `stats.norm` during one call and records the (argument, value) pairs of cdf/ppf, so that the Lean
    model is given exactly the kernel values the implementation used"""

    def __init__(self, real):
        self._real = real
        self.cdf_log, self.ppf_log = [], []

    def cdf(self, x):
        v = self._real.cdf(x)
        self.cdf_log.append((np.array(x, dtype=float).ravel(), np.array(v, dtype=float).ravel()))
        return v

    def ppf(self, x):
        v = self._real.ppf(x)
        self.ppf_log.append((np.array(x, dtype=float).ravel(), np.array(v, dtype=float).ravel()))
        return v


def _with_recorder(stats, fn):
    real = stats.norm
    rec = _NormRecorder(real)
    stats.norm = rec
    try:
        with warnings.catch_warnings():
            warnings.simplefilter("ignore")
            try:
                res = fn()
            except Exception as e:  # noqa: BLE001
                res = _classify_exc(e)
    finally:
        stats.norm = real
    return res, rec


def _tab_entries(rec):
    ent = []
    for xs, vs in rec.ppf_log:
        ent += ["P:%s=%s" % (_bits(x), _bits(v)) for x, v in zip(xs, vs)]
    for xs, vs in rec.cdf_log:
        ent += ["C:%s=%s" % (_bits(x), _bits(v)) for x, v in zip(xs, vs)]
    return ent


def _parse_farr(txt):
    dims, _, vals = txt.partition(":")
    shape = tuple(int(d) for d in dims.split(",") if d)
    return np.array([_unbits(v) for v in vals.split(",") if v], dtype=float).reshape(shape)


def _corr_kapi(ctx, stats, drv_lines):
    """streams `ksingle-array`, `kdouble-array`, `getr-loop`: the array entry points and the whole Newton loop"""
    from scipy.stats import norm, nct, chi2

    rng = ctx.rng
    grids = _kf_grid(ctx, ctx.pick(160, 700))
    req, meta = [], []
    fb = lambda x: _bits(np.float64(x))
    for p, c, n in grids:
        nf = n.astype(float)
        tol = rng.choice([1e-12, 1e-12, 1e-12, 1e-9, 1e-6, 1e-3, 1e-14])
        try:
            bp, bc, bn = np.broadcast_arrays(p, c, nf)
        except ValueError:
            bp = bc = bn = None
        args = [_pack(rng, p, "f"), _pack(rng, c, "f"), _pack(rng, n, "i")]
        held = [(v, v.copy()) for v in args if isinstance(v, np.ndarray)]
        inp = {"p": p.tolist(), "c": c.tolist(), "n": n.tolist(), "shapes": [list(p.shape), list(c.shape), list(n.shape)],
               "n_dtype": args[2].dtype.name if isinstance(args[2], np.ndarray) else type(args[2]).__name__}
        with warnings.catch_warnings():
            warnings.simplefilter("ignore")
            # ---- ksingle
            tab = []
            if bp is not None:
                for pp, cc, nn in zip(bp.ravel(), bc.ravel(), bn.ravel()):
                    zp = norm.ppf(pp)
                    nc = np.sqrt(nn) * zp
                    tab.append("P:%s=%s" % (fb(pp), fb(zp)))
                    tab.append("T:%s,%s,%s=%s" % (fb(cc), fb(nn - 1), fb(nc), fb(nct.ppf(cc, nn - 1, nc))))
            req.append("ksa p=%s c=%s n=%s %s" % (_nd_str(p, fb), _nd_str(c, fb), _nd_str(nf, fb), " ".join(sorted(set(tab)))))
            try:
                res = stats.ksingle(*args)
            except Exception as e:  # noqa: BLE001
                res = _classify_exc(e)
            meta.append(("ksingle-array", inp, res, None, held))
            # ---- kdouble (kernel values recorded from the implementation's own calls)
            res, rec = _with_recorder(stats, lambda: stats.kdouble(args[0], args[1], args[2], tol))
            tab = _tab_entries(rec)
            if bp is not None:
                for cc, nn in zip(bc.ravel(), bn.ravel()):
                    tab.append("X:%s,%s=%s" % (fb(1 - cc), fb(nn - 1), fb(chi2.ppf(1 - cc, nn - 1))))
            req.append("kda %s p=%s c=%s n=%s %s" % (fb(tol), _nd_str(p, fb), _nd_str(c, fb), _nd_str(nf, fb), " ".join(dict.fromkeys(tab))))
            meta.append(("kdouble-array", dict(inp, tol=tol), res, len(rec.cdf_log) // 2, held))
            # ---- _getr on the (n, prob) grid
            getr = getattr(stats, "_getr", None)
            if getr is None:
                res, rec = "err missing _getr", _NormRecorder(norm)
            else:
                res, rec = _with_recorder(stats, lambda: getr(n, p, tol))
            req.append("gra %s n=%s prob=%s %s" % (fb(tol), _nd_str(nf, fb), _nd_str(p, fb), " ".join(dict.fromkeys(_tab_entries(rec)))))
            steps = None
            if not isinstance(res, str) and rec.cdf_log:
                # |step| of every pass, from the recorded arguments lhi = sn + rold, llo = sn - rold
                rolds = [(a[0] - b[0]) / 2 for a, b in zip(rec.cdf_log[0::2], rec.cdf_log[1::2])]
                rolds.append(np.asarray(res, dtype=float).ravel())
                steps = [np.max(np.abs(b - a)) if np.size(a) else 0.0 for a, b in zip(rolds[:-1], rolds[1:])]
            meta.append(("getr-loop", dict(inp, tol=tol), res, (len(rec.cdf_log) // 2, steps, tol), held))
    rep = drv_lines(req)
    for (stream, inp, res, aux, held), line in zip(meta, rep):
        ctx.case((stream, repr(inp)), nontrivial=True, branch="k:" + stream)
        for v, keep in held:
            if v.tobytes() != keep.tobytes():
                ctx.disagree("k-argument-modified", inp, "an argument array was changed by " + stream, "unchanged (arguments_unchanged)")
                v[...] = keep
        if line == "shape-error" or isinstance(res, str):
            if not (line == "shape-error" and res == "err shape-error"):
                ctx.disagree(stream + "-kind", inp, res if isinstance(res, str) else "a result", line[:80])
            else:
                ctx.count("k:shape-error")
            continue
        if line == "bad-op":
            ctx.disagree(stream, inp, "a result", "bad-op")
            continue
        loops_m = None
        if stream != "ksingle-array":
            lm, _, line = line.partition(" ")
            loops_m = int(lm)
        mv = _parse_farr(line)
        iv = np.asarray(res, dtype=float)
        if iv.shape != mv.shape:
            ctx.disagree(stream + "-shape", inp, list(iv.shape), list(mv.shape))
            continue
        if mv.ndim >= 2 and mv.size > 1:
            ctx.count("k:broadcast-2d")
        if mv.ndim == 0 and not isinstance(res, np.floating):
            ctx.disagree(stream + "-kind", inp, type(res).__name__, "numpy float scalar")
        tolv = 1e-12 if stream == "ksingle-array" else 1e-10
        ok = np.all((np.abs(iv - mv) <= tolv * np.maximum(1.0, np.abs(mv))) | (np.isnan(iv) & np.isnan(mv) & (stream == "ksingle-array")))
        if not ok:
            ctx.disagree(stream, inp, iv.tolist(), [x if x == x else "nan (the model asked for a kernel value that the implementation did not use)" for x in mv.ravel().tolist()])
            continue
        if stream == "getr-loop":
            loops_i, steps, tol = aux
            if loops_m != loops_i:
                # the stopping test compares |step| with tol: a step within 0.1 % of tol can fall either way in the last bit
                if steps is not None and any(abs(s - tol) <= 1e-3 * tol + 2e-15 for s in steps):
                    ctx.skip("Newton step within 0.1% of tol")
                else:
                    ctx.disagree("getr-loop-count", inp, loops_i, loops_m)
            else:
                ctx.count("k:getr-loops-%s" % ("1" if loops_m <= 1 else "2-3" if loops_m <= 3 else "4+"))


# ---------------------------------------------------------------------------------------
# model-free oracle


def _conf_float(n, r, q):
    num, den = exact_tail(n, r, q)
    return num / den


def _o_order(stats, case):
    """adjacent-integer / defining-sum checks for one order_stats case; returns failure dicts"""
    which, p, c, n, r = case
    out = []
    q = 1 - Fraction(p)
    inp = {"kind": "order", "which": which, "p": p, "c": c, "n": n, "r": r}

    def fail(family, what, observed, required):
        out.append({"family": family, "what": what, "input": inp, "observed": observed, "required": required})

    if which == "c":
        v = _call(stats.order_stats, "c", p=float(p), n=n, r=r)
        want = _conf_float(n, r, q)
        if isinstance(v, str) or not abs(float(v) - want) <= 1e-10:
            fail("order-stats-c-not-binomial-tail", "order_stats('c') is not P(X >= r), X ~ Binomial(n, 1-p)", v, want)
        return out
    cf = Fraction(c)
    if which == "r":
        R = _ival(_call(stats.order_stats, "r", p=float(p), c=float(c), n=n))
        if not isinstance(R, int) or not 0 <= R <= n:
            fail("order-stats-r-invalid", "order_stats('r') does not return an integer in [0, n]", R, "0 <= r <= n")
            return out
        g_at = _cmp_tail(n, R, q, cf)[1]      # must be > 0  (conf(R) above c), unless R == 0
        g_up = _cmp_tail(n, R + 1, q, cf)[1]  # must be <= 0 (conf(R+1) not above c)
        if R >= 1 and g_at < -TIE:
            fail("order-stats-r-too-high", "returned rank does not meet the confidence",
                 {"r": R, "conf(r)": float(c) + g_at}, "conf(r) >= c = %s" % c)
        if g_up > TIE:
            fail("order-stats-r-too-low", "rank r+1 also meets the confidence: returned rank is not the largest",
                 {"r": R, "conf(r+1)": float(c) + g_up}, "conf(r+1) <= c = %s" % c)
        return out
    N = _ival(_call(stats.order_stats, "n", p=float(p), c=float(c), r=r))
    at_boundary = _cmp_tail(r, r, q, cf)[0] >= 0  # r samples already meet c: the answer is n = r
    if not isinstance(N, int):
        # does an answer exist within the documented search range?  it does whenever the boundary case holds or
        # the expected size is modest
        if at_boundary:
            fail("order-stats-n-equals-r", "order_stats('n') fails when the answer is n = r", N, r)
        elif r / float(q) < 1e8:
            fail("order-stats-n-raises", "order_stats('n') raises although a sample size exists", N, "an integer")
        return out
    if N < r:
        fail("order-stats-n-below-r", "returned sample size is smaller than the rank", N, "n >= r = %d" % r)
        return out
    g_at = _cmp_tail(N, r, q, cf)[1]
    fam_sfx = "-at-n-equals-r" if at_boundary else ""
    if g_at < -TIE:
        fail("order-stats-n-too-small" + fam_sfx, "returned sample size does not meet the confidence",
             {"n": N, "conf(n)": float(c) + g_at}, "conf(n) >= c = %s" % c)
    if N > r:
        g_dn = _cmp_tail(N - 1, r, q, cf)[1]
        if g_dn > TIE:
            fail("order-stats-n-equals-r" if at_boundary else "order-stats-n-too-large",
                 "n - 1 samples already meet the confidence: returned size is not the smallest",
                 {"n": N, "conf(n-1)": float(c) + g_dn}, "conf(n-1) < c = %s" % c)
    return out


def _o_orderbig(stats, item):
    """order_stats('c') for sample sizes at and beyond the 32-bit integer limits (n = 2**31 - 1 ... 1e12), small ranks and
    1 - p of the order of 1/n: against the binomial tail summed in log space (the r leading terms; exact to ~1e-12)"""
    n, r, lam = item["n"], item["r"], item["lam"]
    pf = 1.0 - lam / n   # the API takes p: 1 - p as the routine sees it is not lam / n exactly (cancellation)
    q = 1.0 - pf
    out = []
    tot = 0.0
    for k in range(r):
        lc = sum(math.log(n - j) for j in range(k)) - math.lgamma(k + 1)
        tot += math.exp(lc + k * math.log(q) + (n - k) * math.log1p(-q))
    want = 1.0 - tot
    for form, nn in (("int", n), ("float", float(n)), ("array", np.array([n]))):
        v = _call(stats.order_stats, "c", p=pf, n=nn, r=r)
        try:
            val = float(np.asarray(v).ravel()[0])
        except Exception:  # noqa: BLE001
            val = float("nan")
        if isinstance(v, str) or not abs(val - want) <= 1e-7:
            out.append({"family": "order-stats-c-not-binomial-tail-huge-n", "what": "order_stats('c') with n = %d (%s) is not the "
                        "binomial tail P(X >= r), X ~ Binomial(n, 1-p)" % (n, form), "input": dict(item, form=form),
                        "observed": v if isinstance(v, str) else val, "required": want})
            break
    return out


def _o_consistency(stats, p, c, n):
    """'r' -> 'n' -> 'c' -> 'p' round trips and scalar == broadcast"""
    out = []
    inp = {"kind": "consistency", "p": p, "c": c, "n": n}
    q = 1 - Fraction(p)
    cf = Fraction(c)

    def fail(family, what, observed, required):
        out.append({"family": family, "what": what, "input": inp, "observed": observed, "required": required})

    os_ = stats.order_stats
    R = _ival(_call(os_, "r", p=float(p), c=float(c), n=n))
    if not isinstance(R, int):
        return out
    if R >= 1 and abs(_cmp_tail(n, R, q, cf)[1]) > TIE and abs(_cmp_tail(n, R + 1, q, cf)[1]) > TIE:
        N = _ival(_call(os_, "n", p=float(p), c=float(c), r=R))
        if not isinstance(N, int) or N > n:
            fail("order-stats-r-n-inconsistent", "rank r is reached with n samples but 'n' asks for more",
                 {"r": R, "n('n' query)": N}, "<= %d" % n)
        if R + 1 <= 60:
            N2 = _ival(_call(os_, "n", p=float(p), c=float(c), r=R + 1))
            if isinstance(N2, int) and N2 <= n:
                fail("order-stats-r-n-inconsistent", "'n' says rank r+1 is reachable with <= n samples, 'r' returned r",
                     {"r": R, "n(r+1)": N2}, "> %d" % n)
        conf = _call(os_, "c", p=float(p), n=n, r=R)
        if isinstance(conf, str) or float(conf) < float(c) - TIE:
            fail("order-stats-r-c-inconsistent", "'c' at the returned rank is below the requested confidence", conf, c)
        # 'p' inverts 'c'
        P = _call(os_, "p", c=float(c), n=n, r=R)
        if isinstance(P, str) or not (float(p) - 1e-9 <= float(P) <= 1):
            fail("order-stats-p-inconsistent", "'p' at (c, n, r) is below the coverage p that r was computed for", P,
                 ">= %s" % p)
        else:
            back = _call(os_, "c", p=float(P), n=n, r=R)
            if isinstance(back, str) or abs(float(back) - float(c)) > 1e-8:
                fail("order-stats-p-not-inverse", "'c' at the coverage returned by 'p' is not c", back, c)
    return out


def _gen_broadcast(rng):
    return {"kind": "broadcast", "p": [float(_dec(rng, "p")) for _ in range(3)], "c": float(_dec(rng, "c")),
            "n": [rng.randint(5, 300) for _ in range(2)], "r": [rng.randint(1, 6) for _ in range(2)]}


def _o_broadcast(stats, item):
    out = []
    ps, cs, ns, rs = list(item["p"]), item["c"], list(item["n"]), list(item["r"])
    inp = {"kind": "broadcast", "p": ps, "c": cs, "n": ns, "r": rs}

    def fail(which, observed, required):
        out.append({"family": "broadcast-mismatch-" + which, "what": "array arguments do not give the scalar answers "
                    "elementwise (%s)" % which, "input": inp, "observed": observed, "required": required})

    os_ = stats.order_stats
    col_n = np.array(ns).reshape(-1, 1)
    col_r = np.array(rs).reshape(-1, 1)
    keep_n, keep_r = col_n.copy(), col_r.copy()

    def unchanged(which):
        # the caller's arrays are reused from call to call (a k table for several confidence levels from one n vector):
        # they must come back as they went in
        if col_n.tobytes() != keep_n.tobytes() or col_r.tobytes() != keep_r.tobytes():
            out.append({"family": "argument-array-modified-" + which, "what": "the caller's n / r array is changed by the call (%s)"
                        % which, "input": inp, "observed": [col_n.ravel().tolist(), col_r.ravel().tolist()],
                        "required": [keep_n.ravel().tolist(), keep_r.ravel().tolist()]})
            col_n[...] = keep_n
            col_r[...] = keep_r

    for which, kw, scal in (
        ("r", dict(p=ps, c=cs, n=col_n), lambda i, j: _call(os_, "r", p=ps[j], c=cs, n=ns[i])),
        ("n", dict(p=ps, c=cs, r=col_r), lambda i, j: _call(os_, "n", p=ps[j], c=cs, r=rs[i])),
        ("c", dict(p=ps, n=col_n, r=col_r), lambda i, j: _call(os_, "c", p=ps[j], n=ns[i], r=rs[i])),
        ("p", dict(c=cs, n=col_n, r=col_r), None),
        ("ksingle", None, lambda i, j: _call(stats.ksingle, ps[j], cs, ns[i])),
        ("kdouble", None, lambda i, j: _call(stats.kdouble, ps[j], cs, ns[i])),
    ):
        if which == "p":
            arr = _call(os_, "p", **kw)
            unchanged("p")
            want = [[_call(os_, "p", c=cs, n=ns[i], r=rs[i])] for i in range(2)]
            if any(isinstance(w[0], str) for w in want):
                continue  # r > n for one of the elements: no coverage has that confidence, scalar and array calls both raise
            if isinstance(arr, str) or np.shape(arr) != (2, 1) or not np.allclose(arr, want, rtol=0, atol=1e-9):
                fail("p", np.asarray(arr).tolist() if not isinstance(arr, str) else arr, want)
            continue
        if which in ("ksingle", "kdouble"):
            arr = _call(getattr(stats, which), ps, cs, col_n)
        else:
            arr = _call(os_, which, **kw)
        unchanged(which)
        want = [[scal(i, j) for j in range(3)] for i in range(2)]
        if any(isinstance(w, str) for row in want for w in row):
            continue  # scalar failures are reported by the scalar checks
        ok = (not isinstance(arr, str)) and np.shape(arr) == (2, 3) and (
            np.array_equal(np.asarray(arr), np.asarray(want)) if which in ("r", "n")
            else np.allclose(arr, want, rtol=1e-12, atol=1e-12))
        if ok and which in ("r", "n") and np.asarray(arr).dtype.kind not in "iu":
            ok = False
        if not ok:
            fail(which, np.asarray(arr).tolist() if not isinstance(arr, str) else arr, np.asarray(want).tolist())
    return out


def _o_kfactor(stats, p, c, n):
    from scipy.stats import norm, nct, chi2

    out = []
    inp = {"kind": "kfactor", "p": p, "c": c, "n": n}

    def fail(family, what, observed, required):
        out.append({"family": family, "what": what, "input": inp, "observed": observed, "required": required})

    with warnings.catch_warnings():
        warnings.simplefilter("ignore")
        sn = math.sqrt(n)
        zp = norm.ppf(p)
        k1 = _call(stats.ksingle, p, c, n)
        want = nct.ppf(c, n - 1, zp * sn) / sn
        if not math.isfinite(want):
            # scipy's non-central t quantile itself gives up (nan) for very large non-centrality: no reference
            return out
        if isinstance(k1, str) or not abs(float(k1) - want) <= 1e-10 * max(1.0, abs(want)):
            fail("ksingle-not-nct-quantile", "ksingle != nct.ppf(c, n-1, z_p sqrt n)/sqrt n", k1, want)
        else:
            res = nct.cdf(sn * float(k1), n - 1, sn * zp) - c
            if not abs(res) <= 1e-7:
                fail("ksingle-defining-equation", "P[T_{n-1}(sqrt n z_p) <= sqrt n k] != c", c + res, c)
        k2 = _call(stats.kdouble, p, c, n)
        if isinstance(k2, str) or not (float(k2) > 0):
            fail("kdouble-invalid", "kdouble does not return a positive number", k2, "> 0")
        else:
            chi = chi2.ppf(1 - c, n - 1)
            R = float(k2) / math.sqrt((n - 1) / chi)
            cov = norm.cdf(1 / sn + R) - norm.cdf(1 / sn - R)
            if not abs(cov - p) <= 1e-8:
                fail("kdouble-coverage-equation", "with R = k sqrt(chi2.ppf(1-c,n-1)/(n-1)): "
                     "Phi(1/sqrt n + R) - Phi(1/sqrt n - R) != p", cov, p)
            res2 = chi2.cdf((n - 1) * R * R / float(k2) ** 2, n - 1) - (1 - c)
            if not abs(res2) <= 1e-8:
                fail("kdouble-chi2-equation", "chi2 equation residual", res2, 0.0)
    return out


def _o_kmono(stats, n, rng):
    """strict increase in p and in c on a grid, for both factors"""
    out = []
    ps = [0.5, 0.6, 0.75, 0.9, 0.95, 0.99, 0.999]
    cs = [0.05, 0.25, 0.5, 0.75, 0.9, 0.99]
    inp = {"kind": "kmono", "n": n}
    with warnings.catch_warnings():
        warnings.simplefilter("ignore")
        for name in ("ksingle", "kdouble"):
            fn = getattr(stats, name)
            tab = _call(fn, np.array(ps).reshape(-1, 1), np.array(cs), n)
            if isinstance(tab, str) or np.shape(tab) != (len(ps), len(cs)) or not np.all(np.isfinite(tab)):
                out.append({"family": name + "-grid-invalid", "what": "grid evaluation failed", "input": inp,
                            "observed": tab if isinstance(tab, str) else np.asarray(tab).tolist(), "required": "finite table"})
                continue
            tab = np.asarray(tab)
            if not np.all(np.diff(tab, axis=0) > 0):
                out.append({"family": name + "-not-increasing-in-p", "what": "k-factor does not increase with coverage p",
                            "input": inp, "observed": tab.tolist(), "required": "rows strictly increasing"})
            if not np.all(np.diff(tab, axis=1) > 0):
                out.append({"family": name + "-not-increasing-in-c", "what": "k-factor does not increase with confidence c",
                            "input": inp, "observed": tab.tolist(), "required": "columns strictly increasing"})
    return out


def _o_klimit(stats, p, c):
    from scipy.stats import norm

    out = []
    inp = {"kind": "klimit", "p": p, "c": c}
    ns = [100, 1000, 10000, 100000, 1000000, 3000000, 10000000, 100000000]
    with warnings.catch_warnings():
        warnings.simplefilter("ignore")
        for name, z in (("ksingle", norm.ppf(p)), ("kdouble", norm.ppf((1 + p) / 2))):
            ks = _call(getattr(stats, name), p, c, ns)
            if isinstance(ks, str) or not np.all(np.isfinite(ks)):
                out.append({"family": name + "-limit-invalid", "what": "large-n evaluation failed", "input": inp,
                            "observed": ks if isinstance(ks, str) else np.asarray(ks).tolist(), "required": "finite"})
                continue
            d = np.asarray(ks) - z
            bad = None
            if c >= 0.5 and not np.all(d > -1e-9):
                bad = "approaches the normal quantile from below although c >= 0.5"
            elif not np.all(np.diff(np.abs(d)) < 1e-9):
                bad = "|k - z| does not decrease as n grows"
            elif not abs(d[-1]) <= 6.0 / math.sqrt(ns[-1]) * (1 + z):
                bad = "k at the largest n is not within O(1/sqrt n) of the normal quantile"
            elif c < 0.5 and name == "ksingle" and not np.all(d[2:] < 1e-9):
                bad = "one-sided factor lies above the normal quantile although c < 0.5"
            if bad:
                out.append({"family": name + "-limit", "what": bad, "input": inp,
                            "observed": np.asarray(ks).tolist(), "required": "-> %r" % float(z)})
    return out


# ---- oracle items for the public entry points, the root finders and the added specification clauses


def _scalar_ref(stats, w, el):
    """the scalar answer (python scalars in) for one element of a broadcast call"""
    kw = {k: (float(v) if k in "pc" else int(v)) for k, v in el.items()}
    return _call(stats.order_stats, w, **kw)


def _o_apicall(stats, item):
    """order_stats on array_like arguments restated on the public API: which strings, absent arguments, shape =
    numpy's broadcast shape, element [idx] = the scalar answer for the arguments' elements, arguments unchanged"""
    out = []
    w = item["which"]
    spec = {k: item.get(k) for k in "pcnr"}
    inp = dict(item)

    def fail(family, what, observed, required):
        out.append({"family": family, "what": what, "input": inp, "observed": observed, "required": required})

    kw = {}
    for k, v in spec.items():
        if v is None:
            continue
        a = np.array([float(x) if k in "pc" else int(x) for x in v["values"]], dtype=float if k in "pc" else np.int64).reshape(v["shape"])
        if k in (item.get("dtypes") or {}) and a.ndim:
            a = a.astype(item["dtypes"][k])
        kw[k] = a if a.ndim else (float(a) if k in "pc" else int(a))
    keep = {k: (v.copy() if isinstance(v, np.ndarray) else v) for k, v in kw.items()}
    try:
        with warnings.catch_warnings():
            warnings.simplefilter("ignore")
            res = stats.order_stats(w, **kw)
        exc = None
    except Exception as e:  # noqa: BLE001
        res, exc = None, e
    for k, v in kw.items():
        if isinstance(v, np.ndarray) and (v.shape != keep[k].shape or v.tobytes() != keep[k].tobytes()):
            fail("argument-array-modified-order-stats", "order_stats('%s') changed the caller's %s array" % (w, k), v.tolist(), keep[k].tolist())
    if w not in ("c", "r", "n", "p"):
        if not isinstance(exc, ValueError):
            fail("order-stats-invalid-which-accepted", "an invalid `which` does not raise ValueError", repr(res) if exc is None else type(exc).__name__, "ValueError")
        return out
    reads = {"c": "rnp", "r": "cnp", "n": "crp", "p": "crn"}[w]
    shapes = [np.shape(kw[k]) if k in kw else () for k in reads]
    try:
        bshape = np.broadcast_shapes(*shapes)
    except ValueError:
        if exc is None:
            fail("order-stats-shape-mismatch-accepted", "arguments that cannot be broadcast are accepted", np.shape(res), "an exception")
        return out
    size = int(np.prod(bshape)) if bshape else 1
    if any(k not in kw for k in reads):
        # an argument the query needs is absent: there is nothing to compute, a value must not come back
        if exc is None and (size > 0 or w == "c"):
            fail("order-stats-missing-argument-accepted", "order_stats('%s') returns a value although %s is absent"
                 % (w, [k for k in reads if k not in kw]), repr(res)[:80], "an exception")
        return out
    arrs = np.broadcast_arrays(*[np.asarray(kw[k]) for k in reads])
    want = np.empty(bshape, dtype=object)
    for idx in np.ndindex(*bshape):
        want[idx] = _scalar_ref(stats, w, {k: arrs[i][idx] for i, k in enumerate(reads)})
    if any(isinstance(x, str) for x in want.ravel()):
        if exc is None and size:
            fail("broadcast-mismatch-" + w, "an element whose scalar call raises is accepted in an array call", repr(res)[:80], "an exception")
        return out
    if exc is not None:
        fail("broadcast-mismatch-" + w, "array arguments raise although every element has a scalar answer",
             "%s: %s" % (type(exc).__name__, str(exc)[:80]), "shape %s" % (bshape,))
        return out
    if np.shape(res) != tuple(bshape):
        fail("broadcast-mismatch-" + w, "result shape is not the broadcast shape of the arguments", list(np.shape(res)), list(bshape))
        return out
    got = np.asarray(res)
    if w in ("r", "n"):
        ok = got.dtype.kind in "iu" and np.array_equal(got.astype(object), want) if size else got.dtype.kind in "iu"
    else:
        ok = got.dtype.kind == "f" and (not size or np.allclose(got.astype(float), want.astype(float), rtol=0, atol=1e-9))
    if not ok:
        fail("broadcast-mismatch-" + w, "array arguments do not give the scalar answers elementwise (%s)" % w,
             got.tolist(), want.tolist())
    if not bshape and isinstance(res, np.ndarray):
        fail("broadcast-mismatch-" + w, "scalar arguments return an array", "ndarray", "a scalar")
    # the quantity asked for is not read: supplying it must not matter
    if item.get("probe_unknown", True) and size and size <= 6:
        junk = {"c": 0.123, "r": 3, "n": 17, "p": 0.321}[w]
        res2 = _call(stats.order_stats, w, **dict(kw, **{w: junk}))
        if isinstance(res2, str) or np.shape(res2) != np.shape(res) or not np.allclose(np.asarray(res2, dtype=float), got.astype(float), rtol=0, atol=1e-12):
            fail("order-stats-unknown-argument-read", "supplying the quantity that is asked for changes the answer",
                 res2 if isinstance(res2, str) else np.asarray(res2).tolist(), got.tolist())
    return out


def _gen_apicall(rng):
    w = rng.choice("crnp") if rng.random() < 0.9 else rng.choice(_BADWHICH)
    reads = {"c": "rnp", "r": "cnp", "n": "crp", "p": "crn"}.get(w, "pcn")
    shapes = dict(zip(reads, _compatible_shapes(rng, 3)))
    item = {"kind": "apicall", "which": w, "p": None, "c": None, "n": None, "r": None}
    for k in reads:
        if rng.random() < 0.05:
            continue
        sh = shapes[k]
        size = int(np.prod(sh)) if sh else 1
        if k == "p":
            vals = [rng.choice(["0.5", "0.75", "0.9", "0.95", "0.6", "0.25"]) if rng.random() < 0.7 else "0.%02d" % rng.randint(5, 95) for _ in range(size)]
        elif k == "c":
            vals = [rng.choice(["0.5", "0.9", "0.75", "0.2", "0.95"]) if rng.random() < 0.7 else "0.%02d" % rng.randint(3, 97) for _ in range(size)]
        elif k == "n":
            vals = [rng.randint(1, 60) for _ in range(size)]
        else:
            vals = [rng.randint(1, 4) if rng.random() < 0.85 else rng.randint(0, 9) for _ in range(size)]
        item[k] = {"shape": list(sh), "values": [str(v) for v in vals]}
        if k in "nr" and sh:
            item.setdefault("dtypes", {})[k] = _int_dtype(rng, np.array(vals if vals else [1])).name
    return item


def _o_kcall(stats, item):
    """ksingle / kdouble on array_like arguments: shape = broadcast shape, elementwise = scalar calls, arguments unchanged"""
    out = []
    inp = dict(item)
    arrs = [np.array(item[k]["values"], dtype=float if k != "n" else np.int64).reshape(item[k]["shape"]) for k in "pcn"]
    if item.get("n_dtype") in INT_DTYPES and arrs[2].ndim:
        arrs[2] = arrs[2].astype(item["n_dtype"])
    try:
        bshape = np.broadcast_shapes(*[a.shape for a in arrs])
    except ValueError:
        bshape = None
    for name in ("ksingle", "kdouble"):
        fn = getattr(stats, name)
        args = [a.copy() if a.ndim else a[()].item() for a in arrs]
        keep = [a.copy() if isinstance(a, np.ndarray) else a for a in args]
        res = _call(fn, *args)
        for k, a, b in zip("pcn", args, keep):
            if isinstance(a, np.ndarray) and a.tobytes() != b.tobytes():
                out.append({"family": "argument-array-modified-" + name, "what": "%s changed the caller's %s array" % (name, k),
                            "input": inp, "observed": a.tolist(), "required": b.tolist()})
        if bshape is None:
            if not isinstance(res, str):
                out.append({"family": "broadcast-mismatch-" + name, "what": "arguments that cannot be broadcast are accepted",
                            "input": inp, "observed": list(np.shape(res)), "required": "an exception"})
            continue
        b3 = np.broadcast_arrays(*arrs)
        want = np.empty(bshape, dtype=float)
        for idx in np.ndindex(*bshape):
            v = _call(fn, float(b3[0][idx]), float(b3[1][idx]), int(b3[2][idx]))
            want[idx] = np.nan if isinstance(v, str) else float(v)
        ok = (not isinstance(res, str)) and np.shape(res) == tuple(bshape) and np.allclose(np.asarray(res, dtype=float), want, rtol=1e-10, atol=1e-12, equal_nan=True)
        if not ok:
            out.append({"family": "broadcast-mismatch-" + name, "what": "array arguments do not give the scalar answers elementwise (%s)" % name,
                        "input": inp, "observed": res if isinstance(res, str) else np.asarray(res).tolist(), "required": want.tolist()})
    return out


def _gen_kcall(rng):
    shp = _compatible_shapes(rng, 3)
    if rng.random() < 0.9:
        # always compatible here
        tgt = rng.choice([(2, 3), (3,), (2, 1, 2), (4,), ()])
        shp = [tuple(d if rng.random() < 0.6 else 1 for d in tgt[rng.randint(0, len(tgt)):]) for _ in range(3)]
    item = {"kind": "kcall"}
    for k, sh in zip("pcn", shp):
        size = int(np.prod(sh)) if sh else 1
        if k == "p":
            vals = [rng.choice([0.5, 0.75, 0.9, 0.95, 0.99, 0.999]) for _ in range(size)]
        elif k == "c":
            vals = [rng.choice([0.5, 0.9, 0.95, 0.1, 0.75, 0.99]) for _ in range(size)]
        else:
            vals = [rng.randint(2, 12) if rng.random() < 0.5 else rng.randint(2, 3000) for _ in range(size)]
        item[k] = {"shape": list(sh), "values": vals}
    item["n_dtype"] = _int_dtype(rng, np.array(item["n"]["values"] or [2])).name
    return item


def _o_proot(stats, item):
    """order_stats('p'): the returned coverage sits inside a sign-change bracket of brentq's width (exact rational
    arithmetic): THE root (p_query_exists_unique) is within that width (bisect_brackets_root); no root -> ValueError"""
    out = []
    c, n, r = item["c"], item["n"], item["r"]
    inp = dict(item)
    P = _call(stats.order_stats, "p", c=float(c), n=n, r=r)
    if not (1 <= r <= n):
        if P != "value-error":
            out.append({"family": "order-stats-p-no-root-accepted", "what": "'p' returns although no coverage has this confidence (r = 0 or r > n)",
                        "input": inp, "observed": P, "required": "ValueError"})
        return out
    if isinstance(P, str) or not 0.0 < float(P) < 1.0:
        out.append({"family": "order-stats-p-raises", "what": "'p' fails although exactly one coverage in (0, 1) has this confidence",
                    "input": inp, "observed": P, "required": "a coverage in (0, 1)"})
        return out
    P = float(P)
    delta = 2 * (2e-12 + 4 * np.finfo(float).eps)      # twice brentq's default xtol + rtol |x| on [0, 1]
    cf = Fraction(c)
    lo = _cmp_tail(n, r, 1 - Fraction(min(1.0, P + delta)), cf)[0]   # coverage a little larger: confidence must be <= c
    hi = _cmp_tail(n, r, 1 - Fraction(max(0.0, P - delta)), cf)[0]   # coverage a little smaller: confidence must be >= c
    if lo > 0 or hi < 0:
        out.append({"family": "order-stats-p-not-root", "what": "the confidence does not cross c within brentq's tolerance of the returned coverage",
                    "input": inp, "observed": {"p": P, "sign(conf(p+d)-c)": lo, "sign(conf(p-d)-c)": hi}, "required": "<= 0 and >= 0"})
    return out


def _o_newton(stats, item):
    """_getr: the loop converges below the cap; the hypotheses of newton_monotone_convex are measured (tangent inequality
    on R >= 0, first iterate >= 0) and its conclusions observed on the same iteration (monotone from the first iterate,
    bounded by the root)"""
    from scipy.stats import norm

    out = []
    n, prob = item["n"], item["prob"]
    inp = dict(item)

    def fail(family, what, observed, required):
        out.append({"family": family, "what": what, "input": inp, "observed": observed, "required": required})

    s = 1 / math.sqrt(n)
    g = lambda R: norm.cdf(s + R) - norm.cdf(s - R) - prob
    d = lambda R: (math.exp(-(s + R) ** 2 / 2) + math.exp(-(s - R) ** 2 / 2)) / math.sqrt(2 * math.pi)
    getr = getattr(stats, "_getr", None)
    if getr is None:
        return out
    try:
        with warnings.catch_warnings():
            warnings.simplefilter("error")
            R = float(getr(n, prob, 1e-12))
    except RuntimeWarning as e:
        fail("getr-not-converged", "_getr reaches MAXLOOPS", str(e)[:80], "convergence")
        return out
    except Exception as e:  # noqa: BLE001
        fail("getr-raises", "_getr raises", "%s: %s" % (type(e).__name__, str(e)[:60]), "a number")
        return out
    if not abs(g(R)) <= 1e-10:
        fail("getr-residual", "Phi(1/sqrt n + R) - Phi(1/sqrt n - R) != prob at the returned R", g(R) + prob, prob)
    # hypotheses of the theorem
    for x, y in item["xy"]:
        if g(y) > g(x) + d(x) * (y - x) + 1e-13:
            fail("spec-hypothesis-newton-concave", "tangent inequality fails: the residual is not concave on R >= 0",
                 {"x": x, "y": y, "g(y)": g(y), "tangent": g(x) + d(x) * (y - x)}, "g(y) <= g(x) + g'(x)(y - x)")
    x0 = norm.ppf(prob + (1 - prob) / 2) * (1 + 1 / (2 * n))
    xs = [x0]
    for _ in range(12):
        xs.append(xs[-1] - g(xs[-1]) / d(xs[-1]))
    if xs[1] < 0:
        fail("spec-hypothesis-newton-first-iterate", "the first Newton iterate is negative", xs[1], ">= 0")
    elif any(b < a - 1e-13 for a, b in zip(xs[1:-1], xs[2:])) or any(x > R + 1e-11 for x in xs[1:]):
        fail("getr-newton-not-monotone", "iterates after the first are not nondecreasing / exceed the root", xs, "monotone, <= %r" % R)
    return out


def _o_nctasym(stats, item):
    """the two clauses of NctAsym (hypotheses of ksingle_tendsto / ksingle_ge_normal) measured with scipy"""
    from scipy.stats import nct

    out = []
    c, df, nc = item["c"], item["df"], item["nc"]
    with warnings.catch_warnings():
        warnings.simplefilter("ignore")
        q = float(nct.ppf(c, df, nc))
        if math.isfinite(q):
            B = 4 / min(c, 1 - c) + 4
            if not abs(q - nc) <= B * (1 + abs(nc) / math.sqrt(df)):
                out.append({"family": "spec-hypothesis-nct-near", "what": "nct quantile is not within B_c (1 + |nc|/sqrt df) of nc",
                            "input": dict(item), "observed": q, "required": "|q - nc| <= %g" % (B * (1 + abs(nc) / math.sqrt(df)))})
        if nc >= 0:
            m = float(nct.cdf(nc, df, nc))
            if math.isfinite(m) and m > 0.5 + 1e-9:
                out.append({"family": "spec-hypothesis-nct-median", "what": "P(T <= nc) > 1/2 for nc >= 0", "input": dict(item),
                            "observed": m, "required": "<= 0.5"})
    return out


def _o_kge(stats, item):
    """k >= z_p for c >= 1/2, p >= 1/2 at every n >= 2 (ksingle_ge_normal), and the rate of ksingle_rate"""
    from scipy.stats import norm

    out = []
    p, c, n = item["p"], item["c"], item["n"]
    k = _call(stats.ksingle, p, c, n)
    z = float(norm.ppf(p))
    if isinstance(k, str) or not math.isfinite(float(k)):
        return out
    k = float(k)
    if c >= 0.5 and p >= 0.5 and k < z - 1e-9 * max(1.0, abs(z)):
        out.append({"family": "ksingle-limit", "what": "one-sided factor below the normal quantile although c >= 0.5", "input": dict(item),
                    "observed": k, "required": ">= %r" % z})
    B = 4 / min(c, 1 - c) + 4
    if n >= 2 and abs(k - z) > B * (1 / math.sqrt(n) + abs(z) / math.sqrt(n - 1)):
        out.append({"family": "ksingle-limit", "what": "one-sided factor not within B_c (1/sqrt n + |z_p|/sqrt(n-1)) of the normal quantile",
                    "input": dict(item), "observed": k, "required": "near %r" % z})
    return out


def _o_dtype(stats, item):
    """regression guard of F54 / F55 (fix cd7a6f7): integer arguments handed over as 8/16-bit numpy arrays give what python
    ints give.  Before the fix `_run_brentq` doubled its bracket in the dtype of r (`b = 2 * a` wrapped around) and
    `np.sqrt` of an int8/uint8 array was a float16."""
    out = []
    fn, dt, p, c, v = item["fn"], np.dtype(item["dtype"]), item["p"], item["c"], item["value"]
    inp = dict(item)
    arr = np.array([v], dtype=dt)
    if int(arr[0]) != v:
        return out
    if fn in ("ksingle", "kdouble"):
        ref = _call(getattr(stats, fn), p, c, v)
        got = _call(getattr(stats, fn), p, c, arr)
        if isinstance(ref, str):
            return out
        if isinstance(got, str) or np.shape(got) != (1,) or not abs(float(got[0]) - float(ref)) <= 1e-9 * max(1.0, abs(float(ref))):
            out.append({"family": FIXED_F55,
                        "what": "%s(p, c, n) with n an %s array differs from the same call with python ints" % (fn, dt.name),
                        "input": inp, "observed": got if isinstance(got, str) else np.asarray(got).tolist(), "required": [float(ref)]})
        return out
    which = fn
    kw = {"c": dict(p=p, n=item.get("n", 50)), "r": dict(p=p, c=c), "n": dict(p=p, c=c), "p": dict(c=c, n=item.get("n", 50))}[which]
    key = "r" if which in ("c", "n", "p") else "n"
    ref = _call(stats.order_stats, which, **dict(kw, **{key: v}))
    got = _call(stats.order_stats, which, **dict(kw, **{key: arr}))
    if isinstance(ref, str):
        return out
    ok = (not isinstance(got, str)) and np.shape(got) == (1,) and abs(float(np.asarray(got)[0]) - float(ref)) <= 1e-9
    if not ok:
        out.append({"family": FIXED_F54 if which == "n" else "order-stats-%s-narrow-int-%s-array" % (which, "rank" if key == "r" else "sample-size"),
                    "what": "order_stats('%s') with %s an %s array differs from the same call with python ints" % (which, key, dt.name),
                    "input": inp, "observed": got if isinstance(got, str) else np.asarray(got).tolist(), "required": [ref if isinstance(ref, int) else float(ref)]})
    return out


def _run_oracle(stats, item, rng=None):
    kind = item["kind"]
    if kind == "order":
        return _o_order(stats, (item["which"], item["p"], item["c"], item["n"], item["r"]))
    if kind == "orderbig":
        return _o_orderbig(stats, item)
    if kind == "consistency":
        return _o_consistency(stats, item["p"], item["c"], item["n"])
    if kind == "kfactor":
        return _o_kfactor(stats, item["p"], item["c"], item["n"])
    if kind == "kmono":
        return _o_kmono(stats, item["n"], rng)
    if kind == "klimit":
        return _o_klimit(stats, item["p"], item["c"])
    if kind == "broadcast":
        return _o_broadcast(stats, item)
    if kind == "apicall":
        return _o_apicall(stats, item)
    if kind == "kcall":
        return _o_kcall(stats, item)
    if kind == "proot":
        return _o_proot(stats, item)
    if kind == "newton":
        return _o_newton(stats, item)
    if kind == "nctasym":
        return _o_nctasym(stats, item)
    if kind == "kge":
        return _o_kge(stats, item)
    if kind == "dtype":
        return _o_dtype(stats, item)
    return []


def search(ctx, hints):
    stats = _stats()
    rng = ctx.rng
    items = []
    # regression guards F54 / F55 first: integer arguments as narrow numpy arrays (fixed inputs, then the hints)
    for dt in ("uint8", "int8", "int16", "uint16", "int32"):
        items.append({"kind": "dtype", "fn": "n", "dtype": dt, "p": 0.99, "c": 0.9, "value": 1})
        items.append({"kind": "dtype", "fn": "n", "dtype": dt, "p": 0.9, "c": 0.5, "value": rng.randint(1, 5)})
        for v in (15, 21, rng.randint(2, 100)):
            items.append({"kind": "dtype", "fn": "ksingle", "dtype": dt, "p": 0.99, "c": 0.9, "value": v})
            items.append({"kind": "dtype", "fn": "kdouble", "dtype": dt, "p": 0.99, "c": 0.9, "value": v})
        items.append({"kind": "dtype", "fn": "c", "dtype": dt, "p": 0.9, "c": 0.9, "n": 50, "value": rng.randint(1, 6)})
        items.append({"kind": "dtype", "fn": "p", "dtype": dt, "p": 0.9, "c": 0.9, "n": 50, "value": rng.randint(1, 6)})
        items.append({"kind": "dtype", "fn": "r", "dtype": dt, "p": 0.9, "c": 0.9, "value": rng.randint(5, 120)})
    for h in hints[:60]:
        i = h["input"]
        if "absent" in i:                        # a disagreement of the `api` stream: the same call, restated on the API
            items.append({"kind": "apicall", "which": i["which"], "dtypes": i.get("dtypes", {}), **{k: i[k] for k in "pcnr"}})
        elif i.get("which") in ("r", "n", "c"):
            items.append(dict(i, kind="order"))
        elif i.get("which") in ("ksingle", "kdouble", "newton"):
            items.append({"kind": "kfactor", "p": i["p"], "c": i["c"], "n": i["n"]})
        elif "shapes" in i:                      # a disagreement of the k-factor array streams
            arrs = {k: np.asarray(i[k]) for k in "pcn"}
            items.append({"kind": "kcall", "n_dtype": i.get("n_dtype"), **{k: {"shape": list(a.shape), "values": a.ravel().tolist()} for k, a in arrs.items()}})
            if i.get("n_dtype") in INT_DTYPES:
                for nn in np.unique(arrs["n"].ravel())[:3]:
                    for fn in ("ksingle", "kdouble"):
                        items.append({"kind": "dtype", "fn": fn, "dtype": i["n_dtype"], "p": float(arrs["p"].ravel()[0]) if arrs["p"].size else 0.9,
                                      "c": float(arrs["c"].ravel()[0]) if arrs["c"].size else 0.9, "value": int(nn)})
            for pp in np.unique(arrs["p"].ravel())[:3]:
                for nn in np.unique(arrs["n"].ravel())[:3]:
                    items.append({"kind": "kfactor", "p": float(pp), "c": float(arrs["c"].ravel()[0]) if arrs["c"].size else 0.9, "n": int(nn)})
                    items.append({"kind": "newton", "n": int(nn), "prob": float(pp), "xy": []})
    # base stream ------------------------------------------------------------------
    for cs in _gen_order(ctx, ctx.pick(3000, 12000), ctx.pick(2000, 20000)):
        items.append({"kind": "order", "which": cs[0], "p": cs[1], "c": cs[2], "n": cs[3], "r": cs[4]})
    for _ in range(ctx.pick(400, 1500)):
        items.append({"kind": "consistency", "p": _dec(rng, "p"), "c": _dec(rng, "c"), "n": rng.randint(1, 600)})
    for n in (2 ** 31 - 1, 2 ** 31, 2 ** 31 + 5, 2 ** 32 - 1, 2 ** 32, 2 ** 32 + 700, 10 ** 10, 10 ** 12, 3 * 10 ** 8):
        for _ in range(ctx.pick(1, 4)):
            items.append({"kind": "orderbig", "n": n, "r": rng.randint(1, 8), "lam": rng.choice([0.5, 1.0, 3.0, 6.5])})
    for p, c, n in _gen_k(ctx, ctx.pick(200, 2000)):
        items.append({"kind": "kfactor", "p": p, "c": c, "n": n})
    for n in [2, 3, 5, 10, 21, 50, 200, 1000001, 3000000] + [rng.randint(2, 500) for _ in range(ctx.pick(4, 40))] \
            + [int(10 ** rng.uniform(3, 8.5)) for _ in range(ctx.pick(3, 20))]:
        items.append({"kind": "kmono", "n": n})
    for p in (0.9, 0.95, 0.99, 0.99865):
        for c in (0.1, 0.5, 0.75, 0.9, 0.99):
            items.append({"kind": "klimit", "p": p, "c": c})
    # the decision table of order_stats on scalars: every `which` x every subset of absent arguments
    for w in ["c", "r", "n", "p", "x", "", "C", "rr"]:
        for mask in range(16):
            a = {"p": "0.9", "c": "0.9", "n": "30", "r": "2"}
            items.append({"kind": "apicall", "which": w, "probe_unknown": True,
                          **{k: (None if mask >> j & 1 else {"shape": [], "values": [a[k]]}) for j, k in enumerate("pcnr")}})
    for _ in range(ctx.pick(250, 1200)):
        items.append(_gen_apicall(rng))
    for _ in range(ctx.pick(40, 200)):
        items.append(_gen_kcall(rng))
    for _ in range(ctx.pick(150, 800)):
        n = rng.randint(1, 60) if rng.random() < 0.8 else rng.randint(60, 300)
        r = rng.randint(1, min(n, 8)) if rng.random() < 0.9 else rng.choice([0, n + 1, n + 3])
        items.append({"kind": "proot", "c": _dec(rng, "c"), "n": n, "r": r})
    for _ in range(ctx.pick(150, 800)):
        n = rng.randint(2, 30) if rng.random() < 0.6 else int(10 ** rng.uniform(1.5, 7))
        prob = rng.choice([0.5, 0.9, 0.95, 0.99, 0.9973, 0.999]) if rng.random() < 0.5 else round(rng.uniform(0.01, 0.9999), 4)
        items.append({"kind": "newton", "n": n, "prob": prob, "xy": [(rng.uniform(0, 6), rng.uniform(0, 6)) for _ in range(6)]})
    for _ in range(ctx.pick(150, 800)):
        c = rng.choice([0.01, 0.05, 0.1, 0.5, 0.9, 0.99, 0.999]) if rng.random() < 0.6 else round(rng.uniform(0.02, 0.98), 3)
        df = float(int(10 ** rng.uniform(0, 6)))
        u = rng.random()
        nc = 0.0 if u < 0.1 else rng.uniform(0, 5) if u < 0.4 else math.sqrt(df + 1) * rng.uniform(0, 3.5) if u < 0.85 else -rng.uniform(0, 50)
        items.append({"kind": "nctasym", "c": c, "df": df, "nc": nc})
    for p, c, n in _gen_k(ctx, ctx.pick(150, 800)):
        items.append({"kind": "kge", "p": p, "c": c, "n": n})
    for it in items:
        ctx.count("oracle:" + it["kind"])
        for f in _run_oracle(stats, it, rng):
            ctx.fail(f["family"], f["what"], f["input"], f["observed"], f["required"])
        if len(ctx.failures) > 40:
            return
    for _ in range(ctx.pick(60, 250)):
        ctx.count("oracle:broadcast")
        for f in _o_broadcast(stats, _gen_broadcast(rng)):
            ctx.fail(f["family"], f["what"], f["input"], f["observed"], f["required"])


def replay(ctx, data):
    f = data["failure"]
    stats = _stats()
    res = _run_oracle(stats, f["input"], ctx.rng)
    for r in res:
        if r["family"] == f["family"]:
            return r
    return res[0] if res else None
