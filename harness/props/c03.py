"""C03 — shock response spectrum equals the exact single-DOF response peaks (DESIGN.md section 6/C03).

Tie
  * translator harness/translate/c03_srscoef.py: the six coefficient functions of pyyeti/srs.py
    -> lean/PyYetiVerif/Generated/SrsCoef.lean; Props/C03.gen_<stype> : Generated = Model (rfl);
  * correspondence (Lean model run at Float through Drivers/C03.lean, floats as bit patterns):
      coef      srs.<stype>(Q, dT, wn) vs translated and hand-written coefficient functions
      lfilter   scipy.signal.lfilter vs the model's transposed direct-form-II recursion
      srs       srs.srs(getresp=True, rolloff='none', parallel='no') over the full
                stype x ic x peak x time x eqsine grid vs the model pipeline (history + spectrum)
      rolloff   srs.srs(rolloff=linear|lanczos|fft|prefilter, ppc varied) vs the model `srsRolled`, which
                itself decides whether / by which factor to resample; only the resampled values come
                from the real roll function (the resampler's own contract is C19)
      index     EXACT: resp['sr'], len(hist), resp['t'][0], resp['t'][-1] vs the model's M, N, S over a
                (rolloff, time, N incl. 1 and 2, sr, freq, ppc, ic) grid incl. sr/max(freq) == ppc and
                one ulp either side, 0 Hz only, prefilter on <= 12 samples (raises)
      errors    empty record / empty residual window raise <-> model `none`
      exact     model closed-form oscillator stepping vs srs.srs histories (numerical shadow of
                theorem ramp_invariant);  exact0: the same for the rigid oscillator (0 Hz);
                steady: closed form started in steady state vs ic='steady' histories;
                resid: closed-form free decay vs time='residual' histories
      xcol      the filter-free specification `exactCol` (closed form + ic rule + appended cycle +
                window + peak) vs srs.srs over the full option grid (shadow of
                srs_column_is_exact_response_peak);  xcol0: likewise `exactCol0` at 0 Hz
      vrs       srs.vrs on uniform / log / random grids, with and without off-grid Fn, vs the model's
                area weights and transmissibility (psd.interp's output fed to both sides); merged grid
                np.unique(hstack(freq, Fn)) exactly; Miles' value
      frf       srs.srs_frf as a routine vs the model `srsFrf` (Model/SrsFrf.lean): what is returned (sh / srs_frq /
                resp, shapes incl. resp['frfs'] = (len(freq), nfrf, len(srs_frq))) EXACT; the merged analysis grid
                resp['freq'] EXACT (bit patterns; near-duplicate chains, gaps around and equal to 1e-5, default
                srs_frq, unsorted / repeated oscillators); sh and the complex frfs numerically (1e-9); magnitude /
                signed / complex / 1-D / one-line FRFs, scale_by_Q_only, rigid-body threshold, the refused option
                pair, dtype axis (float32 / complex64 / int / lists)
      freqvec   srs.srs with repeated (adjacent / apart), unsorted and zero entries of `freq` (incl. ic='steady' at
                0 Hz), 1-D / 2-D / one-oscillator packaging: sh.shape, hist.shape EXACT, values 1e-9; dtype axis:
                float32 / int / list signals and frequency vectors
      callable  srs.srs with a callable `peak` (mean square, abs) x eqsine vs the model `srsColG`
Oracle (model-free): exact oscillator response by an augmented-matrix exponential
(scipy.linalg.expm, dimensionless time) under each initial-condition rule, window and peak
statistic; roll-off decision and factor in exact rational arithmetic; spectrum relations (incl. re-ordered /
repeated frequency vectors bit for bit, shapes, callable peaks, rms, dtype); srs_frf restated with numpy only
(union grid, de-duplication, np.interp, transfer function, maximum, scale_by_Q_only, defaults, getresp
dictionary); vrs / Miles closed forms.
"""
import math
import struct

import numpy as np

from runner import TieBroken

ID = "C03"
LEAN_MODULES = ["PyYetiVerif.Props.C03", "PyYetiVerif.Props.C03b", "PyYetiVerif.Props.C03c", "PyYetiVerif.Props.C03d",
                "PyYetiVerif.Props.C03e", "PyYetiVerif.Audit.C03"]
AUDIT_FILE = "PyYetiVerif/Audit/C03.lean"
THEOREMS = [
    "PyYetiVerif.C03." + n
    for n in (
        "gen_absacce gen_relacce gen_reldisp gen_pvelo gen_pacce gen_relvelo exact_solves_ode "
        "exact_step_affine a_coeffs_are_charpoly ramp_invariant ramp_invariant_absacce "
        "ramp_invariant_reldisp pvelo_eq pacce_eq dc_gain suma_pos steady_addback_is_dc_gain "
        "lfilter_scale lfilter_add lfilter_append_take peak_abs_eq_max_pos_neg peak_total_ge "
        "eqsine_eq column_permutation window_lengths nzeros_eq vrs_quadrature_is_trapezoid_plus_half_end_cells "
        # Props/C03b.lean
        "steady_state_fixed steady_response_values steady_ic_exact shift_ic_exact srs_column_is_exact_response_peak "
        "free_decay_solves_ode residual_is_free_decay srs_residual_is_free_decay_peak rigid_solves_ode ramp_invariant_rigid "
        "rigid_response_values rolloff_triggers_iff rolloff_factor_ge_two rolloff_meets_ppc rolloff_step_triggered "
        "rolloff_step_untouched rolloff_index_values rolloff_indices residual_starts_at_record_end vrs_grid_sorted "
        "vrs_grid_mem vrs_weights vrs_gain_is_normSq_H vrs_is_quadrature_of_H2_psd vrs_needs_two_points srs_frf_gain_is_H "
        "rolloff_linear_grid_consistent_iff srs_column_zero_hz_is_rigid_response_peak "
        # Props/C03c.lean
        "miles_integrand_is_normSq miles_white_noise_integral miles_is_white_noise_integral "
        # Props/C03d.lean (srs_frf as a routine)
        "srs_frf_sort_spec srs_frf_grid_spec srs_frf_grid_gap srs_frf_grid_head srs_frf_interp_segment srs_frf_interp_node srs_frf_interp_zero_outside srs_frf_is_max_over_merged_grid srs_frf_rigid_body_is_zero srs_frf_entries srs_frf_value_spec srs_frf_abs_invariant srs_frf_scale_by_Q srs_frf_scale_by_Q_default_is_Q_times_abs srs_frf_return_defaults srs_frf_default_frq_puts_peak_on_frf_lines srs_frf_resp_shapes srs_frf_getresp_with_scale_by_Q_raises srs_frf_p_peak_maximises_H srs_frf_le_flat_bound srs_frf_vrs_consistent "
        # Props/C03e.lean (frequency vector, 0 Hz steady, packaging, callable peaks)
        "srs_column_depends_only_on_its_frequency srs_rolled_column_depends_only_on_its_frequency srs_rows_follow_the_frequency_vector srs_frequency_permutation srs_repeated_frequency_repeats_row srs_zero_hz_steady_history srs_zero_hz_steady_absacce_is_constant srs_columnwise srs_shapes srs_hist_lengths_uniform srs_packaging_1d eqsine_commutes_iff_homogeneous peak_sel_pos_homogeneous mean_square_not_homogeneous eqsine_history_divided_before_peak srs_callable_peak_eqsine srs_string_peak_is_callable_instance peak_rms_le_abs"
    ).split()
]
TRUSTED = [
    "translator harness/translate/c03_srscoef.py (Python ast; cross-checked behaviourally by the coef stream)",
    "correspondence harness harness/props/c03.py; Lean Float = IEEE double through the C library",
    "scipy.signal.lfilter modelled as the order<=2 transposed direct-form-II recursion with zero state (measured every run)",
    "theorems are over the reals: round-off of the recursion is measured, not proved (conditioning domain sr/fn <= 2000)",
    "roll-off: the decision, the factor, the new rate and the new lengths are modelled (exact index stream); the resampled "
    "VALUES (dsp.resample, scipy.signal.resample, filtfilt, interp1d) are not modelled: the real output is fed to the model "
    "(contract: C19); the lengths N*factor-1 / factor*(N - N%2) / N*factor are measured by the index stream",
    "vrs: merged grid, quadrature weights, transmissibility and Miles' formula are modelled and tied; psd.interp is fed to both "
    "sides",
    "srs_frf: np.sort modelled as insertion sort, np.diff(...) > 1e-5 as the predecessor test, scipy interp1d(kind='linear', "
    "fill_value=0, assume_sorted=True) as its 2-D code path _call_linear (searchsorted-left, clip to [1, n-1], slope*(x-x_lo)+y_lo), "
    "complex division / abs as real arithmetic on (re, im) pairs (numpy uses Smith's division and hypot: measured, 1e-9); "
    "frf_frq is assumed strictly increasing (the code passes assume_sorted=True and does not check)",
]
RULE = (
    "coef: seeded (Q, sr, fn) with Q in (0.5, 200], sr/fn log-uniform in [2.05, 2000] plus wn = 0, six stypes; "
    "lfilter: random stable filters of order 0-2 and the SRS coefficient sets on random records (incl. empty); "
    "srs / xcol: every stype x ic x peak x time x eqsine combination (864) per round with a seeded record "
    "(1-60 samples, 1-3 columns, 1-D packaging, 1-3 frequencies incl. 0 Hz where defined), one case = one "
    "srs.srs call compared on all histories and spectrum values; rolloff: the four resamplers, ppc in {8, 10.5, 12, 20}, "
    "triggered and not triggered, records of 2-128 samples; index: 5 rolloff x 3 time x 9-11 lengths (1, 2, ...) x 13 "
    "(sr, freq, ppc) configurations (boundary sr/max(freq) = ppc, one ulp below/above, 0 Hz, several ppc); "
    "exact0/steady/resid: six stypes x seeded records; frf: 60 (thorough 400) random FRFs (2-12 lines, 1-3 columns, magnitude / "
    "signed / complex, 1-5 oscillators inside and outside the FRF band, sorted / unsorted / repeated, getresp and return_srs_frq "
    "cycled), default srs_frq, 10 near-duplicate gap patterns x 3 bases, one-line FRFs, scale_by_Q_only, five oscillators around the "
    "rigid-body threshold, the refused option pair, six dtype variants; freqvec: 24 stype x ic combinations x 2 (thorough 8) rounds "
    "with a repeated / unsorted / zero-containing frequency vector, records of 1-60 samples with a non-zero first sample, plus 16 "
    "(64) dtype cases; callable: 48 (200) cases; non-trivial = the response history is not identically zero; distinct by the full input"
)
ASSUMPTIONS = [
    "sr/fn <= 2000 and Q > 0.5 (the property's conditioning domain); inputs outside are not generated",
    "numeric agreement |impl - model| <= 1e-9 * scale (scale = largest magnitude in the history incl. add-back) for "
    "filter-vs-filter streams, 1e-7 * scale for closed-form-vs-filter streams (exact, steady, resid, xcol); "
    "coefficients <= 1e-12 * (sum of magnitudes of the added terms); index stream: exact",
    "ic='steady' with a 0 Hz oscillator and stype reldisp/pvelo divides by zero in the code (inf/nan): skipped and counted",
    "rolloff='prefilter' on a record of <= 12 samples raises ValueError inside scipy.signal.filtfilt (padlen): modelled as "
    "the error case, not counted as a failure",
    "peak='rms' on an empty residual window returns nan with a RuntimeWarning instead of raising: the model's error case "
    "covers it (index/errors streams use peak='abs')",
    "single-precision inputs: a float32 signal is shifted by the ic rule in single precision (sig - sig[0], sig - mean) and a "
    "float32 srs_frq of srs_frf gives single-precision natural frequencies: agreement is required to 1e-6 (1e-5 for the complex "
    "frfs next to a resonance) instead of 1e-9; a float32 `freq` of srs.srs makes ceil(sr/minf) a single-precision quotient: only "
    "frequencies whose cycle length sr/f is at least 0.15 away from an integer are generated for that dtype",
    "srs_frf: frf_frq strictly increasing and finite; oscillators below sqrt(0.005)/(2 pi) = 0.01125 Hz are the code's rigid-body "
    "branch (zero response, proved for the model, tied by correspondence; the oracle uses the same threshold); p_peak is "
    "reproduced bit for bit only when Q*Q is exact in double precision (otherwise the grid is compared to 1e-13)",
]
PARTIAL = (
    "time-domain srs path: full for rolloff='none' and f > 0 (srs_column_is_exact_response_peak: every stype x ic x peak x "
    "time x eqsine; steady_ic_exact, shift_ic_exact, residual_is_free_decay), wn = 0 coefficient branches proved exact for the "
    "rigid oscillator and the whole 0 Hz column for ic other than 'steady' (ramp_invariant_rigid, "
    "srs_column_zero_hz_is_rigid_response_peak); ic='steady' at 0 Hz: what the code returns is now stated and proved for absacce / "
    "pacce / relacce / relvelo (srs_zero_hz_steady_history: rigid response to sig - sig[0] plus s1 / -s1 / nothing), for reldisp / "
    "pvelo the code divides by wn = 0 (inf/nan) - excluded by hypothesis, skipped and counted; frequency vector: a cell depends on "
    "`freq` only through its own entry and the set of entries (srs_column_depends_only_on_its_frequency, also through the roll-off "
    "step), permutation / repetition proved; packaging / shapes proved on the model (srs_columnwise, srs_shapes, "
    "srs_hist_lengths_uniform, srs_packaging_1d) and tied exactly; callable peaks and eqsine proved "
    "(eqsine_commutes_iff_homogeneous, peak_sel_pos_homogeneous, mean_square_not_homogeneous, rms <= abs); roll-off: decision, "
    "factor, new rate, M/N/S and the residual start are proved for ANY resampler of the stated output length, the resampled values "
    "are not modelled (C19) - finding srs-rolloff-linear (factor >= 3) is stated as rolloff_linear_grid_consistent_iff; vrs: merged "
    "grid, weights, |H|^2, quadrature proved, Miles proved equal to the white-noise integral through the pseudo-acceleration "
    "transmissibility (the (1 + 1/Q^2) factor of the absolute-acceleration integral is stated in prose only); srs_frf: the routine "
    "is modelled and proved (grid = sorted union minus entries within 1e-5 of their predecessor, linear interpolation with zero "
    "fill, magnitude first, maximum over the grid of |FRF| |H|, scale_by_Q_only, defaults, getresp shapes, p_peak maximises |H|). "
    "NOT proved (oracle / correspondence only): round-off of the recursion and of numpy's complex division / hypot; psd.interp and "
    "the step-size warning of vrs; srs_frf for an unsorted or repeated frf_frq (the code itself assumes sorted input); single-"
    "precision inputs (measured to 1e-6); srs.srsmap (a one-line call of dsp.waterfall with srs as the mapped function: not "
    "modelled); the parallel path (C09)"
)
MANIFEST = {
    "level_text": "Proof (Lean 4, kernel-checked, standard axioms only): the six coefficient functions of srs.py are "
    "machine-translated into Lean on every run and proved equal to the model; over the reals, for Q > 1/2, sr > 0, f > 0, "
    "for every response type, initial-condition rule, peak rule, time window and eqsine flag, the history and the spectrum value "
    "that the model of srs.srs (rolloff='none') produces equal a filter-free specification: the closed-form response of the damped "
    "oscillator to the linearly interpolated record (proved to solve the ODE), started at rest one sample before the record "
    "('zero', 'shift', 'mshift' on the shifted record) or in steady state under sig[0] ('steady', incl. the add-back per "
    "response type), continued with zero input over ceil(sr/minf) appended samples, cut to primary [0,N) / total / residual "
    "[N, N+nz) and reduced by the stated peak statistic (srs_column_is_exact_response_peak); the residual window is the "
    "closed-form free decay sampled on the grid (residual_is_free_decay); the wn = 0 branches are exact for u'' = -x(t) "
    "(ramp_invariant_rigid) and the 0 Hz column equals the rigid specification for every ic except 'steady' "
    "(srs_column_zero_hz_is_rigid_response_peak); a = [1, -2C, E^2] is the characteristic polynomial of the exact one-step matrix, b_pvelo = wn "
    "b_reldisp, b_pacce = wn^2 b_reldisp, lfilter linear and causal, abs = max(pos, neg), total >= primary/residual, eqsine "
    "divides by Q, column permutation invariance; roll-off: resampling happens iff the method resamples, max(freq) != 0 and "
    "sr/max(freq) < ppc (strict), the factor ceil(ppc/(sr/mf)) is >= 2 and meets ppc, and for any resampler of the stated output "
    "length M, N, S and resp['t'] refer to the resampled record (rolloff_indices); vrs: the merged grid is the sorted union, the "
    "weights are the stated vector, the gain is |H|^2 of the complex transmissibility, z_vrs is sqrt(trapezoid + half end cells) "
    "on any grid; Miles' value equals sqrt(W * integral_0^inf |H_pa|^2 df) (improper integral evaluated in Lean); srs_frf as a "
    "routine: the analysis grid is the sorted union of frf_frq and p_peak*srs_frq without the entries that exceed their predecessor "
    "by no more than 1e-5 (srs_frf_grid_spec / _gap), |FRF| is interpolated linearly with zero outside the FRF band and reproduces "
    "the FRF lines (srs_frf_interp_*), every spectrum value is the maximum over that grid of |FRF|(W) |H(W/wn)| "
    "(srs_frf_is_max_over_merged_grid; zero for the rigid-body branch), srs_frf(frf) = srs_frf(|frf|) (srs_frf_abs_invariant), "
    "scale_by_Q_only gives Q |FRF| exactly on the FRF lines, the srs_frq / return_srs_frq defaults, the getresp shapes, and "
    "|H(p)| <= |H(p_peak)| for the docstring's p_peak (srs_frf_p_peak_maximises_H); frequency vector: a (frequency, column) cell "
    "depends on `freq` only through its own entry and the set of entries, so permuting / repeating entries permutes / repeats rows "
    "(srs_column_depends_only_on_its_frequency, srs_frequency_permutation, srs_repeated_frequency_repeats_row), also through the "
    "roll-off step; ic='steady' at 0 Hz (srs_zero_hz_steady_history); shapes and 1-D packaging; callable peaks: dividing by Q "
    "before or after the peak agrees iff the peak is positively homogeneous (eqsine_commutes_iff_homogeneous), the six built-in "
    "peaks are, a mean square is not; rms <= abs. The model pipeline is tied to srs.srs / srs.srs_frf by numeric correspondence "
    "over the full option grid and by exact correspondence for the roll-off / window bookkeeping, the srs_frf grid, and every "
    "returned shape.",
    "level_note": "Trusted: Lean kernel; propext, Classical.choice, Quot.sound; the translator and the Python harness; "
    "scipy.signal.lfilter as modelled (measured). Real-number theorems: floating-point round-off is measured by the "
    "correspondence check and the model-free oracle inside sr/fn <= 2000. Only tied/measured, not proved: the resampled "
    "values of the four roll-off methods (fed to the model; contract C19), psd.interp, numpy's complex division / hypot in "
    "srs_frf, single-precision inputs (1e-6), ic='steady' at 0 Hz for reldisp / pvelo (division by zero: skipped), srs.srsmap and "
    "the parallel path (not modelled here). Public functions of srs.py: absacce relacce reldisp pvelo pacce relvelo (translated "
    "and proved), _absmeth.._rmsmeth, _process_ic, _add_one_cycle, srs (serial), vrs, srs_frf (modelled), fftroll lanroll "
    "linroll preroll (when / factor / length modelled, values not), _process_parallel, _dosrs*, _mk_par_globals*, "
    "createSharedArray, copyToSharedArray (C09), srsmap (not modelled). Open finding reported by the oracle: rolloff='linear' with "
    "factor >= 3 (linroll's np.linspace(0, t_last, N*factor-1) grid is not spaced 1/(sr*factor)).",
    "technique": "Lean 4 proof (Cayley-Hamilton elimination of the exact state recursion into the filter; sympy-found "
    "linear_combination certificates checked by the kernel; explicit antiderivative for Miles) + source->Lean translator + "
    "numeric and exact differential correspondence",
}

STYPES = ["absacce", "relacce", "reldisp", "relvelo", "pvelo", "pacce"]
ICS = ["zero", "shift", "mshift", "steady"]
PEAKS = ["abs", "pos", "poss", "neg", "negs", "rms"]
TIMES = ["primary", "total", "residual"]
ROLLS = ["linear", "lanczos", "fft", "prefilter"]


def _bits(x):
    return str(struct.unpack("<Q", struct.pack("<d", float(x)))[0])


def _unbits(s):
    return struct.unpack("<d", struct.pack("<Q", int(s)))[0]


def _fl(xs):
    return " ".join(_bits(v) for v in xs)


def _parse(rep):
    return np.array([_unbits(t) for t in rep.split()], dtype=float)


def translate(ctx):
    from translate import c03_srscoef as t

    try:
        return t.run(ctx.repo, ctx.lean)
    except t.TranslateError as e:
        raise TieBroken("srs.py coefficient functions no longer fit the translator: %s" % e)
    except (OSError, SyntaxError) as e:
        raise TieBroken("cannot read/parse pyyeti/srs.py: %s" % e)


# ---------------------------------------------------------------------------------------
# generators


def _rand_params(rng, lo=2.05, hi=2000.0):
    Q = float(np.exp(rng.uniform(np.log(0.51), np.log(200.0))))
    if rng.random() < 0.2:
        Q = float(rng.choice([0.5000001, 0.6, 1.0, 10.0, 25.0, 50.0]))
    sr = float(np.exp(rng.uniform(np.log(10.0), np.log(1e5))))
    if rng.random() < 0.3:
        sr = float(rng.choice([100.0, 1000.0, 4096.0, 44100.0]))
    ratio = float(np.exp(rng.uniform(np.log(lo), np.log(hi))))
    return Q, sr, sr / ratio


def _rand_sig(rng, n, H):
    kind = rng.integers(0, 5)
    if kind == 0:
        x = rng.standard_normal((n, H))
    elif kind == 1:
        x = rng.standard_normal((n, H)) + rng.uniform(-5, 5, (1, H))  # offset: ic rules matter
    elif kind == 2:
        t = np.arange(n)[:, None]
        x = np.sin(2 * np.pi * t / max(3.0, rng.uniform(3, 40))) * rng.uniform(0.5, 3, (1, H)) + rng.uniform(-1, 1, (1, H))
    elif kind == 3:
        x = np.zeros((n, H))
        x[rng.integers(0, n)] = rng.uniform(-10, 10, H)  # impulse
        x += rng.uniform(-1, 1, (1, H)) * (rng.random() < 0.5)
    else:
        x = np.cumsum(rng.standard_normal((n, H)), axis=0)
    return np.ascontiguousarray(x * float(10.0 ** rng.integers(-2, 3)))


def _coef_scale(st, Q, dT, wn):
    """sum of magnitudes of the terms added to form a coefficient (tolerance scale)"""
    if wn == 0:
        return max(1.0, dT * dT, dT)
    zeta = 0.5 / Q
    sqz = math.sqrt(1 - zeta * zeta)
    q = abs(2 * zeta * zeta - 1) / sqz
    num = 2.0 / Q + 2 * q + 2 * wn * dT + 2.0
    if st in ("absacce", "relacce"):
        return 4.0 + 2.0 / (dT * wn * sqz)
    if st == "reldisp":
        return num / (dT * wn ** 3)
    if st == "pvelo":
        return num / (dT * wn ** 2)
    if st == "pacce":
        return num / (dT * wn)
    return (3.0 + 2 * zeta / sqz) / (dT * wn * wn)


# ---------------------------------------------------------------------------------------
# correspondence


def _srs_requests(opts, Q, sr, freqs, sig2d):
    st, ic, pk, tm, es = opts
    head = "srs %s %s %s %s %d %s %s %d %s" % (st, ic, pk, tm, 1 if es else 0, _bits(Q), _bits(sr), len(freqs), _fl(freqs))
    out = []
    for j, f in enumerate(freqs):
        for c in range(sig2d.shape[1]):
            out.append(((j, c), "%s %s %s" % (head, _bits(f), _fl(sig2d[:, c]))))
    return out


def _call_srs(srs, sig, sr, freqs, Q, st, ic, pk, tm, es, rolloff="none", ppc=12):
    try:
        sh, resp = srs.srs(sig, sr, freqs, Q, ic=ic, stype=st, peak=pk, ppc=ppc, rolloff=rolloff,
                           eqsine=es, time=tm, getresp=True, parallel="no")
    except (ValueError, IndexError) as e:
        return ("raise", type(e).__name__)
    sh = np.asarray(sh, dtype=float)
    if sh.ndim == 1:
        sh = sh.reshape(-1, 1)
    return ("ok", sh, np.asarray(resp["hist"], dtype=float), float(resp["sr"]), np.asarray(resp["t"], dtype=float))


def _room(ctx, stream, ratio):
    """largest observed error / tolerance per stream (evidence of head-room)"""
    d = ctx.extra.setdefault("max_error_over_tolerance", {})
    if ratio > d.get(stream, 0.0):
        d[stream] = float(ratio)


def _floors(st, sig2d, sr, freqs, Q, es, nrec=None):
    """magnitude of the terms the response is summed from, per (freq index, column): the scale
    of a window whose samples nearly cancel (e.g. the residual of a 0 Hz oscillator)"""
    out = {}
    n = nrec or sig2d.shape[0]
    for j, f in enumerate(freqs):
        w = 2 * math.pi * f
        if w > 0:
            G = {"reldisp": 1 / w ** 2, "pvelo": 1 / w, "relvelo": 1 / w}.get(st, 1.0)
        else:
            G = {"reldisp": (n / sr) ** 2, "relvelo": n / sr}.get(st, 1.0)
        for c in range(sig2d.shape[1]):
            amp = float(np.max(np.abs(sig2d[:, c]))) if sig2d.shape[0] else 0.0
            out[(j, c)] = 2 * amp * G / (Q if es else 1.0)
    return out


def _cmp_hist(ctx, stream, inp, impl, replies, keys, extra_scale=0.0, tol=1e-9, floors=None):
    """compare one srs.srs result with the model replies; returns True when non-trivial"""
    if impl[0] == "raise":
        for (j, c), rep in zip(keys, replies):
            if rep != "none":
                ctx.disagree(stream, inp, "raises " + impl[1], rep[:60])
                return False
        return False
    _, sh, hist, _, _ = impl
    nontriv = False
    for (j, c), rep in zip(keys, replies):
        if rep in ("none", "bad-op"):
            ctx.disagree(stream, inp, {"sh": float(sh[j, c])}, rep)
            return nontriv
        m = _parse(rep)
        mpk, mh = m[0], m[1:]
        ih = hist[:, c, j]
        if mh.shape != ih.shape:
            ctx.disagree(stream, inp, {"hist_len": int(ih.shape[0])}, {"hist_len": int(mh.shape[0])})
            return nontriv
        scale = max(float(np.max(np.abs(ih))) if ih.size else 0.0, float(np.max(np.abs(mh))) if mh.size else 0.0,
                    extra_scale, (floors or {}).get((j, c), 0.0), 1e-300)
        if not np.all(np.isfinite(ih)) or not np.all(np.isfinite(mh)):
            ctx.skip("non-finite history")
            continue
        err = float(np.max(np.abs(ih - mh))) if ih.size else 0.0
        _room(ctx, stream, max(err, abs(sh[j, c] - mpk)) / (tol * scale))
        if err > tol * scale:
            k = int(np.argmax(np.abs(ih - mh)))
            ctx.disagree(stream, dict(inp, freq_index=j, column=c),
                         {"hist[%d]" % k: float(ih[k]), "sh": float(sh[j, c])},
                         {"hist[%d]" % k: float(mh[k]), "sh": float(mpk)})
            return nontriv
        if abs(sh[j, c] - mpk) > tol * scale:
            ctx.disagree(stream, dict(inp, freq_index=j, column=c), {"sh": float(sh[j, c])}, {"sh": float(mpk)})
            return nontriv
        if np.any(ih != 0):
            nontriv = True
    return nontriv


def _case_dict(sig, sr, freqs, Q, st, ic, pk, tm, es, rolloff="none", ppc=12):
    d = {"kind": "srs", "sig": np.asarray(sig).tolist(), "sr": sr, "freq": [float(f) for f in freqs], "Q": Q,
         "stype": st, "ic": ic, "peak": pk, "time": tm, "eqsine": bool(es), "rolloff": rolloff}
    if ppc != 12:
        d["ppc"] = ppc
    return d


def correspondence(ctx):
    from pyyeti import srs
    from scipy import signal

    rng = ctx.np_rng(3)
    drv = ctx.driver("C03")
    req = []      # protocol lines
    post = []     # (first index, count, callback)

    def add(lines, cb):
        post.append((len(req), len(lines), cb))
        req.extend(lines)

    # ---- stream coef ---------------------------------------------------------------
    ncoef = ctx.pick(600, 5000)
    for i in range(ncoef):
        Q, sr, fn = _rand_params(rng)
        wn = np.float64(2 * math.pi * fn)
        if i % 9 == 0:
            wn = np.float64(0.0)
        dT = 1 / sr
        for st in STYPES:
            try:
                b, a = getattr(srs, st)(Q, dT, wn)
                impl = (np.asarray(b, float), np.asarray(a, float))
            except Exception as e:  # a mutated source may raise
                impl = ("raise", repr(e))
            lines = ["coef %s %s %s %s" % (st, _bits(Q), _bits(dT), _bits(wn)),
                     "mcoef %s %s %s %s" % (st, _bits(Q), _bits(dT), _bits(wn))]

            def cb(reps, st=st, Q=Q, dT=dT, wn=float(wn), sr=sr, fn=fn, impl=impl):
                inp = {"kind": "coef", "stype": st, "Q": Q, "sr": sr, "fn": float(wn) / (2 * math.pi), "dT": dT, "wn": wn}
                ctx.case(("coef", st, Q, dT, wn), nontrivial=wn != 0, branch="coef:" + st)
                ctx.count("coef:wn=0" if wn == 0 else "coef:wn>0")
                if isinstance(impl[0], str):
                    ctx.disagree("coef", inp, impl[1], reps[0][:80])
                    return
                scale = _coef_scale(st, Q, dT, wn)
                for tag, rep in zip(("translated", "model"), reps):
                    if "|" not in rep:
                        ctx.disagree("coef", inp, [impl[0].tolist(), impl[1].tolist()], rep)
                        return
                    mb, ma = (_parse(p) for p in rep.split("|"))
                    if mb.shape != impl[0].shape or ma.shape != impl[1].shape:
                        ctx.disagree("coef", inp, [impl[0].tolist(), impl[1].tolist()], [mb.tolist(), ma.tolist()])
                        return
                    eb = np.max(np.abs(mb - impl[0]))
                    ea = np.max(np.abs(ma - impl[1]))
                    _room(ctx, "coef", max(eb / (1e-12 * scale), ea / 4e-12))
                    if not (eb <= 1e-12 * scale and ea <= 1e-12 * 4.0):
                        ctx.disagree("coef-" + tag, inp, [impl[0].tolist(), impl[1].tolist()], [mb.tolist(), ma.tolist()])
                        return
                if len(ctx.samples) < 2:
                    ctx.sample({"stream": "coef", "stype": st, "Q": Q, "dT": dT, "wn": wn, "b": impl[0].tolist(), "a": impl[1].tolist()})

            add(lines, cb)

    # ---- stream lfilter ---------------------------------------------------------------
    nlf = ctx.pick(800, 6000)
    for i in range(nlf):
        if i % 3 == 0:
            Q, sr, fn = _rand_params(rng, hi=400.0)
            st = STYPES[int(rng.integers(0, 6))]
            b, a = getattr(srs, st)(Q, 1 / sr, np.float64(2 * math.pi * fn) if i % 15 else np.float64(0.0))
            b = np.asarray(b, float)
            a = np.asarray(a, float)
            kind = "srs-coef"
        else:
            nb = int(rng.integers(1, 4))
            na = int(rng.integers(1, 4))
            b = rng.standard_normal(nb)
            if na == 1:
                a = np.array([1.0])
            elif na == 2:
                a = np.array([1.0, -rng.uniform(-0.98, 0.98)])
            else:
                r, th = rng.uniform(0, 0.98), rng.uniform(0, np.pi)
                a = np.array([1.0, -2 * r * np.cos(th), r * r])
            kind = "random-%d-%d" % (nb, na)
        n = int(rng.choice([0, 1, 2, 3, 5, 17, 64, 200]))
        if n == 0 and len(a) == 1:
            n = 4  # scipy's FIR shortcut (np.convolve) refuses an empty record; srs never takes that path
        x = rng.standard_normal(n) * float(10.0 ** rng.integers(-2, 3))
        try:
            y = np.asarray(signal.lfilter(b, a, x), float)
        except Exception as e:
            y = repr(e)
        line = "lf %d %s %d %s %s" % (len(b), _fl(b), len(a), _fl(a), _fl(x))

        def cb(reps, b=b, a=a, x=x, y=y, kind=kind):
            inp = {"kind": "lfilter", "b": b.tolist(), "a": a.tolist(), "x": x.tolist()}
            ctx.case(("lf", b.tobytes(), a.tobytes(), x.tobytes()), nontrivial=len(x) >= 3 and len(a) >= 2,
                     branch="lfilter:" + kind.split("-")[0])
            if isinstance(y, str):
                ctx.disagree("lfilter", inp, y, reps[0][:80])
                return
            m = _parse(reps[0])
            if m.shape != y.shape:
                ctx.disagree("lfilter", inp, y.tolist()[:5], m.tolist()[:5])
                return
            if y.size:
                scale = max(np.max(np.abs(y)), np.max(np.abs(x)) * np.sum(np.abs(b)), 1e-300)
                _room(ctx, "lfilter", np.max(np.abs(y - m)) / (1e-9 * scale))
                if np.max(np.abs(y - m)) > 1e-9 * scale:
                    ctx.disagree("lfilter", inp, y.tolist()[:8], m.tolist()[:8])

        add([line], cb)

    # ---- stream srs (full option grid) ---------------------------------------------------
    rounds = ctx.pick(3, 14)
    combos = [(st, ic, pk, tm, es) for st in STYPES for ic in ICS for pk in PEAKS for tm in TIMES for es in (False, True)]
    for rnd in range(rounds):
        for ci, (st, ic, pk, tm, es) in enumerate(combos):
            hi = 2000.0 if (ci + rnd) % 7 == 0 else 300.0
            Q, sr, fn = _rand_params(rng, hi=hi)
            LF = int(rng.integers(1, 4))
            freqs = [fn] + [fn * float(rng.uniform(1.0, 0.45 * sr / fn if 0.45 * sr / fn > 1 else 1.0)) for _ in range(LF - 1)]
            freqs = [min(f, sr / 2.05) for f in freqs]
            zero_ok = not (ic == "steady" and st in ("reldisp", "pvelo"))
            if LF > 1 and rng.random() < 0.25:
                if zero_ok:
                    freqs[int(rng.integers(1, LF))] = 0.0
                else:
                    ctx.skip("steady add-back divides by wn = 0 (reldisp/pvelo): 0 Hz not generated")
            rng.shuffle(freqs)
            n = int(rng.choice([1, 2, 3, 7, 20, 60])) if not ctx.thorough else int(rng.choice([1, 2, 3, 7, 20, 60, 150]))
            H = int(rng.integers(1, 4))
            sig2d = _rand_sig(rng, n, H)
            oneD = H == 1 and rng.random() < 0.6
            sig = sig2d[:, 0].copy() if oneD else sig2d
            impl = _call_srs(srs, sig, sr, freqs, Q, st, ic, pk, tm, es)
            pairs = _srs_requests((st, ic, pk, tm, es), Q, sr, freqs, sig2d)
            keys = [k for k, _ in pairs]
            s1max = float(np.max(np.abs(sig2d[0])))
            wmin = min([2 * math.pi * f for f in freqs if f > 0])
            addb = 0.0
            if ic == "steady":
                addb = {"reldisp": s1max / wmin ** 2, "pvelo": s1max / wmin}.get(st, s1max)

            fl = _floors(st, sig2d, sr, freqs, Q, es)

            def cb(reps, impl=impl, keys=keys, st=st, ic=ic, pk=pk, tm=tm, es=es, Q=Q, sr=sr, freqs=freqs, sig=sig,
                   oneD=oneD, H=H, n=n, addb=addb, fl=fl):
                inp = _case_dict(sig, sr, freqs, Q, st, ic, pk, tm, es)
                nt = _cmp_hist(ctx, "srs", inp, impl, reps, keys, extra_scale=addb / (Q if es else 1.0), floors=fl)
                ctx.case(("srs", st, ic, pk, tm, es, Q, sr, tuple(freqs), np.asarray(sig).tobytes()), nontrivial=nt)
                for br in ("stype:" + st, "ic:" + ic, "peak:" + pk, "time:" + tm, "eqsine:%s" % es,
                           "packaging:" + ("1-D" if oneD else "2-D x%d" % H), "samples:" + ("1" if n == 1 else ">1")):
                    ctx.count(br)
                if any(f == 0 for f in freqs):
                    ctx.count("freq:0Hz")
                if len(ctx.samples) < 5 and nt:
                    ctx.sample({"stream": "srs", "stype": st, "ic": ic, "peak": pk, "time": tm, "eqsine": es, "Q": Q,
                                "sr": sr, "freq": freqs, "sig_shape": list(np.shape(sig)), "sh": impl[1].tolist()})

            add([l for _, l in pairs], cb)

    # ---- stream rolloff (the Lean model `srsRolled` decides whether and by which factor to resample; the
    # real resampler's output is supplied and used by the model only if it decides to resample) ------------
    nroll = ctx.pick(18, 60)
    rollfun = {"linear": srs.linroll, "lanczos": srs.lanroll, "fft": srs.fftroll, "prefilter": srs.preroll}
    for roll in ROLLS:
        for i in range(nroll):
            st = STYPES[int(rng.integers(0, 6))]
            ic = ICS[int(rng.integers(0, 4))]
            pk = PEAKS[int(rng.integers(0, 6))]
            tm = TIMES[(i // 3) % 3]
            es = bool(rng.integers(0, 2))
            Q = float(rng.choice([5.0, 10.0, 25.0, 50.0]))
            sr = float(rng.choice([200.0, 1000.0, 2048.0]))
            ppc = float(rng.choice([12.0, 12.0, 8.0, 20.0, 10.5]))
            trig = i % 3 != 2
            mf = sr / (rng.uniform(0.21, 0.92) * ppc if trig else rng.uniform(1.05, 3.3) * ppc)
            freqs = sorted({mf, mf * 0.5, mf * float(rng.uniform(0.1, 0.9))})[: int(rng.integers(1, 4))]
            if mf not in freqs:
                freqs.append(mf)
            n = int(rng.choice([40, 64, 97, 128, 13, 14] if roll == "prefilter" else [40, 64, 97, 128, 2, 3, 13]))
            H = int(rng.integers(1, 3))
            sig2d = _rand_sig(rng, n, H)
            impl = _call_srs(srs, sig2d, sr, freqs, Q, st, ic, pk, tm, es, rolloff=roll, ppc=ppc)
            sg = srs._process_ic(sig2d, ic, st)[0]
            try:
                ups = np.asarray(rollfun[roll](sg, sr, ppc, max(freqs))[0], float)
            except Exception:  # a mutated resampler may raise: the model then sees the un-resampled record
                ups = np.asarray(sg, float)
            head = "rolled %s %s %s %s %d %s %s %s %s %d %s" % (st, ic, pk, tm, 1 if es else 0, roll, _bits(ppc), _bits(Q),
                                                                _bits(sr), len(freqs), _fl(freqs))
            lines, keys = [], []
            for j, f in enumerate(freqs):
                for c in range(H):
                    lines.append("%s %s %d %s %s" % (head, _bits(f), n, _fl(sig2d[:, c]), _fl(ups[:, c])))
                    keys.append((j, c))
            wmin = min(2 * math.pi * f for f in freqs)
            s1max = float(np.max(np.abs(sig2d[0])))
            addb = {"reldisp": s1max / wmin ** 2, "pvelo": s1max / wmin}.get(st, s1max) if ic == "steady" else 0.0

            fl = _floors(st, sig2d, sr, freqs, Q, es)

            def cb(reps, impl=impl, keys=keys, roll=roll, trig=trig, st=st, ic=ic, pk=pk, tm=tm, es=es, Q=Q, sr=sr,
                   freqs=freqs, sig2d=sig2d, addb=addb, fl=fl, ppc=ppc):
                inp = _case_dict(sig2d, sr, freqs, Q, st, ic, pk, tm, es, rolloff=roll, ppc=ppc)
                nt = _cmp_hist(ctx, "rolloff", inp, impl, reps, keys, extra_scale=addb / (Q if es else 1.0), floors=fl)
                ctx.case(("roll", roll, st, ic, pk, tm, es, Q, sr, ppc, tuple(freqs), sig2d.tobytes()), nontrivial=nt,
                         branch="rolloff:%s:%s" % (roll, "resampled" if (trig or roll == "prefilter") else "not-needed"))
                if trig or roll == "prefilter":
                    ctx.count("rolloff:%s:resampled:%s" % (roll, tm))

            add(lines, cb)

    # ---- stream index (exact): M, N, S, resp['sr'], resp['t'] over (roll, time, N, sr, freq, ppc, ic) -------------
    idx_cfgs = [  # (sr, freqs, ppc, tag)
        (100.0, [20.0, 5.0], 12.0, "triggered"), (100.0, [25.0], 12.0, "triggered"), (120.0, [10.0, 2.5], 12.0, "boundary-eq"),
        (120.0, [10.000000000000002], 12.0, "triggered"), (120.0, [9.999999999999998, 3.0], 12.0, "not-needed"),
        (1000.0, [30.0, 7.0], 12.0, "not-needed"), (1000.0, [300.0, 40.0, 0.0], 12.5, "triggered"), (50.0, [0.0], 12.0, "no-positive-freq"),
        (200.0, [0.0, 45.0], 4.0, "not-needed"), (200.0, [45.0, 11.0], 25.0, "triggered"), (48.0, [12.0, 1.0], 4.0, "boundary-eq"),
        (48.0, [12.0, 0.7], 4.5, "triggered"), (4096.0, [1000.0, 3.3], 10.0, "triggered"),
    ]
    idx_ns = [1, 2, 3, 4, 5, 12, 13, 14, 31] + ([64, 65] if ctx.thorough else [])
    for roll in ["none"] + ROLLS:
        for ti, tm in enumerate(TIMES):
            for n in idx_ns:
                for ci, (sr, freqs, ppc, tag) in enumerate(idx_cfgs):
                    if not ctx.thorough and (ci + n + ti) % 3 == 0 and n > 5:
                        continue
                    ic = ICS[(ci + n) % 4]
                    sig = _rand_sig(rng, n, 1)[:, 0]
                    impl = _call_srs(srs, sig, sr, freqs, 10.0, "absacce", ic, "abs", tm, False, rolloff=roll, ppc=ppc)
                    line = "idx %s %s %s %s %d %s %d" % (roll, tm, _bits(ppc), _bits(sr), len(freqs), _fl(freqs), n)

                    def cb(reps, impl=impl, roll=roll, tm=tm, n=n, sr=sr, freqs=freqs, ppc=ppc, tag=tag, ic=ic, sig=sig):
                        inp = _case_dict(sig, sr, freqs, 10.0, "absacce", ic, "abs", tm, False, rolloff=roll, ppc=ppc)
                        resamples = roll in ("linear", "fft", "lanczos")
                        ctx.case(("idx", roll, tm, n, sr, tuple(freqs), ppc), nontrivial=True,
                                 branch="index:%s:%s:%s" % (roll, tag if resamples else "no-resampler", tm))
                        ctx.count("index:N=%s" % (n if n <= 2 else ">2"))
                        rep = reps[0]
                        if impl[0] == "raise":
                            ctx.count("index:raises")
                            if rep != "none" and rep.split()[-1] != "0":
                                ctx.disagree("index", inp, "raises " + impl[1], rep)
                            return
                        if rep in ("none", "bad-op") or len(rep.split()) != 6:
                            ctx.disagree("index", inp, {"hist_len": int(impl[2].shape[0])}, rep)
                            return
                        tk = rep.split()
                        msr, mM, mN, mS, mfirst, mcount = _unbits(tk[0]), int(tk[1]), int(tk[2]), int(tk[3]), int(tk[4]), int(tk[5])
                        hist, sr_out, tvec = impl[2], impl[3], impl[4]
                        obs = {"sr": sr_out, "hist_len": int(hist.shape[0]), "t_len": int(tvec.shape[0]),
                               "t0": float(tvec[0]) if tvec.size else None, "t_last": float(tvec[-1]) if tvec.size else None}
                        want = {"sr": msr, "hist_len": mcount, "t_len": mcount, "t0": mfirst / msr if mcount else None,
                                "t_last": (mfirst + mcount - 1) / msr if mcount else None}
                        if obs != want or mN - mS != mcount or mfirst != mS:
                            ctx.disagree("index", inp, obs, dict(want, M=mM, N=mN, S=mS))

                    add([line], cb)

    # ---- stream errors -----------------------------------------------------------------------
    for st, ic, tm, sig, freqs, why in (
        ("absacce", "zero", "primary", np.zeros((0,)), [10.0], "empty-record"),
        ("reldisp", "shift", "total", np.zeros((0, 2)), [10.0, 20.0], "empty-record"),
        ("absacce", "zero", "residual", np.array([1.0, 2.0, 3.0]), [0.0], "empty-residual-window"),
        ("relvelo", "mshift", "residual", np.array([[1.0, 2.0], [0.5, 1.0]]), [0.0, 0.0], "empty-residual-window"),
    ):
        sig2d = sig.reshape(-1, 1) if sig.ndim == 1 else sig
        impl = _call_srs(srs, sig, 100.0, freqs, 10.0, st, ic, "abs", tm, False)
        if sig2d.shape[0] == 0:
            lines = ["srs %s %s abs %s 0 %s %s %d %s %s" % (st, ic, tm, _bits(10.0), _bits(100.0), len(freqs), _fl(freqs), _bits(freqs[0]))]
            keys = [(0, 0)]
        else:
            pairs = _srs_requests((st, ic, "abs", tm, False), 10.0, 100.0, freqs, sig2d)
            lines = [l for _, l in pairs]
            keys = [k for k, _ in pairs]

        def cb(reps, impl=impl, keys=keys, why=why, sig=sig, freqs=freqs, st=st, ic=ic, tm=tm):
            inp = _case_dict(sig, 100.0, freqs, 10.0, st, ic, "abs", tm, False)
            ctx.case(("err", why, st, ic, tm), nontrivial=True, branch="error:" + why)
            if impl[0] != "raise":
                ctx.disagree("errors", inp, "returns a spectrum", "none (the model says the code raises)")
                return
            _cmp_hist(ctx, "errors", inp, impl, reps, keys)

        add(lines, cb)

    # ---- stream exact (closed-form stepping of the Lean model vs the code's histories) ----------
    nex = ctx.pick(15, 90)
    for st in STYPES:
        for i in range(nex):
            Q, sr, fn = _rand_params(rng, hi=300.0)
            n = int(rng.choice([3, 10, 40, 120]))
            sig = _rand_sig(rng, n, 1)[:, 0]
            impl = _call_srs(srs, sig, sr, [fn], Q, st, "zero", "abs", "primary", False)
            line = "exact %s %s %s %s %s" % (st, _bits(Q), _bits(1 / sr), _bits(2 * math.pi * fn), _fl(sig))

            def cb(reps, impl=impl, st=st, Q=Q, sr=sr, fn=fn, sig=sig):
                inp = _case_dict(sig, sr, [fn], Q, st, "zero", "abs", "primary", False)
                ctx.case(("exact", st, Q, sr, fn, sig.tobytes()), nontrivial=True, branch="exact:" + st)
                if impl[0] != "ok":
                    ctx.disagree("exact", inp, impl, reps[0][:60])
                    return
                m = _parse(reps[0])
                ih = impl[2][:, 0, 0]
                if m.shape == ih.shape:
                    _room(ctx, "exact", np.max(np.abs(m - ih)) / (1e-7 * max(np.max(np.abs(ih)), np.max(np.abs(m)), 1e-300)))
                if m.shape != ih.shape or np.max(np.abs(m - ih)) > 1e-7 * max(np.max(np.abs(ih)), np.max(np.abs(m)), 1e-300):
                    ctx.disagree("exact", inp, ih.tolist()[:6], m.tolist()[:6])

            add([line], cb)

    # ---- stream exact0 (rigid oscillator closed form, wn = 0) vs the code's 0 Hz histories -----------------
    for st in STYPES:
        for i in range(ctx.pick(6, 30)):
            sr = float(np.exp(rng.uniform(np.log(10.0), np.log(1e4))))
            n = int(rng.choice([1, 2, 5, 40, 150]))
            sig = _rand_sig(rng, n, 1)[:, 0]
            Q = float(rng.choice([0.6, 5.0, 10.0, 50.0]))
            impl = _call_srs(srs, sig, sr, [0.0], Q, st, "zero", "abs", "primary", False)
            line = "exact0 %s %s %s %s" % (st, _bits(Q), _bits(1 / sr), _fl(sig))

            def cb(reps, impl=impl, st=st, Q=Q, sr=sr, sig=sig, n=n):
                inp = _case_dict(sig, sr, [0.0], Q, st, "zero", "abs", "primary", False)
                ctx.case(("exact0", st, Q, sr, sig.tobytes()), nontrivial=st in ("reldisp", "relvelo", "relacce"), branch="exact0:" + st)
                if impl[0] != "ok":
                    ctx.disagree("exact0", inp, impl, reps[0][:60])
                    return
                m = _parse(reps[0])
                ih = impl[2][:, 0, 0]
                amp = float(np.max(np.abs(sig)))
                scale = max(amp * {"reldisp": (n / sr) ** 2, "relvelo": n / sr}.get(st, 1.0), 1e-300)
                if m.shape != ih.shape or not np.all(np.isfinite(m)):
                    ctx.disagree("exact0", inp, ih.tolist()[:6], m.tolist()[:6])
                    return
                _room(ctx, "exact0", np.max(np.abs(m - ih)) / (1e-9 * scale))
                if np.max(np.abs(m - ih)) > 1e-9 * scale:
                    ctx.disagree("exact0", inp, ih.tolist()[:6], m.tolist()[:6])

            add([line], cb)

    # ---- stream steady (closed form started in steady state under s1) vs ic='steady' histories ----------------
    for st in STYPES:
        for i in range(ctx.pick(10, 60)):
            Q, sr, fn = _rand_params(rng, hi=300.0)
            n = int(rng.choice([1, 3, 10, 40, 120]))
            sig = _rand_sig(rng, n, 1)[:, 0] + float(rng.uniform(-5, 5))
            impl = _call_srs(srs, sig, sr, [fn], Q, st, "steady", "abs", "primary", False)
            wn = 2 * math.pi * fn
            line = "steady %s %s %s %s %s %s" % (st, _bits(Q), _bits(1 / sr), _bits(wn), _bits(sig[0]), _fl(sig))

            def cb(reps, impl=impl, st=st, Q=Q, sr=sr, fn=fn, sig=sig, wn=wn):
                inp = _case_dict(sig, sr, [fn], Q, st, "steady", "abs", "primary", False)
                ctx.case(("steady", st, Q, sr, fn, sig.tobytes()), nontrivial=True, branch="steady:" + st)
                if impl[0] != "ok":
                    ctx.disagree("steady", inp, impl, reps[0][:60])
                    return
                m = _parse(reps[0])
                ih = impl[2][:, 0, 0]
                G = {"reldisp": 1 / wn ** 2, "pvelo": 1 / wn, "relvelo": 1 / wn}.get(st, 1.0)
                scale = max(float(np.max(np.abs(ih))), 2 * float(np.max(np.abs(sig))) * G, 1e-300)
                if m.shape != ih.shape or not np.all(np.isfinite(m)):
                    ctx.disagree("steady", inp, ih.tolist()[:6], m.tolist()[:6])
                    return
                _room(ctx, "steady", np.max(np.abs(m - ih)) / (1e-7 * scale))
                if np.max(np.abs(m - ih)) > 1e-7 * scale:
                    ctx.disagree("steady", inp, ih.tolist()[:6], m.tolist()[:6])

            add([line], cb)

    # ---- stream xcol (the filter-free specification exactCol: closed-form oscillator, ic rule, appended cycle,
    # window, peak) vs srs.srs over the full option grid ------------------------------------------------------------
    for rnd in range(ctx.pick(1, 3)):
        for ci, (st, ic, pk, tm, es) in enumerate(combos):
            Q, sr, fn = _rand_params(rng, hi=300.0)
            freqs = [fn] if rng.random() < 0.5 else [fn, min(sr / 2.05, fn * float(rng.uniform(1.1, 3.0)))]
            n = int(rng.choice([1, 2, 3, 7, 20, 60]))
            sig = _rand_sig(rng, n, 1)[:, 0]
            impl = _call_srs(srs, sig, sr, freqs, Q, st, ic, pk, tm, es)
            head = "xcol %s %s %s %s %d %s %s %d %s" % (st, ic, pk, tm, 1 if es else 0, _bits(Q), _bits(sr), len(freqs), _fl(freqs))
            lines = ["%s %s %s" % (head, _bits(f), _fl(sig)) for f in freqs]
            keys = [(j, 0) for j in range(len(freqs))]
            wmin = min(2 * math.pi * f for f in freqs)
            addb = {"reldisp": abs(sig[0]) / wmin ** 2, "pvelo": abs(sig[0]) / wmin}.get(st, abs(sig[0])) if ic == "steady" else 0.0
            fl = _floors(st, sig.reshape(-1, 1), sr, freqs, Q, es)

            def cb(reps, impl=impl, keys=keys, st=st, ic=ic, pk=pk, tm=tm, es=es, Q=Q, sr=sr, freqs=freqs, sig=sig, addb=addb, fl=fl):
                inp = _case_dict(sig, sr, freqs, Q, st, ic, pk, tm, es)
                nt = _cmp_hist(ctx, "xcol", inp, impl, reps, keys, extra_scale=addb / (Q if es else 1.0), tol=1e-7, floors=fl)
                ctx.case(("xcol", st, ic, pk, tm, es, Q, sr, tuple(freqs), sig.tobytes()), nontrivial=nt)
                for br in ("xcol:stype:" + st, "xcol:ic:" + ic, "xcol:time:" + tm, "xcol:peak:" + pk):
                    ctx.count(br)

            add(lines, cb)

    # ---- stream xcol0 (0 Hz specification exactCol0: rigid closed form, ic rule, appended cycle, window, peak) -------
    for ci, (st, ic, pk, tm, es) in enumerate(combos):
        if ic == "steady" or (ci % 2 and not ctx.thorough):
            continue
        sr = float(np.exp(rng.uniform(np.log(10.0), np.log(1e4))))
        Q = float(rng.choice([0.6, 5.0, 10.0, 50.0]))
        other = sr / float(rng.uniform(4.0, 60.0))
        freqs = [0.0, other] if ci % 3 else [other, 0.0, other * 0.4]
        n = int(rng.choice([1, 2, 3, 7, 20, 60]))
        sig = _rand_sig(rng, n, 1)[:, 0]
        impl = _call_srs(srs, sig, sr, freqs, Q, st, ic, pk, tm, es)
        j0 = freqs.index(0.0)
        line = "xcol0 %s %s %s %s %d %s %s %d %s %s" % (st, ic, pk, tm, 1 if es else 0, _bits(Q), _bits(sr), len(freqs), _fl(freqs), _fl(sig))
        nall = n + int(math.ceil(sr / min(f for f in freqs if f > 0)))
        amp = float(np.max(np.abs(sig)))
        fl0 = 2 * amp * {"reldisp": (nall / sr) ** 2, "relvelo": nall / sr}.get(st, 1.0) / (Q if es else 1.0)

        def cb(reps, impl=impl, j0=j0, st=st, ic=ic, pk=pk, tm=tm, es=es, Q=Q, sr=sr, freqs=freqs, sig=sig, fl0=fl0):
            inp = _case_dict(sig, sr, freqs, Q, st, ic, pk, tm, es)
            ctx.case(("xcol0", st, ic, pk, tm, es, Q, sr, tuple(freqs), sig.tobytes()), nontrivial=st in ("reldisp", "relvelo", "relacce"),
                     branch="xcol0:" + st)
            ctx.count("xcol0:time:" + tm)
            if impl[0] != "ok":
                ctx.disagree("xcol0", inp, impl, reps[0][:60])
                return
            if reps[0] in ("none", "bad-op"):
                ctx.disagree("xcol0", inp, {"sh": float(impl[1][j0, 0])}, reps[0])
                return
            m = _parse(reps[0])
            ih = impl[2][:, 0, j0]
            if m[1:].shape != ih.shape or not np.all(np.isfinite(m)):
                ctx.disagree("xcol0", inp, {"hist_len": int(ih.shape[0])}, {"hist_len": int(m.shape[0]) - 1})
                return
            scale = max(float(np.max(np.abs(ih))), fl0, 1e-300)
            err = max(float(np.max(np.abs(m[1:] - ih))), abs(m[0] - impl[1][j0, 0]))
            _room(ctx, "xcol0", err / (1e-9 * scale))
            if err > 1e-9 * scale:
                ctx.disagree("xcol0", dict(inp, freq_index=j0, column=0), {"sh": float(impl[1][j0, 0]), "hist": ih.tolist()[:4]},
                             {"sh": float(m[0]), "hist": m[1:5].tolist()})

        add([line], cb)

    # ---- stream resid (closed-form free decay after the record) vs time='residual' histories ---------------------
    for st in STYPES:
        for i in range(ctx.pick(6, 30)):
            Q, sr, fn = _rand_params(rng, hi=300.0)
            freqs = [fn] if i % 2 else [fn, fn * 0.37]
            n = int(rng.choice([1, 2, 9, 50]))
            sig = _rand_sig(rng, n, 1)[:, 0]
            impl = _call_srs(srs, sig, sr, freqs, Q, st, "zero", "abs", "residual", False)
            line = "resid %s %s %s %d %s %s %s" % (st, _bits(Q), _bits(sr), len(freqs), _fl(freqs), _bits(fn), _fl(sig))

            def cb(reps, impl=impl, st=st, Q=Q, sr=sr, fn=fn, freqs=freqs, sig=sig):
                inp = _case_dict(sig, sr, freqs, Q, st, "zero", "abs", "residual", False)
                ctx.case(("resid", st, Q, sr, fn, sig.tobytes()), nontrivial=True, branch="resid:" + st)
                if impl[0] != "ok":
                    ctx.disagree("resid", inp, impl, reps[0][:60])
                    return
                m = _parse(reps[0])
                ih = impl[2][:, 0, 0]
                scale = max(float(np.max(np.abs(ih))), _floors(st, sig.reshape(-1, 1), sr, [fn], Q, False)[(0, 0)], 1e-300)
                if m.shape != ih.shape or not np.all(np.isfinite(m)):
                    ctx.disagree("resid", inp, {"len": int(ih.shape[0])}, {"len": int(m.shape[0])})
                    return
                _room(ctx, "resid", np.max(np.abs(m - ih)) / (1e-7 * scale))
                if np.max(np.abs(m - ih)) > 1e-7 * scale:
                    k = int(np.argmax(np.abs(m - ih)))
                    ctx.disagree("resid", inp, {"k": k, "hist": float(ih[k])}, {"k": k, "hist": float(m[k])})

            add([line], cb)

    # ---- stream vrs (area weights + transmissibility; psd.interp's output is fed to both sides) ------
    import warnings

    from pyyeti import psd as pyp

    Fs = np.array([20.0, 150.0, 600.0, 2000.0])
    for i in range(ctx.pick(16, 80)):
        Pp = rng.uniform(0.001, 0.1, 4)
        Qv = float(rng.choice([5.0, 10.0, 25.0, 50.0]))
        lin = bool(rng.integers(0, 2))
        gk = ["uniform", "log", "random", "short"][i % 4]
        if gk == "uniform":
            freq = np.arange(20.0, 2000.0, float(rng.choice([2.0, 5.0, 7.5])))
        elif gk == "log":
            freq = np.geomspace(20.0, 2000.0, int(rng.choice([50, 300, 1200])))
        elif gk == "random":
            freq = np.unique(np.hstack(([20.0, 2000.0], rng.uniform(20.0, 2000.0, int(rng.choice([30, 400]))))))
        else:
            freq = np.sort(rng.uniform(20.0, 2000.0, [1, 2, 3][(i // 4) % 3]))
        Fn = None if (i // 4) % 2 == 0 else np.sort(rng.uniform(30.0, 1500.0, int(rng.integers(1, 5))))
        if Fn is not None and len(freq) > 3 and i % 3 != 0:
            # some Fn are members of freq, one value twice: np.unique must drop the duplicates
            Fn = np.sort(np.hstack((Fn, freq[rng.integers(1, len(freq) - 1, 2)], Fn[:1])))
            ctx.count("vrs:Fn-on-grid")
        getresp = bool(rng.integers(0, 2))
        try:
            with warnings.catch_warnings():
                warnings.simplefilter("ignore")
                r = srs.vrs((Fs, Pp), freq, Qv, linear=lin, Fn=Fn, getresp=getresp)
            impl = np.asarray(r[0] if getresp else r, float)
        except (IndexError, ValueError) as e:
            impl = "raise " + type(e).__name__
        grid = freq if Fn is None else np.unique(np.hstack((freq, Fn)))
        fns = grid if Fn is None else Fn
        pfull = np.asarray(pyp.interp((Fs, Pp), grid, lin), float)
        sel = list(range(len(fns))) if len(fns) <= 8 else sorted(set(int(v) for v in rng.integers(0, len(fns), 8)))
        body = " ".join("%s %s" % (_bits(f), _bits(v)) for f, v in zip(grid, pfull))
        lines = ["vrs %s %s %s" % (_bits(Qv), _bits(fns[k]), body) for k in sel]
        # merged integration grid (exact) and Miles' value, from a getresp=True call
        try:
            with warnings.catch_warnings():
                warnings.simplefilter("ignore")
                _, zm, rr = srs.vrs((Fs, Pp), freq, Qv, linear=lin, Fn=Fn, getresp=True)
            gimpl = np.asarray(rr["f"], float)
            zm = np.asarray(zm, float)
        except (IndexError, ValueError):
            gimpl = zm = None
        if gimpl is not None:
            pidx = np.searchsorted(grid, fns)
            msel = sel[:3]
            glines = ["grid %d %s %s" % (len(freq), _fl(freq), _fl(Fn) if Fn is not None else "")] + \
                     ["miles %s %s %s" % (_bits(Qv), _bits(fns[k]), _bits(pfull[pidx[k]])) for k in msel]

            def cbg(reps, gimpl=gimpl, zm=zm, msel=msel, freq=freq, Fn=Fn, gk=gk, Qv=Qv, lin=lin, Pp=Pp):
                inp = {"kind": "vrs", "spec_f": Fs.tolist(), "spec_p": Pp.tolist(), "linear": lin, "grid": gk if gk != "short" else "random",
                       "Fn": None if Fn is None else Fn.tolist(), "freq": freq.tolist(), "Q": Qv}
                ctx.case(("vrsgrid", freq.tobytes(), None if Fn is None else Fn.tobytes()), nontrivial=Fn is not None, branch="vrs:grid")
                mg = _parse(reps[0])
                if mg.shape != gimpl.shape or not np.array_equal(mg, gimpl):
                    ctx.disagree("vrs-grid", inp, gimpl.tolist()[:8], mg.tolist()[:8])
                    return
                for k, rep in zip(msel, reps[1:]):
                    ctx.count("vrs:miles")
                    m = _unbits(rep)
                    if not abs(m - zm[k]) <= 1e-12 * abs(zm[k]):
                        ctx.disagree("vrs-miles", dict(inp, Fn_index=int(k)), float(zm[k]), m)
                        return

            add(glines, cbg)

        def cb(reps, impl=impl, sel=sel, fns=fns, gk=gk, Fn=Fn, freq=freq, Pp=Pp, Qv=Qv, lin=lin):
            inp = {"kind": "vrs", "spec_f": Fs.tolist(), "spec_p": Pp.tolist(), "linear": lin, "grid": gk if gk != "short" else "random",
                   "Fn": None if Fn is None else Fn.tolist(), "freq": freq.tolist(), "Q": Qv}
            br = "vrs:%s%s" % (gk, "+Fn" if Fn is not None else "")
            ctx.case(("vrs", gk, Qv, lin, freq.tobytes(), None if Fn is None else Fn.tobytes()), nontrivial=len(freq) > 2, branch=br)
            if isinstance(impl, str):
                ctx.count("vrs:raises")
                if any(r != "none" for r in reps):
                    ctx.disagree("vrs", inp, impl, reps[0][:40])
                return
            for k, rep in zip(sel, reps):
                if rep in ("none", "bad-op"):
                    ctx.disagree("vrs", inp, float(impl[k]), rep)
                    return
                m = _unbits(rep)
                _room(ctx, "vrs", abs(m - impl[k]) / (1e-9 * abs(impl[k])))
                if not abs(m - impl[k]) <= 1e-9 * abs(impl[k]):
                    ctx.disagree("vrs", dict(inp, Fn_value=float(fns[k])), float(impl[k]), m)
                    return

        add(lines, cb)

    # ---- streams frf / freqvec / callable (second part) ------------------------------------------
    _corr_frf(ctx, srs, ctx.np_rng(5), add)
    _corr_freqvec(ctx, srs, ctx.np_rng(6), add)
    _corr_callable(ctx, srs, ctx.np_rng(7), add)

    # ---- run the driver once, dispatch ----------------------------------------------------------
    reps = drv.ask(req)
    for start, cnt, cb in post:
        cb(reps[start:start + cnt])
    ctx.extra["protocol_lines"] = len(req)
    ctx.exhaustive = False
    ctx.require_branches(
        ["coef:" + s for s in STYPES] + ["coef:wn=0", "coef:wn>0", "lfilter:srs", "lfilter:random"]
        + ["stype:" + s for s in STYPES] + ["ic:" + s for s in ICS] + ["peak:" + s for s in PEAKS]
        + ["time:" + s for s in TIMES] + ["eqsine:True", "eqsine:False", "packaging:1-D", "samples:1", "samples:>1",
                                          "freq:0Hz", "error:empty-record", "error:empty-residual-window"]
        + ["rolloff:%s:resampled:%s" % (r, t) for r in ROLLS for t in TIMES] + ["exact:" + s for s in STYPES]
        + ["vrs:uniform", "vrs:log", "vrs:random", "vrs:uniform+Fn", "vrs:log+Fn", "vrs:random+Fn", "vrs:raises",
           "vrs:grid", "vrs:miles", "vrs:Fn-on-grid"]
        + ["exact0:" + s for s in STYPES] + ["steady:" + s for s in STYPES] + ["resid:" + s for s in STYPES]
        + ["xcol:stype:" + s for s in STYPES] + ["xcol:ic:" + s for s in ICS] + ["xcol:time:" + s for s in TIMES]
        + ["xcol:peak:" + s for s in PEAKS] + ["xcol0:" + s for s in STYPES] + ["xcol0:time:" + s for s in TIMES]
        + ["index:%s:%s:%s" % (r, g, t) for r in ("linear", "fft", "lanczos") for g in ("triggered", "boundary-eq", "not-needed")
           for t in TIMES]
        + ["index:%s:no-resampler:%s" % (r, t) for r in ("none", "prefilter") for t in TIMES]
        + ["index:N=1", "index:N=2", "index:N=>2", "index:raises"]
        + ["frf:" + t for t in ("random", "random:magnitude", "random:signed", "random:complex", "default-srs_frq", "near-duplicates",
                                "near-duplicates:srs_frq", "near-duplicates:frf_frq", "near-duplicates:gap-equal-tol", "single-line",
                                "single-line:scale_by_Q", "scale_by_Q", "scale_by_Q:default", "rigid-body-threshold", "raises",
                                "returns-srs_frq", "no-srs_frq", "getresp", "no-resp", "grid-exact", "grid-numeric",
                                "grid-dropped-near-duplicates", "dtype:frf-float32", "dtype:frf_frq-float32", "dtype:int", "dtype:lists",
                                "dtype:complex64", "dtype:srs_frq-float32")]
        + ["freqvec:" + t for t in ("repeated-adjacent", "repeated-apart", "unsorted", "zero-repeated", "zero-unsorted", "zero+steady",
                                    "repeated+steady")]
        + ["dtype:" + t for t in ("sig-float32", "sig-int", "sig-list", "freq-float32", "freq-int", "freq-list")]
        + ["shape:1-D", "shape:2-D", "shape:1-D:LF=1", "freqvec:single"]
        + ["callable:%s:eqsine=%s" % (w, e) for w in ("ms", "abs") for e in (True, False)]
    )



# ---------------------------------------------------------------------------------------
# correspondence, second part: srs_frf as a routine, frequency vectors with repeated / unsorted /
# zero entries, dtype axis, shapes, callable peaks


def _exact_square(Q):
    from fractions import Fraction

    return Fraction(float(Q) * float(Q)) == Fraction(float(Q)) ** 2


def _frf_line(frf2d, frq, sf, Q, getresp, ret, qonly):
    vals = []
    for j in range(frf2d.shape[1]):
        for z in frf2d[:, j]:
            vals += [float(np.real(z)), float(np.imag(z))]
    return "frf %d %d %s %s %d %d %s %d %d %s %s" % (
        1 if qonly else 0, 1 if getresp else 0, "n" if ret is None else int(bool(ret)), _bits(Q), frf2d.shape[1], len(frq), _fl(frq),
        0 if sf is None else 1, 0 if sf is None else len(sf), "" if sf is None else _fl(sf), _fl(vals))


def _parse_frf_reply(rep):
    """-> None (the model says the code raises) or dict(sh, frq, grid, frfs)"""
    if rep == "none":
        return None
    parts = rep.split("|")
    if len(parts) != 3:
        raise ValueError(rep[:60])
    t = parts[0].split()
    n, nfrf = int(t[0]), int(t[1])
    sh = np.array([_unbits(x) for x in t[2:]], float).reshape(n, nfrf)
    frq = None if parts[1].strip() == "-" else _parse(parts[1])
    grid = frfs = None
    if parts[2].strip() != "-":
        t = parts[2].split()
        nf = int(t[0])
        grid = np.array([_unbits(x) for x in t[1:1 + nf]], float)
        rest = np.array([_unbits(x) for x in t[1 + nf:]], float)
        frfs = (rest[0::2] + 1j * rest[1::2]).reshape(nf, nfrf, n)
    return {"sh": sh, "frq": frq, "grid": grid, "frfs": frfs}


def _frf_case_dict(frf, frq, sf, Q, getresp=False, ret=None, qonly=False, note=None):
    frf = np.asarray(frf)
    d = {"kind": "frf", "frf_frq": np.asarray(frq, float).tolist(), "frf": np.real(frf).astype(float).tolist(),
         "frf_imag": np.imag(frf).astype(float).tolist() if np.iscomplexobj(frf) else None,
         "srs_frq": None if sf is None else np.asarray(sf, float).tolist(), "Q": float(Q)}
    if getresp:
        d["getresp"] = True
    if ret is not None:
        d["return_srs_frq"] = bool(ret)
    if qonly:
        d["scale_by_Q_only"] = True
    if note:
        d["dtype"] = note
    return d


def _frf_cases(ctx, rng):
    """(tag, frf, frf_frq, srs_frq|None, Q, getresp, return_srs_frq, scale_by_Q_only, tolerance, dtype note)"""
    out = []
    QS = [5.0, 10.0, 25.0, 50.0, 0.75, 12.5, 3.5, 20.0]

    def rnd_frf(nf, nc, style):
        re = rng.standard_normal((nf, nc))
        if style == "magnitude":
            return np.abs(re)
        if style == "signed":
            return re
        return re + 1j * rng.standard_normal((nf, nc))

    nrand = ctx.pick(60, 400)
    for i in range(nrand):
        nf = int(rng.integers(2, 13))
        frq = np.sort(rng.uniform(1.0, 200.0, nf)) + np.arange(nf) * 1e-3
        nc = int(rng.integers(1, 4))
        style = ["magnitude", "signed", "complex"][i % 3]
        frf = rnd_frf(nf, nc, style)
        if nc == 1 and i % 2:
            frf = frf[:, 0]  # 1-D packaging
        ns = int(rng.integers(1, 6))
        sf = rng.uniform(0.5, 260.0, ns)  # also outside the FRF band: zero fill
        if i % 4 != 1:
            sf = np.sort(sf)
        if i % 7 == 0 and ns > 1:
            sf[1] = sf[0]  # repeated oscillator
        Q = float(QS[i % len(QS)]) if i % 5 else float(np.exp(rng.uniform(np.log(0.6), np.log(80.0))))
        getresp = i % 2 == 0
        ret = [None, None, True, False][i % 4]
        out.append(("random:" + style, frf, frq, sf, Q, getresp, ret, False, 1e-9, None))
    # default srs_frq (None): p_peak * (frf_frq / p_peak) lands on the FRF lines up to an ulp -> removed as near-duplicates
    for i in range(ctx.pick(12, 60)):
        nf = int(rng.integers(2, 10))
        frq = np.sort(rng.uniform(1.0, 200.0, nf)) + np.arange(nf) * 1e-3
        frf = rnd_frf(nf, int(rng.integers(1, 3)), ["magnitude", "complex"][i % 2])
        out.append(("default-srs_frq", frf, frq, None, float(QS[i % len(QS)]), i % 2 == 0, [None, False, True][i % 3], False, 1e-9, None))
    # near-duplicate removal: gaps around 1e-5 (with margin), chains, exact duplicates, a gap of exactly 1e-5
    for i, gaps in enumerate(([0.0], [0.5e-5], [0.9e-5], [1.1e-5], [2e-5], [1e-4], [0.6e-5, 0.6e-5, 0.6e-5], [0.6e-5, 1.2e-5], [1.1e-5, 0.3e-5, 1.1e-5],
                              [0.0, 0.0, 2e-5])):
        for base in (0.0, 1.0, 37.5):
            pts = [base]
            for g in gaps:
                pts.append(pts[-1] + g)
            frq = np.array([base + 5.0, base + 9.0])
            # the close entries come from p_peak * srs_frq of oscillators chosen so; and from the FRF lines themselves
            Q = float(QS[(i + int(base)) % 4])
            pp = Q * math.sqrt(math.sqrt(1 + 2 / Q ** 2) - 1)
            if base > 0:
                sf = np.array(pts) / pp
                out.append(("near-duplicates:srs_frq", np.array([1.0, 2.0]), frq, sf, Q, True, None, False, 1e-9, None))
            if len(set(pts)) == len(pts):
                frq2 = np.array(pts + [base + 5.0, base + 9.0])
                out.append(("near-duplicates:frf_frq", np.arange(1.0, len(frq2) + 1), frq2, np.array([base + 6.0]), Q, True, None, False, 1e-9, None))
    out.append(("near-duplicates:gap-equal-tol", np.array([1.0, 2.0, 3.0]), np.array([0.0, 1e-5, 3e-5]), np.array([7.0]), 10.0, True, None, False, 1e-9, None))
    out.append(("near-duplicates:gap-equal-tol", np.array([1.0, 2.0, 3.0]), np.array([0.0, 1.0000000000000003e-5 * 1.0000001, 4e-5]), np.array([7.0]), 10.0, True,
                None, False, 1e-9, None))
    # one FRF line: placed by searchsorted (before / inside / past the end of the grid)
    for i in range(ctx.pick(9, 30)):
        f0 = float(rng.uniform(5.0, 50.0))
        sf = np.sort(rng.uniform(1.0, 80.0, int(rng.integers(1, 4))))
        if i % 3 == 0:
            sf = sf[sf < f0 * 0.9] if np.any(sf < f0 * 0.9) else np.array([f0 * 0.5])
        Q = float(QS[i % 4])
        frf = np.array([[float(rng.uniform(0.5, 3.0))]]) * (1j if i % 2 else 1.0)
        out.append(("single-line", frf if i % 4 else frf[:, 0], np.array([f0]), sf, Q, i % 2 == 0, None, False, 1e-9, None))
        out.append(("single-line:scale_by_Q", frf, np.array([f0]), sf, Q, False, None, True, 1e-9, None))
    # scale_by_Q_only
    for i in range(ctx.pick(16, 60)):
        nf = int(rng.integers(2, 10))
        frq = np.sort(rng.uniform(1.0, 200.0, nf)) + np.arange(nf) * 1e-3
        frf = rnd_frf(nf, int(rng.integers(1, 3)), ["magnitude", "signed", "complex"][i % 3])
        sf = None if i % 2 else np.sort(rng.uniform(0.5, 230.0, int(rng.integers(1, 6))))
        out.append(("scale_by_Q" + (":default" if sf is None else ""), frf, frq, sf, float(QS[i % len(QS)]), False, [None, True, False][i % 3], True, 1e-9, None))
    # rigid-body oscillators: (2 pi fn)^2 < 0.005, i.e. fn < 0.011254 Hz
    for fn in (0.0, 0.005, 0.0112, 0.0113, 0.02):
        frq = np.array([0.0, 0.004, 0.01, 0.05, 1.0])
        out.append(("rigid-body-threshold", np.array([1.0, 2.0, 1.5, 1.0, 0.5]), frq, np.array([fn, 0.5]), 10.0, True, None, False, 1e-9, None))
    # refused: getresp together with scale_by_Q_only
    out.append(("raises", np.array([1.0, 2.0]), np.array([1.0, 2.0]), np.array([1.5]), 10.0, True, None, True, 1e-9, None))
    # dtype axis
    frq = np.array([1.0, 2.0, 5.0, 9.0, 14.0])
    frf = np.array([1.0, 3.0, 2.0, 1.0, 4.0])
    sf = np.array([2.0, 3.5, 8.0])
    for note, F, f_, s_, tol in (
        ("frf-float32", frf.astype(np.float32), frq, sf, 1e-9), ("frf_frq-float32", frf, frq.astype(np.float32), sf, 1e-9),
        ("int", frf.astype(int), frq.astype(int), np.array([2, 3, 8]), 1e-9), ("lists", frf.tolist(), frq.tolist(), sf.tolist(), 1e-9),
        ("complex64", (frf * (1 + 1j)).astype(np.complex64), frq, sf, 1e-6), ("srs_frq-float32", frf, frq, sf.astype(np.float32), 1e-5),
    ):
        for qonly in (False, True):
            out.append(("dtype:" + note, F, f_, s_, 10.0, not qonly, None, qonly, tol, note))
    return out


def _corr_frf(ctx, srs, rng, add):
    for tag, frf, frq, sf, Q, getresp, ret, qonly, tol, note in _frf_cases(ctx, rng):
        frf2d = np.asarray(frf)
        if frf2d.ndim == 1:
            frf2d = frf2d.reshape(-1, 1)
        frqd = np.asarray(frq, float)
        sfd = None if sf is None else np.asarray(sf, float)
        try:
            out = srs.srs_frf(frf, frq, sf, Q, getresp=getresp, return_srs_frq=ret, scale_by_Q_only=qonly)
            impl = out if isinstance(out, tuple) else (out,)
        except ValueError as e:
            impl = "raise ValueError"
        except Exception as e:  # a mutated source may raise anything
            impl = "raise " + type(e).__name__
        line = _frf_line(frf2d.astype(complex), frqd, sfd, Q, getresp, ret, qonly)

        def cb(reps, tag=tag, frf2d=frf2d, frqd=frqd, sfd=sfd, Q=Q, getresp=getresp, ret=ret, qonly=qonly, tol=tol, note=note, impl=impl):
            inp = _frf_case_dict(frf2d, frqd, sfd, Q, getresp, ret, qonly, note)
            try:
                m = _parse_frf_reply(reps[0])
            except ValueError:
                ctx.disagree("frf", inp, "a result", reps[0][:60])
                return
            exact = _exact_square(Q) and note not in ("srs_frq-float32",)
            ctx.count("frf:" + tag.split(":")[0])
            ctx.count("frf:" + tag)
            # branch bookkeeping from the *input* (an edit of the code must not make a declared branch disappear)
            want_frq_in = (ret if ret is not None else sfd is None)
            if not (getresp and qonly):
                ctx.count("frf:returns-srs_frq" if want_frq_in else "frf:no-srs_frq")
                ctx.count("frf:getresp" if getresp else "frf:no-resp")
                if getresp:
                    ctx.count("frf:grid-exact" if exact else "frf:grid-numeric")
                    if m is not None and m["grid"] is not None and len(m["grid"]) < len(frqd) + (len(frqd) if sfd is None else len(sfd)):
                        ctx.count("frf:grid-dropped-near-duplicates")
            if isinstance(impl, str):
                ctx.case(("frf", tag, line_key(inp)), nontrivial=True, branch="frf:raises")
                if m is not None:
                    ctx.disagree("frf-raises", inp, impl, "returns a spectrum")
                return
            if m is None:
                ctx.case(("frf", tag, line_key(inp)), nontrivial=True)
                ctx.disagree("frf-raises", inp, "returns a spectrum", "none (the model says the code raises)")
                return
            sh = np.asarray(impl[0])
            want_frq = (ret if ret is not None else sfd is None)
            k = 1
            ifrq = iresp = None
            if len(impl) > k and not isinstance(impl[k], dict):
                ifrq = np.asarray(impl[k], float)
                k += 1
            if len(impl) > k and isinstance(impl[k], dict):
                iresp = impl[k]
            n_osc = len(frqd) if sfd is None else len(sfd)
            ctx.case(("frf", tag, line_key(inp)), nontrivial=bool(np.any(sh != 0)))
            # ---- exact: what is returned, shapes
            obs = {"n_returned": len(impl), "srs_frq": ifrq is not None, "resp": iresp is not None, "sh_shape": list(sh.shape),
                   "frfs_shape": None if iresp is None else list(np.shape(iresp["frfs"])),
                   "freq_len": None if iresp is None else int(len(iresp["freq"])),
                   "resp_keys": None if iresp is None else sorted(iresp)}
            mod = {"n_returned": 1 + (m["frq"] is not None) + (m["grid"] is not None), "srs_frq": m["frq"] is not None,
                   "resp": m["grid"] is not None, "sh_shape": list(m["sh"].shape),
                   "frfs_shape": None if m["frfs"] is None else list(m["frfs"].shape),
                   "freq_len": None if m["grid"] is None else int(len(m["grid"])),
                   "resp_keys": None if m["grid"] is None else ["freq", "frfs", "srs_frq"]}
            if obs != mod:
                ctx.disagree("frf-shape", inp, obs, mod)
                return
            # ---- the analysis grid: exact (bit patterns) when p_peak is reproducible bit for bit
            if iresp is not None:
                gi = np.asarray(iresp["freq"], float)
                ok = np.array_equal(gi, m["grid"]) if exact else bool(np.allclose(gi, m["grid"], rtol=1e-6 if note else 1e-13, atol=0))
                if not ok:
                    ctx.disagree("frf-grid", inp, gi.tolist()[:12], m["grid"].tolist()[:12])
                    return
                si = np.asarray(iresp["srs_frq"], float)
                if si.shape != (n_osc,):
                    ctx.disagree("frf-shape", inp, {"resp_srs_frq_len": int(si.size)}, {"resp_srs_frq_len": n_osc})
                    return
            if ifrq is not None:
                ok = np.array_equal(ifrq, m["frq"]) if exact else bool(np.allclose(ifrq, m["frq"], rtol=1e-6 if note else 1e-13, atol=0))
                if not ok:
                    ctx.disagree("frf-srs_frq", inp, ifrq.tolist()[:8], m["frq"].tolist()[:8])
                    return
            # ---- values
            amp = float(np.max(np.abs(frf2d))) * (Q if qonly else math.sqrt(Q * Q + 1))
            scale = max(float(np.max(np.abs(sh))) if sh.size else 0.0, amp, 1e-300)
            err = float(np.max(np.abs(sh - m["sh"]))) if sh.size else 0.0
            _room(ctx, "frf", err / (tol * scale))
            if not err <= tol * scale:
                ij = np.unravel_index(int(np.argmax(np.abs(sh - m["sh"]))), sh.shape)
                ctx.disagree("frf-sh", dict(inp, index=[int(v) for v in ij]), float(sh[ij]), float(m["sh"][ij]))
                return
            if iresp is not None:
                fi = np.asarray(iresp["frfs"])
                err = float(np.max(np.abs(fi - m["frfs"]))) if fi.size else 0.0
                _room(ctx, "frf", err / (tol * scale))
                if not err <= tol * scale:
                    ij = np.unravel_index(int(np.argmax(np.abs(fi - m["frfs"]))), fi.shape)
                    ctx.disagree("frf-frfs", dict(inp, index=[int(v) for v in ij]), [float(fi[ij].real), float(fi[ij].imag)],
                                 [float(m["frfs"][ij].real), float(m["frfs"][ij].imag)])
                    return
            if len(ctx.samples) < 7 and tag.startswith("random") and iresp is not None:
                ctx.sample({"stream": "frf", "frf_frq": frqd.tolist(), "srs_frq": None if sfd is None else sfd.tolist(), "Q": Q,
                            "ffreq": np.asarray(iresp["freq"]).tolist(), "sh": sh.tolist()})

        add([line], cb)


def line_key(inp):
    return repr(sorted((k, repr(v)) for k, v in inp.items()))


def _freqvec_cases(ctx, rng):
    """srs.srs inputs whose frequency vector has repeated (adjacent / apart), unsorted and zero entries, and the
    dtype axis: (tags, sig, sr, freq, Q, opts, tolerance)"""
    out = []
    combos = [(st, ic) for st in STYPES for ic in ICS]
    reps = ctx.pick(2, 8)
    for r in range(reps):
        for ci, (st, ic) in enumerate(combos):
            Q, sr, fn = _rand_params(rng, hi=200.0)
            g = min(sr / 2.05, fn * float(rng.uniform(1.3, 3.0)))
            zero_ok = not (ic == "steady" and st in ("reldisp", "pvelo"))
            shape = (ci + r) % 6
            if shape == 0:
                freqs, tag = [fn, fn], "repeated-adjacent"
            elif shape == 1:
                freqs, tag = [g, fn, fn, g, fn], "repeated-adjacent"
            elif shape == 2:
                freqs, tag = [fn, g, fn], "repeated-apart"
            elif shape == 3:
                freqs, tag = [g, fn, 0.5 * (fn + g)], "unsorted"
            elif shape == 4 and zero_ok:
                freqs, tag = [0.0, fn, 0.0, 0.0, g], "zero-repeated"
            elif zero_ok:
                freqs, tag = [g, 0.0, fn], "zero-unsorted"
            else:
                freqs, tag = [g, g, g, fn], "repeated-adjacent"
            if r == 1 and ci % 4 == 0:
                freqs, tag = [fn], "single"
            tags = ["freqvec:" + tag]
            if ic == "steady" and any(f == 0 for f in freqs):
                tags.append("freqvec:zero+steady")
            if ic == "steady" and tag.startswith("repeated"):
                tags.append("freqvec:repeated+steady")
            n = int(rng.choice([1, 2, 5, 24, 60]))
            H = int(rng.integers(1, 4))
            sig = _rand_sig(rng, n, H) + float(rng.uniform(1.0, 4.0))  # first sample away from zero: ic rules matter
            oneD = H == 1 and (ci + r) % 2 == 0
            pk = PEAKS[(ci + r) % 6]
            tm = TIMES[(ci // 2 + r) % 3]
            es = bool((ci + r) % 2)
            if tag == "single":
                H, oneD = 1, True
                sig = sig[:, :1]
            out.append((tags + ["shape:" + ("1-D" if oneD else "2-D") + (":LF=1" if len(freqs) == 1 else "")], sig[:, 0].copy() if oneD else sig, sr,
                        freqs, Q, (st, ic, pk, tm, es), 1e-9))
    # dtype axis
    for i in range(ctx.pick(16, 64)):
        st, ic = combos[(i * 5) % len(combos)]
        pk = PEAKS[i % 6]
        tm = TIMES[i % 3]
        es = bool(i % 2)
        sr = float(rng.choice([200.0, 1000.0, 4096.0]))
        # frequencies that single precision holds exactly and whose cycle length sr/f is far from an integer
        # (with a float32 `freq` the number of appended samples ceil(sr / minf) is evaluated in single precision)
        cand = [f for f in np.arange(2.25, sr / 4.0, 0.25) if 0.15 < (sr / f) % 1.0 < 0.85]
        f1, f2 = [float(v) for v in rng.choice(cand, 2, replace=False)]
        n = int(rng.choice([3, 17, 40]))
        H = int(rng.integers(1, 3))
        base = np.round(_rand_sig(rng, n, H) * 8.0 + 3.0)
        kind = ["sig-float32", "sig-int", "sig-list", "freq-float32", "freq-int", "freq-list"][i % 6]
        Q = float(rng.choice([5.0, 10.0, 25.0]))
        freqs = [f1, f2]
        sig = base / 8.0
        tol = 1e-9
        if kind == "sig-float32":
            sig = (sig + rng.standard_normal(sig.shape)).astype(np.float32)
            tol = 1e-6 if ic != "zero" else 1e-9  # the ic rule subtracts in single precision
        elif kind == "sig-int":
            sig = base.astype(int)
        elif kind == "sig-list":
            sig = sig.tolist()
        elif kind == "freq-float32":
            freqs = np.array(freqs, np.float32)
        elif kind == "freq-int":
            freqs = np.array([int(max(3, round(f1))), int(max(4, round(f2)) + 1)])
        else:
            freqs = [f1, f2]
        out.append((["dtype:" + kind], sig, sr, freqs, Q, (st, ic, pk, tm, es), tol))
    return out


def _corr_freqvec(ctx, srs, rng, add):
    for tags, sig, sr, freqs, Q, opts, tol in _freqvec_cases(ctx, rng):
        st, ic, pk, tm, es = opts
        try:
            sh, resp = srs.srs(sig, sr, freqs, Q, ic=ic, stype=st, peak=pk, rolloff="none", eqsine=es, time=tm, getresp=True, parallel="no")
            impl = ("ok", np.asarray(sh), np.asarray(resp["hist"]), float(resp["sr"]), np.asarray(resp["t"]))
        except Exception as e:
            impl = ("raise", type(e).__name__)
        sig2d = np.asarray(sig, float)
        one = sig2d.ndim == 1
        if one:
            sig2d = sig2d.reshape(-1, 1)
        fl64 = [float(f) for f in np.asarray(freqs, float)]
        pairs = _srs_requests(opts, Q, sr, fl64, sig2d)
        keys = [k for k, _ in pairs]
        s1max = float(np.max(np.abs(sig2d[0])))
        pos = [2 * math.pi * f for f in fl64 if f > 0]
        addb = 0.0
        if ic == "steady":
            addb = {"reldisp": s1max / min(pos) ** 2, "pvelo": s1max / min(pos)}.get(st, s1max)
        flo = _floors(st, sig2d, sr, fl64, Q, es)

        def cb(reps, impl=impl, keys=keys, tags=tags, sig2d=sig2d, one=one, sr=sr, fl64=fl64, Q=Q, opts=opts, tol=tol, addb=addb, flo=flo):
            st, ic, pk, tm, es = opts
            inp = _case_dict(sig2d[:, 0] if one else sig2d, sr, fl64, Q, st, ic, pk, tm, es)
            if len(tags) and tags[0].startswith("dtype:"):
                inp["dtype"] = tags[0][6:]
            for tg in tags:
                ctx.count(tg)
            if impl[0] == "ok":
                # exact: shapes of sh and of resp['hist'] against the model's window length
                H, LF = sig2d.shape[1], len(fl64)
                mlens = set()
                for rep in reps:
                    if rep not in ("none", "bad-op"):
                        mlens.add(len(rep.split()) - 1)
                obs = {"sh_shape": list(impl[1].shape), "hist_shape": list(impl[2].shape), "t_len": int(impl[4].shape[0])}
                T = mlens.pop() if len(mlens) == 1 else None
                want = {"sh_shape": [LF] if one else [LF, H], "hist_shape": [T, H, LF], "t_len": T}
                if obs != want:
                    ctx.disagree("shape", inp, obs, want)
                    ctx.case(("freqvec", line_key(inp)), nontrivial=True)
                    return
                impl = ("ok", np.asarray(impl[1], float).reshape(LF, H), np.asarray(impl[2], float), impl[3], impl[4])
            nt = _cmp_hist(ctx, "freqvec" if tol == 1e-9 else "freqvec-float32", inp, impl, reps, keys,
                           extra_scale=addb / (Q if es else 1.0), tol=tol, floors=flo)
            ctx.case(("freqvec", line_key(inp)), nontrivial=nt)

        add([l for _, l in pairs], cb)


def _ms_peak(resp):
    return (resp ** 2).mean(axis=0)


def _abs_peak(resp):
    return abs(resp).max(axis=0)


def _corr_callable(ctx, srs, rng, add):
    for i in range(ctx.pick(48, 200)):
        st = STYPES[i % 6]
        ic = ICS[(i // 6) % 4]
        tm = TIMES[(i // 2) % 3]
        es = bool(i % 2)
        which = "ms" if (i // 3) % 2 == 0 else "abs"
        Q, sr, fn = _rand_params(rng, hi=200.0)
        freqs = [fn] if i % 3 else [fn, min(sr / 2.05, 1.9 * fn)]
        n = int(rng.choice([1, 2, 9, 40]))
        H = int(rng.integers(1, 3))
        sig2d = _rand_sig(rng, n, H) + 1.5
        fun = _ms_peak if which == "ms" else _abs_peak
        try:
            sh, resp = srs.srs(sig2d, sr, freqs, Q, ic=ic, stype=st, peak=fun, rolloff="none", eqsine=es, time=tm, getresp=True, parallel="no")
            impl = ("ok", np.asarray(sh, float).reshape(len(freqs), H), np.asarray(resp["hist"], float), float(resp["sr"]), np.asarray(resp["t"]))
        except Exception as e:
            impl = ("raise", type(e).__name__)
        head = "srsg %s %s %s %s %d %s %s %d %s" % (which, st, ic, tm, 1 if es else 0, _bits(Q), _bits(sr), len(freqs), _fl(freqs))
        lines, keys = [], []
        for j, f in enumerate(freqs):
            for c in range(H):
                lines.append("%s %s %s" % (head, _bits(f), _fl(sig2d[:, c])))
                keys.append((j, c))
        flo = _floors(st, sig2d, sr, freqs, Q, es)
        if which == "ms":  # the statistic is quadratic in the history
            flo = {k: v * v * (Q if es else 1.0) for k, v in flo.items()}

        def cb(reps, impl=impl, keys=keys, which=which, st=st, ic=ic, tm=tm, es=es, Q=Q, sr=sr, freqs=freqs, sig2d=sig2d, flo=flo):
            inp = dict(_case_dict(sig2d, sr, freqs, Q, st, ic, "callable:" + which, tm, es), kind="srsg")
            ctx.count("callable:%s:eqsine=%s" % (which, es))
            if which == "ms" and impl[0] == "ok":
                # the history is compared on its own scale, the mean square on its own
                _, sh, hist, _, _ = impl
                ok = True
                for (j, c), rep in zip(keys, reps):
                    if rep in ("none", "bad-op"):
                        ctx.disagree("callable", inp, {"sh": float(sh[j, c])}, rep)
                        ok = False
                        break
                    m = _parse(rep)
                    hs = max(float(np.max(np.abs(hist[:, c, j]))) if hist.shape[0] else 0.0, 1e-300)
                    if m[1:].shape != hist[:, c, j].shape or np.max(np.abs(m[1:] - hist[:, c, j])) > 1e-9 * max(hs, flo[(j, c)] ** 0.5):
                        ctx.disagree("callable", dict(inp, freq_index=j, column=c), {"hist": hist[:3, c, j].tolist()}, {"hist": m[1:4].tolist()})
                        ok = False
                        break
                    ps = max(abs(sh[j, c]), flo[(j, c)], 1e-300)
                    _room(ctx, "callable", abs(m[0] - sh[j, c]) / (1e-9 * ps))
                    if abs(m[0] - sh[j, c]) > 1e-9 * ps:
                        ctx.disagree("callable", dict(inp, freq_index=j, column=c), {"sh": float(sh[j, c])}, {"sh": float(m[0])})
                        ok = False
                        break
                ctx.case(("callable", line_key(inp)), nontrivial=ok and bool(np.any(hist != 0)))
                return
            nt = _cmp_hist(ctx, "callable", inp, impl, reps, keys, floors=flo,
                           extra_scale=float(np.max(np.abs(sig2d[0]))) * (1.0 if st in ("absacce", "pacce") else 0.0))
            ctx.case(("callable", line_key(inp)), nontrivial=nt)

        add(lines, cb)


# ---------------------------------------------------------------------------------------
# model-free oracle


_ORACLE_ROOM = [0.0]


def _shift(sig2d, ic):
    """the ic rule applied to the record (numpy, independent of srs._process_ic)"""
    if ic == "zero":
        return sig2d.copy()
    if ic == "mshift":
        return sig2d - sig2d.mean(axis=0)
    return sig2d - sig2d[0]


class _ShortPrefilter(Exception):
    pass


def _upsample(sg, sr, roll, mf, ppc=12, as_built=True):
    """the documented roll-off resampling, called on the library routines directly (not through
    srs.linroll/lanroll/fftroll/preroll): -> (signal, sample rate, factor).  The decision (resample
    iff the minimum points per cycle is *not met*: sr/mf < ppc, strictly) and the factor are computed
    in exact rational arithmetic.  The resamplers' own contract is C19; here only *where* srs applies
    them and what it does afterwards matters.  `as_built=False` (linear only): the piecewise-linear
    interpolant of the record evaluated on the grid k/(sr*factor) the result is labelled with, i.e.
    (N-1)*factor+1 points; `as_built=True`: linroll's np.linspace(0, t_last, N*factor-1) grid (the two
    coincide for factor 2 only, see finding srs-rolloff-linear)."""
    from fractions import Fraction

    from scipy import signal as sps

    N = sg.shape[0]
    if roll == "prefilter":
        if N <= 12:  # scipy.signal.filtfilt: the record must be longer than padlen = 12
            raise _ShortPrefilter()
        return sps.filtfilt(np.array([0.8767, 1.7533, 0.8767]), np.array([1, 1.6296, 0.8111, 0.0659]), sg, axis=0), sr, 1
    if roll == "none" or mf == 0 or N <= 1 or not (Fraction(sr) / Fraction(mf) < Fraction(ppc)):
        return sg, sr, 1
    factor = int(math.ceil(Fraction(ppc) * Fraction(mf) / Fraction(sr)))
    if roll == "linear":
        told = np.arange(N) / sr
        if as_built:
            tnew = np.linspace(0.0, told[-1], N * factor - 1)
        else:
            tnew = np.arange((N - 1) * factor + 1) / (sr * factor)
        return np.column_stack([np.interp(tnew, told, sg[:, c]) for c in range(sg.shape[1])]), sr * factor, factor
    if roll == "fft":
        if N & 1:
            return sps.resample(sg[:-1], factor * (N - 1), axis=0), sr * factor, factor
        return sps.resample(sg, factor * N, axis=0), sr * factor, factor
    if roll == "lanczos":
        from pyyeti import dsp

        return dsp.resample(sg, factor, 1, pts=65, axis=0), sr * factor, factor
    raise ValueError(roll)


def _exact_history(drive, s1, sr, fn, Q, ic, nz):
    """Exact oscillator response to the piecewise-linear input `drive` (the shifted, possibly
    up-sampled record) followed by nz samples of zero base acceleration under the code's padding
    rule: states by an augmented-matrix exponential in dimensionless time (U = wn^2 u, V = wn v),
    at rest one sample before the record.  Returns dict stype -> history (len(drive) + nz)."""
    from scipy.linalg import expm

    drive = np.asarray(drive, float)
    pad = np.zeros(nz) - (s1 if ic == "steady" else 0.0)
    drive = np.concatenate([drive, pad])
    zeta = 0.5 / Q
    h = 1.0 / sr
    w = 2 * math.pi * fn
    n = drive.shape[0]
    U = np.zeros(n)
    V = np.zeros(n)
    if w > 0:
        th = w * h
        M = np.array([[0, 1, 0, 0], [-1, -2 * zeta, -1, 0], [0, 0, 0, 1], [0, 0, 0, 0]], float)
        P = expm(M * th)
        u = v = 0.0
        xp = 0.0
        for k in range(n):
            xd = (drive[k] - xp) / th
            u, v = (P[0, 0] * u + P[0, 1] * v + P[0, 2] * xp + P[0, 3] * xd,
                    P[1, 0] * u + P[1, 1] * v + P[1, 2] * xp + P[1, 3] * xd)
            xp = drive[k]
            U[k], V[k] = u, v
        out = {"reldisp": U / w ** 2, "relvelo": V / w, "pvelo": U / w, "pacce": U.copy(),
               "absacce": -2 * zeta * V - U, "relacce": -2 * zeta * V - U - drive}
    else:
        u = v = 0.0
        xp = 0.0
        for k in range(n):
            u, v = u + v * h - h * h * (2 * xp + drive[k]) / 6, v - h * (xp + drive[k]) / 2
            xp = drive[k]
            U[k], V[k] = u, v
        out = {"reldisp": U, "relvelo": V, "pvelo": 0 * U, "pacce": 0 * U, "absacce": 0 * U, "relacce": -drive}
    if ic == "steady":  # response from steady state = response to (x - s1) from rest + static response to s1
        if w > 0:
            out["reldisp"] = out["reldisp"] - s1 / w ** 2
            out["pvelo"] = out["pvelo"] - s1 / w
        out["pacce"] = out["pacce"] - s1
        out["absacce"] = out["absacce"] + s1
    return out


def _peak(pk, r):
    if pk == "abs":
        return float(np.max(np.abs(r)))
    if pk == "pos":
        return abs(float(np.max(r)))
    if pk == "poss":
        return float(np.max(r))
    if pk == "neg":
        return abs(float(np.min(r)))
    if pk == "negs":
        return float(np.min(r))
    return float(math.sqrt(np.mean(np.asarray(r) ** 2)))


def _oracle_srs(case):
    """exact response / window / peak oracle for one srs.srs call; returns list of failure dicts"""
    from pyyeti import srs

    fails = []
    sig = np.asarray(case["sig"], float)
    sr, freqs, Q = case["sr"], case["freq"], case["Q"]
    st, ic, pk, tm, es = case["stype"], case["ic"], case["peak"], case["time"], case["eqsine"]
    roll = case.get("rolloff", "none")
    ppc = case.get("ppc", 12)
    res = _call_srs(srs, sig, sr, freqs, Q, st, ic, pk, tm, es, rolloff=roll, ppc=ppc)
    inp = dict(case)
    rtag = "" if roll == "none" else ":rolloff=" + roll
    if res[0] == "raise" and roll == "prefilter" and np.atleast_1d(sig).shape[0] <= 12:
        return fails  # scipy.signal.filtfilt refuses records of <= 12 samples (reported as an observation, not a failure)
    if res[0] == "raise":
        fails.append({"family": "srs-raises:%s:ic=%s:time=%s%s" % (st, ic, tm, rtag), "what": "srs.srs raises " + res[1],
                      "input": inp, "observed": res[1], "required": "a spectrum"})
        return fails
    _, sh, hist, sr_out, tvec = res
    sig2d = sig.reshape(-1, 1) if sig.ndim == 1 else sig
    H = sig2d.shape[1]
    # the record the oscillators see: ic rule, then the roll-off resampling at the (new) rate sr
    sr_in = sr
    sg, sr, factor = _upsample(_shift(sig2d, ic), sr, roll, max(freqs), ppc)
    N = sg.shape[0]
    pos = [f for f in freqs if f > 0]
    nz = int(math.ceil(sr / min(pos))) if (pos and tm != "primary") else 0
    want_len = {"primary": N, "total": N + nz, "residual": nz}[tm]
    t0 = N if tm == "residual" else 0
    if hist.shape != (want_len, H, len(freqs)) or tvec.shape != (want_len,) or sr_out != sr or \
            (want_len and abs(tvec[0] - t0 / sr) > 1e-12 * max(1.0, t0 / sr)) or \
            (want_len > 1 and abs((tvec[-1] - tvec[0]) * sr - (want_len - 1)) > 1e-9 * want_len):
        fails.append({"family": "srs-window:time=%s%s" % (tm, rtag),
                      "what": "history/time vector does not cover the stated window (start, length, sample rate)",
                      "input": inp,
                      "observed": {"hist_shape": list(hist.shape), "t0": float(tvec[0]) if tvec.size else None, "sr": sr_out},
                      "required": {"hist_shape": [want_len, H, len(freqs)], "t0": t0 / sr, "sr": sr}})
        return fails
    for j, f in enumerate(freqs):
        if f > 0 and sr / f > 2000:
            continue
        for c in range(H):
            ex = _exact_history(sg[:, c], sig2d[0, c], sr, f, Q, ic, nz)[st]
            win = ex[t0:] / (Q if es else 1.0)
            ih = hist[:, c, j]
            add = abs(sig2d[0, c]) if ic == "steady" else 0.0
            if ic == "steady" and f > 0:
                add = {"reldisp": add / (2 * math.pi * f) ** 2, "pvelo": add / (2 * math.pi * f)}.get(st, add)
            scale = max(float(np.max(np.abs(ex))), add, 1e-300) / (Q if es else 1.0)
            if not np.all(np.isfinite(ih)):
                fails.append({"family": "srs-hist:%s:ic=%s:nonfinite" % (st, ic), "what": "non-finite response history",
                              "input": dict(inp, freq_index=j, column=c), "observed": "nan/inf", "required": "finite history"})
                return fails
            err = float(np.max(np.abs(ih - win)))
            _ORACLE_ROOM[0] = max(_ORACLE_ROOM[0], err / (2e-7 * scale))
            if err > 2e-7 * scale:
                k = int(np.argmax(np.abs(ih - win)))
                fails.append({"family": "srs-hist:%s:ic=%s:time=%s%s%s" % (st, ic, tm, ":0Hz" if f == 0 else "", rtag),
                              "what": "response history differs from the exact oscillator response to the linearly interpolated input",
                              "input": dict(inp, freq_index=j, column=c),
                              "observed": {"k": k, "hist": float(ih[k])}, "required": {"k": k, "hist": float(win[k])}})
                return fails
            want = _peak(pk, ih)
            if abs(sh[j, c] - want) > 1e-9 * max(scale, abs(want)):
                fails.append({"family": "srs-peak:%s:time=%s%s" % (pk, tm, rtag),
                              "what": "spectrum value is not the stated peak statistic of the returned history",
                              "input": dict(inp, freq_index=j, column=c), "observed": float(sh[j, c]), "required": want})
                return fails
    if roll == "linear" and factor >= 3:
        # finding: linroll evaluates the interpolant on np.linspace(0, t_last, N*factor - 1), which has the spacing
        # 1/(sr*factor) only for factor = 2; the result is nevertheless labelled with sr*factor
        sgc = _upsample(_shift(sig2d, ic), sr_in, roll, max(freqs), ppc, as_built=False)[0]
        Nc = sgc.shape[0]
        lens = {"primary": Nc, "total": Nc + nz, "residual": nz}[tm]
        dev = None
        if tm != "residual" and all(f > 0 for f in freqs):
            ex = _exact_history(sgc[:, 0], sig2d[0, 0], sr, freqs[0], Q, ic, nz)[st] / (Q if es else 1.0)
            m = min(len(ex), hist.shape[0])
            dev = float(np.max(np.abs(hist[:m, 0, 0] - ex[:m])) / max(float(np.max(np.abs(ex))), 1e-300))
        if hist.shape[0] != lens or (dev is not None and dev > 1e-6):
            fails.append({"family": "srs-rolloff-linear:factor>=3:time-grid",
                          "what": "rolloff='linear' with an up-sampling factor >= 3: the record is interpolated on a grid of N*factor-1 "
                                  "points spanning [0, (N-1)/sr], whose spacing is not 1/(sr*factor); the history is not the response to "
                                  "the linearly interpolated record at the times resp['t']",
                          "input": inp,
                          "observed": {"factor": factor, "primary_samples": int(N), "max_rel_deviation_from_exact": dev},
                          "required": {"factor": factor, "primary_samples": int(Nc), "max_rel_deviation_from_exact": 0.0}})
    return fails


def _oracle_relations(case):
    """spectrum relations on one (sig, sr, freq, Q, ic): returns failures"""
    from pyyeti import srs

    fails = []
    sig = np.asarray(case["sig"], float)
    sr, freqs, Q, ic = case["sr"], case["freq"], case["Q"], case["ic"]
    st = case["stype"]
    kw = dict(ic=ic, rolloff="none", parallel="no")

    def S(sig=sig, stype=st, peak="abs", time="primary", eqsine=False):
        return np.asarray(srs.srs(sig, sr, freqs, Q, stype=stype, peak=peak, time=time, eqsine=eqsine, **kw), float)

    def plain(v):
        if isinstance(v, (list, tuple)):
            return [plain(x) for x in v]
        return np.asarray(v).tolist()

    def bad(fam, what, obs, req, **more):
        fails.append({"family": "relation:" + fam, "what": what, "input": dict(case, **more),
                      "observed": plain(obs), "required": plain(req)})

    for tm in TIMES:
        a, p, n_ = S(time=tm), S(peak="pos", time=tm), S(peak="neg", time=tm)
        if not np.array_equal(a, np.maximum(p, n_)):
            bad("abs-max-pos-neg:%s" % st, "abs != max(pos, neg)", a, np.maximum(p, n_), time=tm)
        ps, ns = S(peak="poss", time=tm), S(peak="negs", time=tm)
        if not (np.array_equal(np.abs(ps), p) and np.array_equal(np.abs(ns), n_)):
            bad("signed-peaks:%s" % st, "|poss| != pos or |negs| != neg", [ps, ns], [p, n_], time=tm)
    tot, pri, resd = S(time="total"), S(time="primary"), S(time="residual")
    if np.any(tot < pri) or np.any(tot < resd) or not np.array_equal(tot, np.maximum(pri, resd)):
        bad("total-primary-residual:%s:ic=%s" % (st, ic), "total != max(primary, residual)", tot, np.maximum(pri, resd))
    e = S(eqsine=True)
    if np.max(np.abs(e * Q - pri)) > 1e-12 * max(np.max(np.abs(pri)), 1e-300):
        bad("eqsine:%s" % st, "eqsine != srs / Q", e, pri / Q)
    for k in (2.0, -0.5, 3.7):
        sc = S(sig=k * sig)
        tol = 0.0 if k in (2.0, -0.5) else 1e-9
        if np.max(np.abs(sc - abs(k) * pri)) > tol * max(np.max(np.abs(pri)), 1e-300):
            bad("linear-scaling:%s:ic=%s" % (st, ic), "srs(k sig) != |k| srs(sig)", sc, abs(k) * pri, k=k)
    if sig.ndim == 2 and sig.shape[1] > 1:
        perm = list(range(sig.shape[1]))[::-1]
        if sig.shape[1] > 2:
            perm = perm[1:] + perm[:1]
        sp = S(sig=np.ascontiguousarray(sig[:, perm]))
        # 'mshift' subtracts a column mean whose summation order depends on the memory layout
        ptol = 1e-12 * np.max(np.abs(pri)) if ic == "mshift" else 0.0
        if sp.shape != pri.shape or np.max(np.abs(sp - pri[:, perm])) > ptol:
            bad("column-permutation:%s" % st, "permuting columns does not permute the spectra", sp, pri[:, perm], perm=perm)
        one = S(sig=sig[:, 0].copy())
        if one.shape != (len(freqs),) or np.max(np.abs(one - pri[:, 0])) > ptol:
            bad("packaging-1d-2d:%s" % st, "1-D packaging of a column gives another spectrum", one, pri[:, 0])
    # ---- the frequency vector: permutation / repetition of entries permutes / repeats the rows (bit for bit), also
    # in the histories; in particular two equal entries give equal rows whatever stands between them
    LF = len(freqs)
    idx = list(range(LF))[::-1] + [0, 0, LF - 1]
    f2 = [freqs[i] for i in idx]
    for tm in TIMES:
        for pk in ("abs", "rms"):
            a, ra = srs.srs(sig, sr, freqs, Q, stype=st, peak=pk, time=tm, getresp=True, **kw)
            b, rb = srs.srs(sig, sr, f2, Q, stype=st, peak=pk, time=tm, getresp=True, **kw)
            a, b = np.asarray(a, float), np.asarray(b, float)
            if b.shape[0] != len(f2) or not np.array_equal(b, a[idx]) or not np.array_equal(rb["hist"], ra["hist"][:, :, idx]):
                bad("frequency-vector:%s:ic=%s" % (st, ic), "re-ordering / repeating entries of freq does not re-order / repeat the rows of sh "
                    "and the last axis of resp['hist']", b, a[idx], time=tm, freq_reordered=f2, peak=pk)
                break
    # ---- shapes
    sh2, r2 = srs.srs(sig, sr, freqs, Q, stype=st, getresp=True, time="total", **kw)
    H = 1 if sig.ndim == 1 else sig.shape[1]
    want_sh = (LF,) if sig.ndim == 1 else (LF, H)
    if np.shape(sh2) != want_sh or r2["hist"].shape[1:] != (H, LF) or r2["hist"].shape[0] != len(r2["t"]):
        bad("shapes", "sh.shape is not (len(freq), nsignals) / resp['hist'].shape is not (len(t), nsignals, len(freq))",
            [list(np.shape(sh2)), list(r2["hist"].shape)], [list(want_sh), [len(r2["t"]), H, LF]])
    col1 = sig if sig.ndim == 1 else sig[:, 0].copy()
    for fr1 in ([freqs[0]], freqs[0]):  # one oscillator, as a vector and as a scalar
        o1, r1 = srs.srs(col1, sr, fr1, Q, stype=st, getresp=True, **kw)
        # ('mshift' subtracts a column mean whose summation order depends on the memory layout)
        ref1 = float(np.asarray(pri).reshape(LF, -1)[0, 0])
        if np.shape(o1) != (1,) or r1["hist"].shape != (len(col1), 1, 1) or \
                abs(float(np.asarray(o1)[0]) - ref1) > (1e-12 * abs(ref1) if ic == "mshift" else 0.0):
            bad("shapes:one-frequency", "a 1-D signal with one oscillator: sh.shape is not (1,) / hist.shape is not (N, 1, 1) / value differs",
                [list(np.shape(o1)), list(r1["hist"].shape)], [[1], [len(col1), 1, 1]])
            break
    # ---- callable peaks, rms
    ca = S(peak=_abs_peak)
    if not np.array_equal(ca, pri):
        bad("callable-peak:abs", "a callable peak equal to the built-in 'abs' gives another spectrum", ca, pri)
    ms, mse = S(peak=_ms_peak), S(peak=_ms_peak, eqsine=True)
    if np.max(np.abs(mse * Q - ms)) > 1e-12 * max(np.max(np.abs(ms)), 1e-300):
        bad("callable-peak:eqsine", "eqsine with a callable peak is not the spectrum divided by Q", mse, ms / Q)
    rms, rmse = S(peak="rms"), S(peak="rms", eqsine=True)
    if np.any(rms > pri * (1 + 1e-12)) or np.any(rms < 0) or np.max(np.abs(np.sqrt(ms) - rms)) > 1e-12 * max(np.max(rms), 1e-300) or \
            np.max(np.abs(rmse * Q - rms)) > 1e-12 * max(np.max(rms), 1e-300):
        bad("rms:%s" % st, "rms peak: not within [0, abs], not sqrt(mean square) or not divided by Q with eqsine", rms, pri)
    # ---- dtype axis: the same numbers as float32 / int / list give the same spectrum
    s32 = np.asarray(sig, np.float32)
    # the ic rule shifts a float32 signal in single precision (sig - sig[0], sig - mean): the shifted samples carry an
    # absolute error of eps32 * |sig|; the oscillator is linear with gain <= ~2 max(1, Q) (times 1/wn, 1/wn^2 for the
    # velocity / displacement types), so the response carries that absolute error times the gain - which can exceed
    # 1e-6 of a response that is itself much smaller than the signal (Q near 0.5, offset signal)
    s64 = np.atleast_2d(s32.astype(float).T).T
    wn_ = 2 * math.pi * np.maximum(np.atleast_1d(np.asarray(freqs, float)), 1e-300)
    gain = {"reldisp": 1.0 / wn_ ** 2, "pvelo": 1.0 / wn_, "relvelo": 1.0 / wn_}.get(st, np.ones_like(wn_))
    a, b = S(sig=s32), S(sig=s32.astype(float))
    tabs = 0.0 if ic == "zero" else 8 * 6e-8 * max(1.0, Q) * np.abs(s64).max(axis=0)[None, :] * gain[:, None]
    t32 = 0.0 if ic == "zero" else 1e-6
    if a.shape != b.shape or np.any(np.abs(np.atleast_2d(a.T).T.reshape(len(wn_), -1) - np.atleast_2d(b.T).T.reshape(len(wn_), -1))
                                     > np.maximum(t32 * max(np.max(np.abs(b)), 1e-300), tabs)):
        bad("dtype:float32-signal:%s:ic=%s" % (st, ic), "a float32 signal gives another spectrum than the same numbers as float64", a, b)
    si = np.round(np.asarray(sig) * 4)
    a, b, c_ = S(sig=si.astype(int)), S(sig=si), S(sig=si.tolist())
    if a.shape != b.shape or np.max(np.abs(a - b)) > 1e-12 * max(np.max(np.abs(b)), 1e-300) or not np.array_equal(b, c_):
        bad("dtype:int-or-list-signal:%s:ic=%s" % (st, ic), "an integer / list signal gives another spectrum than the same numbers as float64", a, b)
    fr32 = np.maximum(np.round(np.asarray(freqs) * 4) / 4, 0.25)
    a = np.asarray(srs.srs(sig, sr, fr32.astype(np.float32), Q, stype=st, **kw), float)
    b = np.asarray(srs.srs(sig, sr, fr32, Q, stype=st, **kw), float)
    c_ = np.asarray(srs.srs(sig, sr, fr32.tolist(), Q, stype=st, **kw), float)
    if a.shape != b.shape or not np.array_equal(a, b) or not np.array_equal(b, c_):
        bad("dtype:float32-or-list-freq:%s" % st, "a float32 / list frequency vector gives another spectrum than the same numbers as float64", a, b)
    if all(f > 0 for f in freqs):
        w = 2 * math.pi * np.asarray(freqs)
        # a one-sample record with ic='steady' (sr may be None) returns the static response
        row = np.atleast_2d(sig)[:1]
        one = np.asarray(srs.srs(row, None, freqs, Q, ic="steady", stype=st, rolloff="none", parallel="no"), float)
        gain = {"absacce": 1.0 + 0 * w, "relacce": 0 * w, "relvelo": 0 * w, "reldisp": 1 / w ** 2, "pvelo": 1 / w,
                "pacce": 1.0 + 0 * w}[st]
        wantone = gain[:, None] * np.abs(row)
        if one.shape != wantone.shape or np.max(np.abs(one - wantone)) > 1e-12 * max(np.max(np.abs(wantone)), 1e-300):
            bad("steady-one-sample:%s" % st, "one-sample steady-state spectrum is not |gain * s1|", one, wantone)
        rd, pv, pa = S(stype="reldisp"), S(stype="pvelo"), S(stype="pacce")
        wcol = w if rd.ndim == 1 else w[:, None]
        if np.max(np.abs(pv - wcol * rd)) > 1e-6 * np.max(np.abs(pv)) + 1e-300:
            bad("pvelo-w-reldisp:ic=%s" % ic, "pvelo != wn * reldisp", pv, wcol * rd)
        if np.max(np.abs(pa - wcol ** 2 * rd)) > 1e-6 * np.max(np.abs(pa)) + 1e-300:
            bad("pacce-w2-reldisp:ic=%s" % ic, "pacce != wn^2 * reldisp", pa, wcol ** 2 * rd)
    return fails


def _oracle_frf(case):
    """srs_frf restated on the public API: documented transfer function, maximum over the union grid
    with near-duplicates removed, magnitude before interpolation, zero outside the FRF band,
    scale_by_Q_only, the return_srs_frq / srs_frq=None defaults and the getresp dictionary."""
    from pyyeti import srs

    fails = []
    frq = np.asarray(case["frf_frq"], float)
    frf = np.asarray(case["frf"], float)
    if case.get("frf_imag") is not None:
        frf = frf + 1j * np.asarray(case["frf_imag"], float)
    if frf.ndim == 1:
        frf = frf.reshape(-1, 1)
    Q = case["Q"]
    p_peak = Q * math.sqrt(math.sqrt(1 + 2 / Q ** 2) - 1)
    sf_in = case.get("srs_frq")
    sf = frq / p_peak if sf_in is None else np.asarray(sf_in, float)

    def bad(fam, what, obs, req):
        fails.append({"family": "srs_frf:" + fam, "what": what, "input": case, "observed": obs, "required": req})

    if case.get("getresp") and case.get("scale_by_Q_only"):
        try:
            srs.srs_frf(frf, frq, sf, Q, getresp=True, scale_by_Q_only=True)
            bad("getresp+scale_by_Q_only-accepted", "getresp together with scale_by_Q_only is documented to be refused", "returns", "ValueError")
        except ValueError:
            pass
        return fails
    sh = np.asarray(srs.srs_frf(frf, frq, sf, Q), float)
    shq = np.asarray(srs.srs_frf(frf, frq, sf, Q, scale_by_Q_only=True), float)
    sh_abs = np.asarray(srs.srs_frf(np.abs(frf), frq, sf, Q), float)
    if sh.shape != sh_abs.shape or np.max(np.abs(sh - sh_abs)) > 1e-12 * max(np.max(np.abs(sh_abs)), 1e-300):
        bad("not-the-spectrum-of-the-magnitude", "srs_frf(frf) differs from srs_frf(|frf|) (documented: the absolute value is taken "
            "before interpolating)", sh.tolist(), sh_abs.tolist())
    ff = np.sort(np.hstack((frq, p_peak * sf)))
    keep = np.ones(len(ff), bool)
    keep[1:] = np.diff(ff) > 1e-5
    ff = ff[keep]
    want = np.empty((len(sf), frf.shape[1]))
    resp_want = np.empty((len(ff), frf.shape[1], len(sf)), complex)
    for c in range(frf.shape[1]):
        if len(frq) > 1:
            amp = np.interp(ff, frq, np.abs(frf[:, c]), left=0.0, right=0.0)
        else:  # one FRF line: on the grid point that holds it
            amp = np.zeros(len(ff))
            amp[min(int(np.searchsorted(ff, frq[0])), len(ff) - 1)] = abs(frf[0, c])
        for i, fn in enumerate(sf):
            if (2 * math.pi * fn) ** 2 < 0.005:
                T = np.zeros(len(ff), complex)  # rigid-body mode: no absolute acceleration
            else:
                T = (fn ** 2 + 1j * ff * fn / Q) / (fn ** 2 - ff ** 2 + 1j * ff * fn / Q)
            resp_want[:, c, i] = amp * T
            want[i, c] = np.max(amp * np.abs(T))
    scale = max(float(np.max(np.abs(want))), float(np.max(np.abs(frf))), 1e-300)
    if sh.shape != want.shape or np.max(np.abs(sh - want)) > 1e-9 * scale:
        bad("transmissibility", "srs_frf differs from max over the merged grid of |FRF| x |(wn^2 + i W wn/Q)/(wn^2 - W^2 + i W wn/Q)|",
            sh.tolist(), want.tolist())
    if len(frq) > 1:
        wq = np.column_stack([np.interp(sf, frq, np.abs(frf[:, c]), left=0.0, right=0.0) for c in range(frf.shape[1])]) * Q
        if shq.shape != wq.shape or np.max(np.abs(shq - wq)) > 1e-9 * max(np.max(np.abs(wq)), 1e-300):
            bad("scale_by_Q_only", "scale_by_Q_only result is not Q x |FRF| (linear interpolation, zero outside the FRF band)",
                shq.tolist(), wq.tolist())
        d = srs.srs_frf(frf, frq, None, Q, scale_by_Q_only=True)
        if not (isinstance(d, tuple) and len(d) == 2 and np.array_equal(np.asarray(d[1], float), frq)
                and np.asarray(d[0]).shape == frf.shape and np.max(np.abs(np.asarray(d[0]) - Q * np.abs(frf))) <= 1e-12 * Q * np.max(np.abs(frf))):
            bad("scale_by_Q_only:default", "srs_frf(frf, frf_frq, None, Q, scale_by_Q_only=True) is not (Q |frf|, frf_frq)",
                [np.asarray(v).tolist() for v in (d if isinstance(d, tuple) else (d,))], [(Q * np.abs(frf)).tolist(), frq.tolist()])
    elif np.all(np.diff(sf) > 0):
        # one FRF line: attributed to the first analysis frequency not below it (the last one if there is none)
        wq = np.zeros((len(sf), frf.shape[1]))
        wq[min(int(np.searchsorted(sf, frq[0])), len(sf) - 1)] = Q * np.abs(frf[0])
        if shq.shape != wq.shape or np.max(np.abs(shq - wq)) > 1e-12 * max(np.max(np.abs(wq)), 1e-300):
            bad("scale_by_Q_only:single-line", "one FRF line with scale_by_Q_only: Q x |FRF| is not on the first analysis frequency at or "
                "above the line (last one if none)", shq.tolist(), wq.tolist())
    # ---- getresp dictionary
    r = srs.srs_frf(frf, frq, sf, Q, getresp=True)
    if not (isinstance(r, tuple) and len(r) == 2 and isinstance(r[1], dict) and sorted(r[1]) == ["freq", "frfs", "srs_frq"]):
        bad("getresp:returns", "getresp=True with a given srs_frq must return (sh, resp) with resp = {'freq', 'frfs', 'srs_frq'}",
            repr(type(r)), "(sh, dict)")
        return fails
    sh2, resp = r
    fr = np.asarray(resp["frfs"])
    if not np.array_equal(np.asarray(resp["freq"], float), ff):
        bad("getresp:freq-grid", "resp['freq'] is not the sorted union of frf_frq and p_peak*srs_frq with entries closer than 1e-5 "
            "to their predecessor removed", np.asarray(resp["freq"]).tolist()[:12], ff.tolist()[:12])
    elif fr.shape != resp_want.shape or not np.array_equal(np.asarray(sh2, float), sh) or \
            not np.array_equal(np.asarray(resp["srs_frq"], float), sf):
        bad("getresp:shapes", "resp['frfs'].shape is not (len(freq), nfrf, len(srs_frq)), or sh / srs_frq changed with getresp",
            {"frfs_shape": list(fr.shape)}, {"frfs_shape": list(resp_want.shape)})
    else:
        if np.max(np.abs(fr - resp_want)) > 1e-9 * scale:
            k = np.unravel_index(int(np.argmax(np.abs(fr - resp_want))), fr.shape)
            bad("getresp:frfs", "resp['frfs'][k, j, i] is not |FRF_j|(freq_k) x transfer function of oscillator i",
                {"index": [int(v) for v in k], "value": [float(fr[k].real), float(fr[k].imag)]},
                {"index": [int(v) for v in k], "value": [float(resp_want[k].real), float(resp_want[k].imag)]})
        if np.max(np.abs(np.abs(fr).max(axis=0).T - sh)) > 1e-12 * scale:
            bad("getresp:sh-is-not-peak-of-frfs", "sh is not max over frequency of |resp['frfs']|", sh.tolist(), np.abs(fr).max(axis=0).T.tolist())
    # ---- defaults
    d = srs.srs_frf(frf, frq, None, Q)
    d3 = srs.srs_frf(frf, frq, sf, Q, return_srs_frq=True)
    d4 = srs.srs_frf(frf, frq, None, Q, return_srs_frq=False)
    okd = isinstance(d, tuple) and len(d) == 2 and not isinstance(d[1], dict) and np.asarray(d[1]).shape == frq.shape and \
        np.max(np.abs(np.asarray(d[1], float) - frq / p_peak)) <= 1e-14 * np.max(np.abs(frq))
    okd = okd and isinstance(d3, tuple) and len(d3) == 2 and np.array_equal(np.asarray(d3[1], float), sf) and not isinstance(d4, tuple)
    okd = okd and np.array_equal(np.asarray(d4), np.asarray(d[0])) and np.array_equal(np.asarray(d3[0], float), sh)
    if okd:
        again = np.asarray(srs.srs_frf(frf, frq, np.asarray(d[1]), Q), float)
        okd = np.array_equal(again, np.asarray(d[0], float))
    if not okd:
        bad("defaults", "srs_frq=None must mean frf_frq / p_peak and be returned by default; return_srs_frq=True/False must add / drop it "
            "without changing sh", "see input", "(sh, frf_frq / p_peak)")
    return fails


_VRS_ROOM = {"fine": 0.0}


def _spec_psd(F, P, f, linear):
    """the PSD specification evaluated at f (inside its frequency range): straight lines in linear
    or in log-log coordinates -- the documented meaning of `linear`"""
    if linear:
        return np.interp(f, F, P)
    return np.exp(np.interp(np.log(f), np.log(F), np.log(P)))


def _oracle_vrs(case):
    """vrs / Miles against (i) the quadrature the code documents in its source comment ("delta_f for
    area calculation": cell-centred widths, one-sided end cells), written independently as the
    trapezoid rule plus half an end cell at each end, and (ii) a fine-grid numerical integral of
    PSD x |H|^2 over the grid span (the docstring's definition without a pinned quadrature)."""
    import warnings

    from pyyeti import srs

    fails = []
    F = np.asarray(case["spec_f"], float)
    P = np.asarray(case["spec_p"], float)
    freq = np.asarray(case["freq"], float)
    Q = case["Q"]
    linear = bool(case.get("linear", True))
    Fn = case.get("Fn")
    with warnings.catch_warnings():
        warnings.simplefilter("ignore")
        z, miles, resp = srs.vrs((F, P), freq, Q, linear=linear, Fn=Fn, getresp=True)
        z2 = srs.vrs((F, P), freq, Q, linear=linear, Fn=Fn)
    z = np.asarray(z, float)
    zeta = 0.5 / Q
    if Fn is None:
        grid, fns = freq, freq
    else:
        fns = np.asarray(Fn, float)
        grid = np.unique(np.hstack((freq, fns)))
    gtag = case.get("grid", "uniform") + (":off-grid-Fn" if Fn is not None else "")
    psd = _spec_psd(F, P, grid, linear)
    want = np.empty(len(fns))
    ends = np.empty(len(fns))
    for i, fn in enumerate(fns):
        p = grid / fn
        g = (1 + (2 * zeta * p) ** 2) / ((1 - p ** 2) ** 2 + (2 * zeta * p) ** 2) * psd
        ends[i] = (grid[1] - grid[0]) / 2 * g[0] + (grid[-1] - grid[-2]) / 2 * g[-1]
        want[i] = math.sqrt(np.trapezoid(g, grid) + ends[i])
    wm = np.sqrt(np.pi / 2 * fns * Q * _spec_psd(F, P, fns, linear))
    if not np.array_equal(np.asarray(resp["f"], float), grid):
        fails.append({"family": "vrs:grid:" + gtag, "what": "response frequency vector is not the union of freq and Fn",
                      "input": case, "observed": np.asarray(resp["f"]).tolist()[:8], "required": grid.tolist()[:8]})
        return fails
    if z.shape != want.shape or np.max(np.abs(z - want) / want) > 1e-9 or np.max(np.abs(np.asarray(z2, float) - want) / want) > 1e-9:
        k = int(np.argmax(np.abs(z - want) / want)) if z.shape == want.shape else 0
        fails.append({"family": "vrs:integral:" + gtag,
                      "what": "vrs differs from sqrt(sum PSD |H|^2 delta_f) with cell-centred delta_f (trapezoid + half end cells)",
                      "input": case, "observed": {"Fn": float(fns[k]), "vrs": float(z.ravel()[k])},
                      "required": {"Fn": float(fns[k]), "vrs": float(want[k])}})
    # fine-grid integral of PSD |H|^2 over the grid span (+ the two half end cells the code adds): on
    # dense log-spaced grids, an octave inside the grid.  Unchanged code: trapezoid error ~1e-6;
    # a forward-difference (left Riemann) sum is off by (r - 1)/4 ~ 4e-4 .. 8e-4 there.  (With an off-grid
    # Fn inserted at a Q = 25 resonance the trapezoid rule itself is only good to ~7e-5: not used.)
    if case.get("grid") == "log" and len(grid) >= 1400 and Fn is None:
        ok = np.where((fns >= 2 * grid[0]) & (fns <= grid[-1] / 2))[0]
        ff = np.unique(np.hstack((np.geomspace(grid[0], grid[-1], 200001), F[(F >= grid[0]) & (F <= grid[-1])])))
        pf = _spec_psd(F, P, ff, linear)
        for i in ok[:: max(1, len(ok) // 5)][:6]:
            p = ff / fns[i]
            fine = math.sqrt(np.trapezoid((1 + (2 * zeta * p) ** 2) / ((1 - p ** 2) ** 2 + (2 * zeta * p) ** 2) * pf, ff) + ends[i])
            rel = abs(z.ravel()[i] - fine) / fine
            _VRS_ROOM["fine"] = max(_VRS_ROOM["fine"], rel / 1e-4)
            if rel > 1e-4:
                fails.append({"family": "vrs:fine-grid-integral:" + gtag,
                              "what": "vrs differs from the numerical integral of PSD |H|^2 over the grid span by more than 1e-4",
                              "input": case, "observed": {"Fn": float(fns[i]), "vrs": float(z.ravel()[i])},
                              "required": {"Fn": float(fns[i]), "vrs": float(fine)}})
                break
    if np.asarray(miles).shape != wm.shape or np.max(np.abs(np.asarray(miles, float) - wm)) > 1e-9 * np.max(wm):
        fails.append({"family": "vrs:miles:" + gtag, "what": "Miles estimate differs from sqrt(pi/2 fn Q psd(fn))", "input": case,
                      "observed": np.asarray(miles).tolist()[:8], "required": wm.tolist()[:8]})
    return fails


def _oracle_case(case):
    kind = case.get("kind")
    try:
        if kind == "srs":
            return _oracle_srs(case)
        if kind == "relations":
            return _oracle_relations(case)
        if kind == "frf":
            return _oracle_frf(case)
        if kind == "vrs":
            return _oracle_vrs(case)
    except Exception as e:  # a mutated source may raise anywhere
        return [{"family": "raises:%s:%s" % (kind, type(e).__name__), "what": "the public API raises %r" % (e,),
                 "input": case, "observed": repr(e), "required": "a result"}]
    return []


def _hint_cases(hints, rng):
    out = []
    for h in hints[:40]:
        inp = h.get("input") or {}
        if inp.get("kind") == "srs":
            c = {k: inp[k] for k in ("kind", "sig", "sr", "freq", "Q", "stype", "ic", "peak", "time", "eqsine")}
            c["rolloff"] = inp.get("rolloff", "none")
            if len(set(c["freq"])) < len(c["freq"]) and len(np.asarray(c["sig"]).reshape(-1)) and all(f > 0 for f in c["freq"]):
                out.append(dict(c, kind="relations", peak="abs", time="primary", eqsine=False))
            if "ppc" in inp:
                c["ppc"] = inp["ppc"]
            if len(np.asarray(c["sig"]).reshape(-1)) == 0:
                continue
            out.append(c)
        elif inp.get("kind") == "frf":
            out.append({k: inp.get(k) for k in ("kind", "frf_frq", "frf", "frf_imag", "srs_frq", "Q")})
            if inp.get("getresp") and inp.get("scale_by_Q_only"):
                out.append(dict(out[-1], getresp=True, scale_by_Q_only=True))
        elif inp.get("kind") == "srsg":
            c = {k: inp[k] for k in ("sig", "sr", "freq", "Q", "stype", "ic", "time", "eqsine")}
            out.append(dict(c, kind="relations", peak="abs", rolloff="none"))
        elif inp.get("kind") == "coef" and inp.get("wn", 0) > 0:
            sig = _rand_sig(rng, 40, 1)[:, 0]
            for tm in ("primary", "total"):
                out.append(_case_dict(sig, inp["sr"], [inp["fn"]], inp["Q"], inp["stype"], "zero", "abs", tm, False))
    return out


def _corpus(ctx):
    """minimised past failures / boundary inputs (corpus/c03.json), run first"""
    import json
    import os

    path = os.path.join(ctx.verif, "corpus", "c03.json")
    if not os.path.exists(path):
        return []
    out = []
    for c in json.load(open(path)):
        c = dict(c)
        c.pop("note", None)
        out.append(c)
    return out


def search(ctx, hints):
    rng = ctx.np_rng(11)
    cases = _corpus(ctx) + _hint_cases(hints, rng)
    # base stream: every stype x ic x time with a random peak, seeded records
    reps = ctx.pick(3, 12)
    for r in range(reps):
        for st in STYPES:
            for ic in ICS:
                for tm in TIMES:
                    Q, sr, fn = _rand_params(rng, hi=2000.0 if (r == 0 and tm == "primary") else 200.0)
                    H = int(rng.integers(1, 3))
                    n = int(rng.choice([1, 2, 5, 30, 80]))
                    sig = _rand_sig(rng, n, H)
                    freqs = [fn]
                    if rng.random() < 0.5:
                        freqs.append(min(sr / 2.05, fn * float(rng.uniform(1.2, 4.0))))
                    if rng.random() < 0.15 and not (ic == "steady" and st in ("reldisp", "pvelo")):
                        freqs.append(0.0)
                    pk = PEAKS[int(rng.integers(0, 6))]
                    cases.append(_case_dict(sig if H > 1 or rng.random() < 0.5 else sig[:, 0], sr, freqs, Q, st, ic, pk, tm,
                                            bool(rng.integers(0, 2))))
    for st in STYPES:
        for ic in ICS:
            Q, sr, fn = _rand_params(rng, hi=200.0)
            sig = _rand_sig(rng, int(rng.choice([8, 40])), int(rng.integers(1, 4)))
            c = _case_dict(sig + (2.0 if ic == "steady" else 0.0), sr, [fn, min(sr / 2.05, fn * 1.7)], Q, st, ic, "abs", "primary", False)
            c["kind"] = "relations"
            cases.append(c)
    for i in range(ctx.pick(4, 20)):
        nf = int(rng.integers(2, 30))
        frq = np.sort(rng.uniform(1.0, 500.0, nf)) + np.arange(nf) * 1e-3
        ncol = int(rng.integers(1, 3))
        style = ["magnitude", "signed", "complex"][i % 3]
        re = rng.standard_normal((nf, ncol))
        im = rng.standard_normal((nf, ncol)) if style == "complex" else None
        if style == "magnitude":
            re = np.abs(re)
        # documented: "uses the absolute value of each column before interpolating"; so a signed or complex FRF (phase changing
        # from line to line) must give exactly what its magnitude gives, also at analysis frequencies between the FRF lines
        cases.append({"kind": "frf", "frf_frq": frq.tolist(), "frf": re.tolist(), "frf_imag": None if im is None else im.tolist(),
                      "srs_frq": np.sort(rng.uniform(2.0, 480.0, int(rng.integers(1, 6)))).tolist(),
                      "Q": float(rng.choice([5.0, 10.0, 25.0, 50.0]))})
        # FRF lines closer than / just farther apart than 1e-5, oscillators whose peak frequency falls next to a line, oscillators
        # outside the FRF band, one FRF line, the default srs_frq
        Qf = float(rng.choice([5.0, 10.0, 25.0, 50.0]))
        ppk = Qf * math.sqrt(math.sqrt(1 + 2 / Qf ** 2) - 1)
        base = float(rng.uniform(5.0, 60.0))
        gaps = [[0.6e-5, 0.6e-5], [1.1e-5], [0.9e-5, 1.2e-5], [2e-5, 0.4e-5]][i % 4]
        lines = [base]
        for g in gaps:
            lines.append(lines[-1] + g)
        lines += [base + 3.0, base + 11.0]
        cases.append({"kind": "frf", "frf_frq": lines, "frf": (1.0 + rng.random((len(lines), 1))).tolist(), "frf_imag": None,
                      "srs_frq": [(base + 3.0 + 0.5e-5) / ppk, (base + 11.0 + 3e-5) / ppk, 0.3 * base, 2.5 * base + 40.0], "Q": Qf})
        cases.append({"kind": "frf", "frf_frq": [base], "frf": [[float(rng.uniform(0.5, 2.0))]], "frf_imag": [[float(rng.uniform(-1, 1))]],
                      "srs_frq": [0.5 * base, base / ppk, 1.7 * base][: 1 + i % 3], "Q": Qf})
        # one FRF line that is merged into a peak frequency just below it and is the highest analysis frequency
        cases.append({"kind": "frf", "frf_frq": [base], "frf": [[1.5]], "frf_imag": None,
                      "srs_frq": [0.4 * base, (base - 0.4e-5) / ppk], "Q": Qf})
        cases.append({"kind": "frf", "frf_frq": frq.tolist(), "frf": re.tolist(), "frf_imag": None if im is None else im.tolist(),
                      "srs_frq": None, "Q": Qf})
        if i == 0:
            cases.append({"kind": "frf", "frf_frq": [1.0, 2.0], "frf": [[1.0], [2.0]], "frf_imag": None, "srs_frq": [1.5], "Q": 10.0,
                          "getresp": True, "scale_by_Q_only": True})
        F = np.array([20.0, 150.0, 600.0, 2000.0])
        Pp = rng.uniform(0.001, 0.1, 4).tolist()
        Qv = float(rng.choice([5.0, 10.0, 25.0]))
        lin = bool(i % 2)
        offgrid = np.sort(rng.uniform(45.0, 950.0, int(rng.integers(1, 5)))).tolist()
        cases.append({"kind": "vrs", "spec_f": F.tolist(), "spec_p": Pp, "linear": lin, "grid": "uniform", "Fn": None,
                      "freq": np.arange(20.0, 2000.0, float(rng.choice([2.0, 5.0, 7.5]))).tolist(), "Q": Qv})
        cases.append({"kind": "vrs", "spec_f": F.tolist(), "spec_p": Pp, "linear": lin, "grid": "log", "Fn": None,
                      "freq": np.geomspace(20.0, 2000.0, int(rng.choice([1500, 3000]) if i % 4 < 3 else 400)).tolist(), "Q": Qv})
        cases.append({"kind": "vrs", "spec_f": F.tolist(), "spec_p": Pp, "linear": lin, "grid": "uniform", "Fn": offgrid,
                      "freq": np.arange(20.0, 2000.0, float(rng.choice([0.5, 1.0, 2.0]))).tolist(), "Q": Qv})
        cases.append({"kind": "vrs", "spec_f": F.tolist(), "spec_p": Pp, "linear": lin, "grid": "log", "Fn": offgrid,
                      "freq": np.geomspace(20.0, 2000.0, int(rng.choice([700, 1500, 2500]))).tolist(), "Q": Qv})
        ug = np.arange(20.0, 2000.0, 2.0)
        cases.append({"kind": "vrs", "spec_f": F.tolist(), "spec_p": Pp, "linear": lin, "grid": "uniform",
                      "Fn": sorted(offgrid + ug[rng.integers(5, 400, 2)].tolist() + offgrid[:1]), "freq": ug.tolist(), "Q": Qv})
        cases.append({"kind": "vrs", "spec_f": F.tolist(), "spec_p": Pp, "linear": lin, "grid": "random", "Fn": None,
                      "freq": np.unique(np.hstack(([20.0, 2000.0], rng.uniform(20.0, 2000.0, 1500)))).tolist(), "Q": Qv})
    # roll-off: every resampler x every window, resampling triggered (sr / max(freq) < ppc)
    for roll in ROLLS:
        for tm in TIMES:
            for k in range(ctx.pick(2, 6)):
                st = STYPES[int(rng.integers(0, 6))]
                ic = ICS[int(rng.integers(0, 4))]
                sr = float(rng.choice([200.0, 1000.0, 2048.0]))
                mf = sr / float(rng.uniform(2.5, 11.0))
                freqs = [mf * float(rng.uniform(0.15, 0.9)), mf][: 1 + int(rng.integers(0, 2))][::-1]
                if mf not in freqs:
                    freqs = [mf]
                sig = _rand_sig(rng, int(rng.choice([40, 64, 97] if roll == "prefilter" else [40, 64, 97, 2, 3, 13])),
                                int(rng.integers(1, 3)))
                cases.append(_case_dict(sig, sr, freqs, float(rng.choice([5.0, 10.0, 25.0, 50.0])), st, ic,
                                        PEAKS[int(rng.integers(0, 6))], tm, bool(rng.integers(0, 2)), rolloff=roll))
            if roll != "prefilter":
                # ppc other than the default; sr/max(freq) exactly equal to ppc (the minimum is met: no resampling)
                # and one ulp below it; a one-sample and a two-sample record
                st = STYPES[int(rng.integers(0, 6))]
                for sr, freqs, ppc, n in ((120.0, [10.0, 2.5], 12.0, 30), (120.0, [10.000000000000002, 2.5], 12.0, 30),
                                          (48.0, [12.0, 1.5], 4.0, 17), (200.0, [45.0, 11.0], 25.0, 2), (200.0, [45.0], 8.0, 1),
                                          (1000.0, [300.0, 40.0], 12.5, 24)):
                    cases.append(_case_dict(_rand_sig(rng, n, 1), sr, freqs, 10.0, st, ICS[int(rng.integers(0, 4))], "abs", tm, False,
                                            rolloff=roll, ppc=ppc))
    for case in cases:
        ctx.count("oracle:" + case["kind"] + (":rolloff" if case.get("rolloff", "none") != "none" else "")
                  + (":" + case["grid"] + ("+Fn" if case.get("Fn") else "") if case["kind"] == "vrs" else ""))
        for f in _oracle_case(case):
            ctx.fail(f["family"], f["what"], f["input"], f["observed"], f["required"])
        if len(ctx.failures) > 12:
            break
    ctx.extra.setdefault("max_error_over_tolerance", {})["oracle-exact-response"] = _ORACLE_ROOM[0]
    ctx.extra["max_error_over_tolerance"]["oracle-vrs-fine-grid"] = _VRS_ROOM["fine"]


def replay(ctx, data):
    f = data.get("failure")
    if not f:
        return None
    case = dict(f["input"])
    for k in ("freq_index", "column", "k", "perm", "Fn_value", "index", "freq_reordered"):
        case.pop(k, None)
    r = _oracle_case(case)
    return r[0] if r else None
