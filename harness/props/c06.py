"""C06 — Craig-Bampton checks are right on valid models and flag invalid ones (DESIGN.md 6/C06).

Tie: numeric correspondence (1e-9 * scale; exact for index vectors, trimmed-DOF lists and warning flags) between the Lean
model lean/PyYetiVerif/Model/RigidBody.lean + Model/RigidBodyGuyan.lean, run at Float through Drivers/C06.lean, and
  * cb.cgmass, n2p.rbgeom, n2p.rbmove, n2p.rbgeom_uset, cb.cbreorder, cb.cbconvert,
  * cb.cbcheck on free 3-D structures produced by an independent generator in this file (random
    grids, 6-DOF springs through rigid offsets so K*RB = 0 by construction, lumped masses with
    unequal translational masses in some cases, rectangular / cylindrical / spherical output
    systems via n2p.addgrid, Craig-Bampton reduction in plain numpy; optionally one special boundary grid: massless with
    stiffness (Guyan reduction in _solve_eig), ball-jointed (null columns in _solve_eig, zero-stiffness trimming in
    _cbcoordchk), or a spring to ground on all six / on ONE degree of freedom) - every returned array and every numeric
    table of the printed report (coordinates, movement checks, three 6x6 masses, cg, radii of gyration, inertia, K*RB
    tables and their sums, effective-mass table with totals, matrix value checks, trimmed DOF lists),
  * cb._solve_eig directly (null columns, massless DOF, back expansion), cb.rbdispchk, cb.rbmultchk, cb.cbtf at exactly 0 Hz,
  * second extension: cb.mk_net_drms AS A WHOLE (Model/RigidBodyNet.lean: every returned matrix incl. ifatm through the
    model's own RBE3 least-squares kernel, cgatm, the 14 cg load-factor rows, weight / height / axial directions, the three
    label lists, the grounding warning; options conv / bsubset / ref / sccoord 3x3 and CORD2R / reorder / g / tau /
    rbe3_indep_dof), cgmass(all6=True)'s principal axes (Model/RigidBodyPrinc.lean, Jacobi in the driver),
    cb.rbmultchk on exact rational data through C18's model of find_xyz_triples (Model/RigidBodyMult.lean: scale of the
    modes, coordinates, unit scales, flagged rows, NULL rows, errors), the dispatch of cb.cbcheck
    (Model/RigidBodyCheck.lean: input errors, order of conversion and reordering, bref inside the b-set, rb_norm=None,
    em_filt print filter, reorder=False with the b-set anywhere), cb.cbcoordchk called directly (rb_normalizer, 3-2-1
    reference sets, unsorted b-set, no modal DOF),
  * translator harness/translate/c06_cbconsts.py: the tolerances / defaults / unit factors of cb.py (+ two of n2p.py) ->
    Generated/RigidBodyConsts.lean, used by the models and by the theorem conv_factors_inverse.
The model-free oracle compares the same API results with the generator's ground truth (incl. the printed tables, free-free
frequencies against the QZ spectrum of the full pencil, mk_net_drms against resultants / rigid mass / cg motion), requires
grounded / geometry-perturbed variants to be flagged, checks the cbtf equations of motion and the inverse / invariance laws
of cbconvert and cbreorder.
"""
import io
import json
import math
import os
import re
import warnings

import numpy as np

from runner import Infra, TieBroken

ID = "C06"
LEAN_MODULES = ["PyYetiVerif.Props.C06", "PyYetiVerif.Props.C06b", "PyYetiVerif.Props.C06c", "PyYetiVerif.Props.C06d",
                "PyYetiVerif.Props.C06e", "PyYetiVerif.Props.C06f", "PyYetiVerif.Props.C06g", "PyYetiVerif.Audit.C06"]
AUDIT_FILE = "PyYetiVerif/Audit/C06.lean"
THEOREMS = ["PyYetiVerif.C06." + n for n in (
    "cgmass_recovers cgmass_recovers_general rbmove_comp rbmove_rbgeom reorder_pv_perm reorder_perm "
    "reorder_pencil uset_rank_correct convert_inverse convert_congruence convert_pencil "
    "stiffness_rb_eq_geometry grounding_iff effmass_total cbtf_satisfies_eom "
    # extension round: _solve_eig (Guyan reduction, null columns), _cbcoordchk trimming, rbdispchk, mk_net_drms,
    # rbmultchk, cbtf at 0 Hz
    "guyan_preserves_eigenpairs guyanK_eq_blocks psiResid_eq_blocks guyanExpand_rows null_trim_sound nullExpand_rows "
    "coordchk_trim_sound trimRef_spec rbdispchk_recovers_coords rbdispchk_recovers_grid coordchk_coords_local net_force_is_resultant "
    "net_drm_is_resultant net_force_is_resultant_local rbmult_eq_mul cbtf_static_limit cbtfStaticFrc_eq "
    # second extension: mk_net_drms as a whole (C06d), principal inertias (C06e), rbmultchk's scale / coordinates (C06f),
    # cbcheck as decision logic and data recovery matrices under cbreorder / cbconvert (C06g)
    "net_ifltm_is_interface_resultant net_ifltm_units rbe3_normal_reproduces net_ifatm_is_rb_acceleration_of_interface resultant_force_ref_indep cgatm_translation_rows_are_cg_acceleration cgatm_rotation_rows_are_moment_about_offset cgatm_rotation_rows_reference_counterexample cglf_is_weight_normalised cglf_moment_rows_match_shear tsc2lv_blocks mk_net_drms_fields "
    "eigh_spec_charpoly principal_inertias_invariant principal_inertias_ref_indep rotated_mass_blocks principal_gyr_eq eighResid_spec "
    "find_xyz_triples_segs rbScale2_grids rbmultchk_scale_and_coords rbmultchk_flags_nonrigid "
    "role_after_reorder convert_reorder_commute cbcheck_errors cbcheck_returns_def cbcheck_option_independence cbcheck_no_modal_dof convert_qq_diag_invariant cbcheck_frq_conv_invariant flippv_order_indep reorder_drm_response convert_drm_response convert_drm_roundtrip conv_factors_inverse"
).split()]
TRUSTED = [
    "correspondence harness harness/props/c06.py (numeric comparison 1e-9*scale, exact for index vectors / trimmed DOF lists / "
    "warning flags; printed tables at half a unit of the last printed digit) and its structure generator / numpy Craig-Bampton "
    "reduction (ground truth of the oracle)",
    "scipy.linalg.solve specifications koo*X = -kor (_cbcoordchk) and (-kzz)*psi = kzx (_solve_eig): residuals measured every "
    "run; the Float driver uses its own Gaussian elimination, and the adjugate inverse for the 3x3 systems of _rbdispchk",
    "eigen-solver specification: scipy.sparse.linalg.eigsh(k, p, m, sigma=1) returns eigenpairs of the REDUCED pencil, the "
    "first six spanning null(K) of a free model (rbe is compared with the model's stiffness-based modes; the back-expanded "
    "vectors are checked against the FULL pencil and its QZ spectrum by the oracle)",
    "ode.SolveUnc.fsolve specification (property C02): cbtf's q-set solve is checked by the oracle's EOM residual; at 0 Hz "
    "the specification is Kqq dq = -Mqb a (the harness solves the model's right-hand side)",
    "n2p.addgrid / make_uset produce the uset rows (inputs of the model; their geometry is property C14); n2p.formrbe3 is "
    "modelled for the configuration mk_net_drms uses (dependent basic grid at `ref`, unit weights, rotations scaled by Lc^2) "
    "through its normal equations, solved in the Float driver by Gaussian elimination (residual measured every run; C14 proves "
    "the general routine); n2p.find_xyz_triples is C18's exact-rational model (read-only), its floating-point decisions within "
    "1e-9 of a threshold are reported `borderline` and skipped",
    "linalg.solve(Mcg, .) of mk_net_drms and linalg.eigh of cgmass(all6) enter through stated specifications (Mcg X = B; "
    "V orthonormal, V'IV = diag(w), w ascending) - the driver's own Gaussian elimination / cyclic Jacobi iteration with the "
    "residuals measured every run (<= 1e-9 / 1e-12)",
    "translator harness/translate/c06_cbconsts.py (Python ast, no execution of repo code) and the committed snapshot "
    "Generated/RigidBodyConsts.lean; numpy's allclose defaults rtol = 1e-5, atol = 1e-8 are numpy's, not the source's",
    "ytools.mattype symmetry test inside cgmass is not modelled (inputs are symmetric; an asymmetric probe must raise)",
]
RULE = (
    "streams: cgmass (docstring-form matrices with unequal mx,my,mz, rigid transforms of cg masses, structure "
    "masses), rbgeom/rbmove (random grids, reference by index or vector), rbgeom_uset (addgrid tables with basic/"
    "rectangular/cylindrical/spherical output systems incl. grids on the polar axis), cbreorder (index-encoding "
    "matrices; first/last/drm/lq=0/permuted b), cbconvert (m2e/e2m/tuple; drm; random b order incl. component-major), "
    "cbcheck (generated free structures: "
    "1-4 boundary grids, boundary first/last/interleaved and grid-permuted bseto, any boundary grid as bref, "
    "rb_norm, uref by id or vector, conv None/m2e/e2m/tuple, reorder on/off, 1..all modes; variants valid / grounded on six "
    "DOF / grounded through one DOF / misplaced boundary grid; 40% with one special boundary grid: massless6, massless-rot, "
    "pinned, and the pinned grid as reference = RuntimeError), _solve_eig (symmetric pencils with 0-3 null columns and 0-4 "
    "massless DOF, also -0.0 entries), rbdispchk (1-5 nodes in identity / rotated / general bases, exact rows and small or "
    "large deviations around the warning threshold, three tolerances), mk_net_drms as a whole (generated structures, b-set in "
    "any order, conv None/m2e/e2m/tuple, bsubset, ref by id/vector/origin, sccoord as 3x3 rotation or CORD2R card, reorder "
    "on/off incl. bsubset under reorder, g default/other, tau g / natural units / mixed, rbe3_indep_dof None/123456, one to "
    "four interface grids, axial direction x/y/z, l/v rows replaced or not), cgmass principal axes (same cases as cgmass), "
    "rbmultchk (bset first/last/vector/full rb; exact stream: nodes in any local system / scale / order recovered from one of "
    "1-2 boundary grids, mixed with rotation rows, NULL rows, modal-only rows and non-rigid triples, b-set columns "
    "first/last/vector, errors bset string / zero scale), cbcheck input errors (uset size, non-ascending bseto) and em_filt "
    "0 / positive, reorder=False with the b-set first/last/interleaved, cbcoordchk directly (reference = one grid or a 3-2-1 "
    "translation set over three grids with rb_normalizer, b-set in any grid order, with / without modal DOF), cbtf at "
    "0 Hz (b-set first/last/interleaved/permuted, full damping, no modal DOF). A case is one call "
    "compared on all returned quantities; non-trivial = not the identity configuration (a non-zero offset / "
    "non-basic system / non-sorted bseto / conversion / at least one mode / a trimmed DOF); distinct by the generated input"
)
ASSUMPTIONS = [
    "generated structures are well conditioned (cond(koo) <= 1e8, stiffness eigenvalues far from the eigsh shift 1.0, "
    "cond of the stiffness of massless DOF <= 1e8 / 1e6); others are skipped and counted",
    "b-set vectors are duplicate-free and inside the matrix; boundary grids carry all six DOF, translations first",
    "zero-stiffness boundary DOF are rotations (a ball joint): a boundary grid without TRANSLATIONAL stiffness makes the 3x3 "
    "translation block of rbdispchk singular (scipy raises LinAlgError) - outside the generated domain, the model replies "
    "raise-singular",
    "uset tables list their grids by ascending id; mk_net_drms(reorder=False) takes the uset in the order of the bset vector, "
    "cbcheck and mk_net_drms(reorder=True) in ascending matrix position (bsubset then counts uset rows); an RBE3 on the "
    "translations of exactly two boundary grids is rank deficient, so rbe3_indep_dof=123456 is passed there; `sccoord` is a "
    "rotation (3x3) or a rectangular CORD2R card - a cylindrical / spherical s/c system is outside the model",
    "mk_net_drms decisions (axial direction, replacement of the l/v rows, grounding warning) are compared exactly unless the "
    "two candidates are within round-off of each other (skipped and counted)",
    "rbmultchk exact stream: inputs are multiples of 1/400 (rotations from 3-4-5 triples and signed permutations, scales "
    "1/2, 1, 2, 4); a non-rigid triple followed directly by a node can be paired with that node's rows by find_xyz_triples "
    "(documented 'can be tricked'): the correspondence follows the model there, the oracle puts a NULL row behind it",
    "a printed comparison next to a threshold (refpoint_chk, rbdispchk warning) within 1e-6..1e-3 relative is skipped and counted",
]
PARTIAL = (
    "partial: eigsh/eigh/solve/fsolve/formrbe3's normal-equation solve are external kernels entering through stated "
    "specifications (residuals measured at run time): guyan_preserves_eigenpairs / null_trim_sound take eigenpairs of the reduced "
    "pencil as given, rbe and the free-free frequencies are compared numerically (model's stiffness-based modes, QZ spectrum); "
    "principal_inertias_invariant / principal_gyr_eq are relative to the eigh specification (V orthonormal, V'IV = diag w, w "
    "ascending), rotated_mass_blocks is stated on Mathlib block matrices (not through the NMat code of cgmass); "
    "net_ifatm_is_rb_acceleration_of_interface takes the RBE3 reproduction property X RB = 1 from rbe3_normal_reproduces "
    "(invertible normal matrix); net_ifltm_is_interface_resultant / net_ifltm_units / the cgatm theorems cover rectangular "
    "output systems of the interface grids (cylindrical / spherical ones through the numeric stream) and a 3x3 / CORD2R "
    "sccoord; the labels of mk_net_drms are tied exactly but not the subject of a theorem (String.replace does not reduce in "
    "the kernel); rbmultchk_flags_nonrigid states the tolerance rule for a matrix that consists of the one candidate triple "
    "(general mixtures through the exact stream), find_xyz_triples_segs needs the non-node rows to have NO translation part "
    "(a lone translation row can be paired with its neighbours - the routine's documented limitation); cbcheck_returns_def / "
    "cbcheck_option_independence cover the fields that need no dense kernel (rbs, rbe and the report are assembled by the "
    "driver from the proved pieces and tied numerically); the printed reports are by nature comparable at print precision "
    "only; rbdispchk's 3x3 solve is modelled by the adjugate inverse (numeric tie). Open findings: F46 (cgatm rotation rows, "
    "formal side cgatm_rotation_rows_reference_counterexample) and the new cbcheck em_filt IndexError "
    "(cbcheck_emfilt_empty_raises models the code as it is)"
)
MANIFEST = {
    "level_text": "Proof (Lean 4, standard axioms) about a polymorphic executable model of the rigid-body and "
    "Craig-Bampton bookkeeping: cgmass recovers mass, cg offset and cg inertia of any rigid 6x6 mass, also with "
    "unequal translational masses (cgmass_recovers, cgmass_recovers_general); rbgeom blocks compose under rbmove "
    "(rbmove_comp, rbmove_rbgeom); cbreorder's index vector is a permutation, reordering is conjugation by the "
    "permutation matrix, undone by the inverse permutation and leaves det(K - lambda M) unchanged (reorder_pv_perm, "
    "reorder_perm, reorder_pencil); the uset row order used by cbcheck(reorder=True) is the right one "
    "(uset_rank_correct); cbconvert's C and D are inverted by the inverse factors, D = mc*lc^2*C so the conversion is "
    "a scaled congruence and det(K' - lambda M') is a non-zero multiple of det(K - lambda M) (convert_inverse, "
    "convert_congruence, convert_pencil); if K*RB = 0 with identity reference rows and K_oo invertible the "
    "stiffness-based modes equal RB and the Schur complement vanishes, and the Schur complement is zero iff such an "
    "RB exists, i.e. grounding shows in exactly the quantity refpoint_chk tests (stiffness_rb_eq_geometry, "
    "grounding_iff); effective mass plus boundary residual equals the rigid-body mass diagonal (effmass_total); cbtf's "
    "recovered force satisfies the full EOM given the q-set solve specification and K_bq = 0 (cbtf_satisfies_eom), and at "
    "exactly 0 Hz the force is Mbb*a with the statically deflected modal DOF (cbtf_static_limit, cbtfStaticFrc_eq). "
    "Extension: for M = diag(Mxx, 0) the Guyan-reduced pencil (Kxx + Kxz psi, Mxx) of _solve_eig has exactly the finite "
    "eigenpairs of (K, M), eigenvectors recovered by vz = psi vx, and the model's guyanK / psiResid / guyanExpand are those "
    "block expressions (guyan_preserves_eigenpairs, guyanK_eq_blocks, psiResid_eq_blocks, guyanExpand_rows); null columns: "
    "trimmed eigenpairs extended by zero rows are eigenpairs of the full pencil (null_trim_sound, nullExpand_rows); the "
    "zero-stiffness trimming of _cbcoordchk returns the true modes on every kept DOF, leaves K*rbs = 0 and the refpoint "
    "check intact, and is necessary because diag(Koo, 0) is singular (coordchk_trim_sound, trimRef_spec); rbdispchk returns "
    "exactly the offset of a node, zero error and no warning from rigid-body rows in any non-singular basis, hence for the "
    "rows rbgeom_uset produces in rectangular, cylindrical and spherical systems (rbdispchk_recovers_coords, "
    "rbdispchk_recovers_grid, reusing C14's factorisation), and the coordinates _cbcoordchk prints are the offsets from the "
    "reference grid in the reference grid's local axes (coordchk_coords_local); mk_net_drms' rb.T @ F is the resultant force and moment at the "
    "reference point, also applied through Mcb[b] to any response vector and for local rectangular output systems "
    "(net_force_is_resultant, net_drm_is_resultant, net_force_is_resultant_local); rbmultchk's product (rbmult_eq_mul). "
    "Second extension: mk_net_drms is modelled as a whole (mkNetDrms; mk_net_drms_fields states every output in terms of the "
    "pieces): ifltma @ a + ifltmd @ d is the resultant interface force about `ref` for grids in rectangular output systems "
    "(net_ifltm_is_interface_resultant), the l/v-unit matrix is the converted s/c one times the force / moment factor "
    "(net_ifltm_units), an RBE3 that solves formrbe3's normal equations reproduces rigid-body motion and ifatm applied to a "
    "rigid interface acceleration returns it, in g after the division (rbe3_normal_reproduces, "
    "net_ifatm_is_rb_acceleration_of_interface), cgatm rows 0-2 times the mass are the net force whatever point rbcg is formed "
    "about (cgatm_translation_rows_are_cg_acceleration), rows 3-5 times the inertia are the moment about the point whose BASIC "
    "coordinates are cg_sc - the offset from `ref`, not the cg (cgatm_rotation_rows_are_moment_about_offset), with the "
    "concrete counterexample for ref != origin (cgatm_rotation_rows_reference_counterexample, the formal side of F46); the cglf "
    "rows are cgatm rows and +-moment/(weight*height) (cglf_is_weight_normalised) and for a cg on the axial axis the "
    "moment-based rows equal the lateral force over the weight in all six axis / direction cases "
    "(cglf_moment_rows_match_shear); Tsc2lv blocks (tsc2lv_blocks). cgmass(all6): the principal inertias are determined by "
    "the eigh specification, equal for I and R'IR and are those of the cg inertia for every reference point "
    "(principal_inertias_invariant, principal_inertias_ref_indep, rotated_mass_blocks, eigh_spec_charpoly, eighResid_spec), "
    "principal radii sqrt(w/m) (principal_gyr_eq). rbmultchk: for a response matrix made of node triples in any order among "
    "rows without translation part find_xyz_triples marks exactly the node rows with location and scale "
    "(find_xyz_triples_segs, on C18's model), the scale of six-row-per-grid rigid-body modes is their unit scale "
    "(rbScale2_grids), together (rbmultchk_scale_and_coords), and a candidate whose rotation block violates the two allclose "
    "tests stays blank (rbmultchk_flags_nonrigid). cbcheck as decision logic (cbcheckM): when it raises (cbcheck_errors), what "
    "it returns (cbcheck_returns_def), rb_norm / em_filt / n_freefree_modes cannot change the returned matrices and tables nor "
    "make the call fail (cbcheck_option_independence), converting then reordering = reordering then converting with the new b-set (convert_reorder_commute, "
    "role_after_reorder), cb_frq unchanged by conv and by the b-set order (convert_qq_diag_invariant, "
    "cbcheck_frq_conv_invariant, flippv_order_indep), nq = 0 (cbcheck_no_modal_dof); data recovery matrices: response unchanged "
    "by cbreorder(drm=True) and cbconvert(drm=True), round trip (reorder_drm_response, convert_drm_response, "
    "convert_drm_roundtrip); the string unit factors are mutually inverse (conv_factors_inverse, on the translated constants). "
    "Tied to the source by numeric / exact correspondence on generated free structures and direct API streams and by the "
    "constants translator.",
    "level_note": "Trusted: Lean kernel; propext, Classical.choice, Quot.sound; the Python harness and its structure "
    "generator; specifications of solve/eigsh/eigh/fsolve (measured each run). Floating-point round-off is outside the "
    "theorems (measured by the 1e-9 correspondence). Only tied / measured, not proved: eigsh's eigenpairs of the reduced pencil "
    "(checked against the full pencil and its QZ spectrum), rbe, free-free frequencies, principal inertias, the printed report "
    "(every numeric table parsed and compared with the model and with ground truth at print precision), the label lists of "
    "mk_net_drms (exact tie), the kernels behind ifatm / cgatm / principal axes (the driver's own solvers, residuals measured), "
    "rbmultchk's report on matrices outside the proved family (exact stream through C18's model of find_xyz_triples), "
    "cylindrical / spherical interface grids in mk_net_drms. Open finding reported by the oracle: F46 (mk_net_drms cgatm "
    "rotational rows for ref != origin); found by this extension and repaired in /repo: F66 (cbcheck em_filt IndexError).",
    "technique": "Lean 4 proof (ring/field identities on explicit 6x6 entries, Mathlib block-matrix algebra, "
    "permutation matrices, Schur complements, characteristic polynomials, reuse of C14's 3x3 frame lemmas and of C18's "
    "find_xyz_triples model) + numeric / exact-rational differential correspondence with pyyeti.cb / n2p on generated "
    "structures, incl. full parsing of the cbcheck and rbmultchk reports, + Python-ast translator for the constants of cb.py",
}


def translate(ctx):
    """tolerances, thresholds, defaults and unit factors of cb.py (+ two of n2p.py) -> Generated/RigidBodyConsts.lean"""
    import sys

    tdir = os.path.join(ctx.verif, "harness", "translate")
    if tdir not in sys.path:
        sys.path.insert(0, tdir)
    import c06_cbconsts as tr

    try:
        names, consts = tr.run(ctx.repo, ctx.lean)
    except tr.Unparsable as e:
        raise TieBroken("the constants of cb.py / n2p.py no longer fit the translator's grammar: %s" % e)
    except (OSError, SyntaxError) as e:
        raise TieBroken("cannot read cb.py / n2p.py: %s" % e)
    ctx.extra["generated_constants"] = consts
    return names


# ---------------------------------------------------------------------------------------
# independent structure generator (ground truth)


def skew(r):
    x, y, z = r
    return np.array([[0.0, -z, y], [z, 0.0, -x], [-y, x, 0.0]])


def rb6(p, ref):
    """motion of point p for unit motions (basic axes) of point ref"""
    T = np.eye(6)
    T[:3, 3:] = -skew(np.asarray(p, float) - np.asarray(ref, float))
    return T


def rand_rot(rng):
    q, r = np.linalg.qr(rng.standard_normal((3, 3)))
    q = q * np.sign(np.diag(r))
    if np.linalg.det(q) < 0:
        q[:, 2] = -q[:, 2]
    return q


def local_frame(kind, A, O, p):
    """columns = output axes (in basic) of a grid at basic location p"""
    if kind in (0, 1):
        return A.copy()
    l = A.T @ (p - O)
    if kind == 2:
        th = math.atan2(l[1], l[0]) if abs(l[0]) + abs(l[1]) > 1e-8 else 0.0
        c, s = math.cos(th), math.sin(th)
        return A @ np.array([[c, -s, 0.0], [s, c, 0.0], [0.0, 0.0, 1.0]])
    ph = math.atan2(l[1], l[0]) if abs(l[0]) + abs(l[1]) > 1e-8 else 0.0
    th = math.atan2(math.hypot(l[0], l[1]), l[2])
    st, ct, sp, cp = math.sin(th), math.cos(th), math.sin(ph), math.cos(ph)
    return A @ np.array([[st * cp, ct * cp, -sp], [st * sp, ct * sp, cp], [ct, -st, 0.0]])


def gen_cs(rng, kind, cid, p, L, on_axis=False):
    """an output system of the given kind for a grid at p; returns (coordout, frame)"""
    if kind == 0:
        return 0, np.eye(3)
    A = rand_rot(rng)
    O = rng.uniform(-1, 1, 3) * L
    if on_axis:
        O = p - A[:, 2] * rng.uniform(0.2, 1.0) * L  # the grid sits on the polar axis
    elif kind in (2, 3) and rng.random() < 0.35:
        # the grid sits at an azimuth of exactly 0, 90, 180 or 270 degrees of its own (tilted, offset) output system
        # - a bolt ring - so that one local component is round-off noise only
        cx, sx = [(1.0, 0.0), (0.0, 1.0), (-1.0, 0.0), (0.0, -1.0)][int(rng.integers(0, 4))]
        r = rng.uniform(0.3, 1.0) * L
        z = rng.uniform(-0.5, 0.5) * L if (kind == 2 or rng.random() < 0.7) else 0.0
        O = p - A @ np.array([r * cx, r * sx, z])
    else:
        l = A.T @ (p - O)
        if kind in (2, 3) and math.hypot(l[0], l[1]) < 0.05 * L:
            O = O + A[:, 0] * 0.5 * L
    cs = np.vstack([[cid, kind, 0], O, O + A[:, 2], O + A[:, 0]])
    return cs, local_frame(kind, A, O, p)


def gen_structure(rng, ngrids, aniso=False, kinds=(0, 1, 2, 3), L=None):
    L = float(L if L is not None else 10 ** rng.uniform(-0.5, 1.5))
    xyz = rng.uniform(-1, 1, (ngrids, 3)) * L
    css, frames = [], []
    for i in range(ngrids):
        cs, fr = gen_cs(rng, int(rng.choice(kinds)), 100 + i, xyz[i], L)
        css.append(cs)
        frames.append(fr)
    n = 6 * ngrids
    K = np.zeros((n, n))
    kscale = 10 ** rng.uniform(4, 6)
    pairs = [(int(rng.integers(0, i)), i) for i in range(1, ngrids)]
    for _ in range(ngrids):
        i, j = rng.choice(ngrids, 2, replace=False)
        pairs.append((int(i), int(j)))
    for i, j in pairs:
        B = rng.standard_normal((6, 6))
        ke = (B @ B.T + 0.5 * np.eye(6)) * kscale
        ke[3:, :] *= L
        ke[:, 3:] *= L
        p = (xyz[i] + xyz[j]) / 2 + rng.uniform(-1, 1, 3) * L * 0.3
        D = np.zeros((6, n))
        D[:, 6 * i:6 * i + 6] = rb6(p, xyz[i])
        D[:, 6 * j:6 * j + 6] = -rb6(p, xyz[j])
        K += D.T @ ke @ D
    M = np.zeros((n, n))
    A3 = np.diag(rng.uniform(0.5, 2.0, 3)) if aniso else np.eye(3)
    masses = rng.uniform(0.5, 3.0, ngrids)
    for i in range(ngrids):
        B = rng.standard_normal((3, 3))
        blk = np.zeros((6, 6))
        blk[:3, :3] = masses[i] * A3
        blk[3:, 3:] = (B @ B.T + np.eye(3)) * masses[i] * L ** 2 * 0.05
        M[6 * i:6 * i + 6, 6 * i:6 * i + 6] = blk
    G = np.zeros((n, n))
    for i in range(ngrids):
        G[6 * i:6 * i + 3, 6 * i:6 * i + 3] = frames[i]
        G[6 * i + 3:6 * i + 6, 6 * i + 3:6 * i + 6] = frames[i]
    return dict(xyz=xyz, css=css, frames=frames, Kb=K, Mb=M, K=G.T @ K @ G, M=G.T @ M @ G, G=G,
                A3=A3, masses=masses, kscale=kscale, L=L)


def add_special(st, rng, kind, attach, cskind=0):
    """append one grid to a generated structure (it becomes a boundary grid):
      'massless6'    no mass at all, 6-DOF springs to the grids `attach` (boundary grids only, so its Craig-Bampton
                     mass columns vanish while its stiffness does not: massless DOF with stiffness);
      'massless-rot' translational mass only, otherwise the same (three massless rotations with stiffness);
      'pinned'       ball joint: translational mass, springs that act on its translations only and are attached AT the
                     grid, so its three rotations have neither stiffness nor mass (null columns in both matrices and
                     zero-stiffness boundary DOF for _cbcoordchk)."""
    n0 = st["Kb"].shape[0]
    ng = n0 // 6
    L, ks = st["L"], st["kscale"]
    p = rng.uniform(-1, 1, 3) * L
    cs, fr = gen_cs(rng, cskind, 100 + ng, p, L)
    n = n0 + 6
    K = np.zeros((n, n))
    K[:n0, :n0] = st["Kb"]
    M = np.zeros((n, n))
    M[:n0, :n0] = st["Mb"]
    xyz = np.vstack([st["xyz"], p])
    for j in attach:
        B = rng.standard_normal((6, 6))
        ke = (B @ B.T + 0.5 * np.eye(6)) * ks
        ke[3:, :] *= L
        ke[:, 3:] *= L
        if kind == "pinned":
            ke[3:, :] = 0
            ke[:, 3:] = 0
            q = p.copy()
        else:
            q = (p + xyz[j]) / 2 + rng.uniform(-1, 1, 3) * L * 0.3
        D = np.zeros((6, n))
        D[:, n0:] = rb6(q, p)
        D[:, 6 * j:6 * j + 6] = -rb6(q, xyz[j])
        K += D.T @ ke @ D
    mass = float(rng.uniform(0.5, 3.0))
    if kind in ("pinned", "massless-rot"):
        M[n0:n0 + 3, n0:n0 + 3] = mass * st["A3"]
    else:
        mass = 0.0
    if kind == "pinned":
        # exact zeros (the assembly above leaves round-off in products with the zero rows of ke)
        K[n0 + 3:, :] = 0
        K[:, n0 + 3:] = 0
    G = np.zeros((n, n))
    G[:n0, :n0] = st["G"]
    G[n0:n0 + 3, n0:n0 + 3] = fr
    G[n0 + 3:, n0 + 3:] = fr
    Ko, Mo = G.T @ K @ G, G.T @ M @ G
    if kind == "pinned":
        Ko[n0 + 3:, :] = 0
        Ko[:, n0 + 3:] = 0
    if kind != "massless6":
        Mo[n0 + 3:, :] = 0
        Mo[:, n0 + 3:] = 0
    else:
        Mo[n0:, :] = 0
        Mo[:, n0:] = 0
    return dict(st, xyz=xyz, css=st["css"] + [cs], frames=st["frames"] + [fr], Kb=K, Mb=M, K=Ko, M=Mo, G=G,
                masses=np.append(st["masses"], mass))


def rb_truth(st, ref):
    """rigid-body modes of all grids in output coordinates, unit motion of `ref` along basic axes"""
    RB = np.vstack([rb6(p, ref) for p in st["xyz"]])
    return st["G"].T @ RB


def cb_reduce(st, bgrids, nq):
    import scipy.linalg as la

    ng = len(st["xyz"])
    b = np.concatenate([np.arange(6 * g, 6 * g + 6) for g in bgrids])
    o = np.setdiff1d(np.arange(6 * ng), b)
    K, M = st["K"], st["M"]
    Koo, Kob, Moo = K[np.ix_(o, o)], K[np.ix_(o, b)], M[np.ix_(o, o)]
    phic = -np.linalg.solve(Koo, Kob)
    w, phi = la.eigh(Koo, Moo)
    w, phi = w[:nq], phi[:, :nq]
    nb = len(b)
    T = np.zeros((6 * ng, nb + nq))
    T[b, np.arange(nb)] = 1.0
    T[np.ix_(o, np.arange(nb))] = phic
    T[np.ix_(o, nb + np.arange(nq))] = phi
    Mcb = T.T @ M @ T
    Kcb = T.T @ K @ T
    Mcb = (Mcb + Mcb.T) / 2
    Kcb = (Kcb + Kcb.T) / 2
    Kcb[:nb, nb:] = 0
    Kcb[nb:, :nb] = 0
    Kcb[nb:, nb:] = np.diag(w)
    Mcb[nb:, nb:] = np.eye(nq)
    for X, Y in ((M, Mcb), (K, Kcb)):
        # a boundary DOF whose physical row is null and that drives no interior DOF has an exactly null reduced
        # row/column (products with its zero constraint mode leave no round-off, but be explicit)
        for kk, dof in enumerate(b):
            if not X[dof].any() and not X[:, dof].any() and not phic[:, kk].any():
                Y[kk, :] = 0
                Y[:, kk] = 0
    return dict(Mcb=Mcb, Kcb=Kcb, T=T, w=w, b=b, o=o, phi=phi, cond=np.linalg.cond(Koo))


def make_uset(st, bgrids, ids, xyz=None):
    from pyyeti.nastran import n2p

    xyz = st["xyz"][bgrids] if xyz is None else xyz
    return n2p.addgrid(None, [int(i) for i in ids], "b", 0, xyz, [st["css"][g] for g in bgrids])


# ---------------------------------------------------------------------------------------
# cbcheck cases: a JSON-able spec -> inputs + ground truth

M2E = (39.37007874015748, 0.005710147154735817)  # cbconvert docstring table
E2M = (0.0254, 175.12683524637913)


def conv_code(conv):
    """how a `conv` argument travels to the driver: the two strings by name (the model then uses the factors the
    translator extracted from `_get_conv_factors`), a tuple by value"""
    if conv is None:
        return "0"
    if conv == "m2e":
        return "2"
    if conv == "e2m":
        return "3"
    return "1 " + bits([float(conv[0]), float(conv[1])])


def conv_factors(conv):
    if conv is None:
        return None
    if conv == "m2e":
        return M2E
    if conv == "e2m":
        return E2M
    return (float(conv[0]), float(conv[1]))


def convert_structure(st, lc, mc):
    """the same physical structure expressed in the new units (independent of cbconvert)"""
    n = st["K"].shape[0]
    s = np.ones(n)
    for g in range(n // 6):
        s[6 * g + 3:6 * g + 6] = lc
    S = np.diag(s)
    st2 = dict(st)
    st2["xyz"] = st["xyz"] * lc
    st2["K"] = mc * (S @ st["K"] @ S)
    st2["M"] = mc * (S @ st["M"] @ S)
    st2["L"] = st["L"] * lc
    st2["kscale"] = st["kscale"] * mc
    return st2


def gen_spec(rng, tier_big=False):
    nbg = int(rng.choice([1, 1, 2, 2, 3, 3, 4]))
    nint = int(rng.integers(1, 5 if not tier_big else 8))
    no = 6 * nint
    spec = dict(
        seed=[int(x) for x in rng.integers(0, 2 ** 31, 3)],
        ngrids=nbg + nint,
        nbg=nbg,
        nq=int(rng.choice([1, 2, no // 2, no - 1, no, no])),
        aniso=bool(rng.random() < 0.35),
        kinds=[[0], [0, 1], [0, 1, 2, 3], [2, 3], [1, 2, 3]][int(rng.integers(0, 5))],
        layout=str(rng.choice(["first", "last", "mixed"])),
        reorder=bool(rng.random() < 0.8),
        brefgrid=int(rng.integers(0, nbg)),
        rbnorm=[None, None, True, False][int(rng.integers(0, 4))],
        uref=str(rng.choice(["id", "vec", "origin"])),
        conv=[None, None, "m2e", "e2m", [float(10 ** rng.uniform(-2, 2)), float(10 ** rng.uniform(-3, 3))]][
            int(rng.integers(0, 5))],
        variant="valid",
    )
    perm = list(range(nbg))
    if spec["reorder"] and nbg > 1 and rng.random() < 0.75:
        perm = [int(x) for x in rng.permutation(nbg)]
    spec["gridperm"] = perm
    # (reorder=False with the b-set last / interleaved is inside the domain since the fix 666dd84, finding F33)
    # effective-mass print filter: only which rows of the table are printed
    spec["em_filt"] = [0, 0, 0, float(np.round(10 ** rng.uniform(-1, 1.4), 3))][int(rng.integers(0, 4))]
    return spec


SPECIALS = ("massless6", "massless-rot", "pinned")


def add_special_to_spec(spec, rng, kind):
    """one more boundary grid of a special kind (see add_special); keeps everything else of the spec"""
    spec = dict(spec)
    spec["special"] = kind
    spec["special_cs"] = int(rng.choice([0, 0, 1, 2, 3])) if any(k != 0 for k in spec["kinds"]) else 0
    spec["special_attach"] = int(rng.integers(1, 3))
    spec["ngrids"] += 1
    spec["nbg"] += 1
    nbg = spec["nbg"]
    spec["special_pos"] = int(rng.integers(0, nbg))
    # the reference grid is never the ball-jointed one (that must raise, see bref_on_special) ...
    others = [i for i in range(nbg) if i != spec["special_pos"]]
    spec["brefgrid"] = int(rng.choice(others)) if (kind == "pinned" or rng.random() < 0.6) else spec["special_pos"]
    perm = list(range(nbg))
    if spec["reorder"] and rng.random() < 0.75:
        perm = [int(x) for x in rng.permutation(nbg)]
    spec["gridperm"] = perm
    spec["nq"] = max(1, spec["nq"])
    return spec


def build_case(spec):
    rng = np.random.default_rng(spec["seed"])
    special = spec.get("special")
    nsp = 1 if special else 0
    st = gen_structure(rng, spec["ngrids"] - nsp, aniso=spec["aniso"], kinds=tuple(spec["kinds"]))
    nbg = spec["nbg"]
    bgrids = [int(x) for x in rng.choice(spec["ngrids"] - nsp, nbg - nsp, replace=False)]
    if special:
        rs = np.random.default_rng(list(spec["seed"]) + [17])
        pool = bgrids if special != "pinned" else list(range(spec["ngrids"] - 1))
        attach = [int(x) for x in rs.choice(pool, min(len(pool), spec["special_attach"]), replace=False)]
        st = add_special(st, rs, special, attach, spec.get("special_cs", 0))
        bgrids.insert(spec["special_pos"], spec["ngrids"] - 1)
    variant = spec["variant"]
    if variant in ("grounded", "grounded1"):
        g = int(rng.integers(0, spec["ngrids"] - nsp))
        B = rng.standard_normal((6, 6))
        kg = (B @ B.T + np.eye(6)) * st["kscale"] * spec.get("ground", 0.05)
        kg[3:, :] *= st["L"]
        kg[:, 3:] *= st["L"]
        if variant == "grounded1":
            # grounded through ONE degree of freedom: a scalar spring to ground
            d = int(rng.integers(0, 6))
            kd = kg[d, d]
            kg = np.zeros((6, 6))
            kg[d, d] = kd
        Gg = st["G"][6 * g:6 * g + 6, 6 * g:6 * g + 6]
        st = dict(st)
        st["K"] = st["K"].copy()
        st["K"][6 * g:6 * g + 6, 6 * g:6 * g + 6] += Gg.T @ kg @ Gg
    nq = min(spec["nq"], 6 * (spec["ngrids"] - nbg))
    red = cb_reduce(st, bgrids, nq)
    nb = 6 * nbg
    n = nb + nq
    # where the b-set lives inside the matrices handed to cbcheck
    if spec["layout"] == "first":
        pos_b = np.arange(nb)
    elif spec["layout"] == "last":
        pos_b = np.arange(nq, n)
    else:
        pos_b = np.sort(rng.choice(n, nb, replace=False))
    pos_q = np.setdiff1d(np.arange(n), pos_b)
    order = np.empty(n, dtype=int)  # order[new position] = index in [b..., q...] numbering
    order[pos_b] = np.arange(nb)
    order[pos_q] = nb + np.arange(nq)
    Min = red["Mcb"][np.ix_(order, order)]
    Kin = red["Kcb"][np.ix_(order, order)]
    perm = spec["gridperm"]
    bseto = np.concatenate([pos_b[6 * g:6 * g + 6] for g in perm])
    bref = pos_b[6 * spec["brefgrid"]:6 * spec["brefgrid"] + 6]
    ids = [10 * (i + 1) for i in range(nbg)]
    xyz_b = st["xyz"][bgrids].copy()
    moved = None
    if variant == "perturbed":
        cand = [i for i in range(nbg) if i != spec["brefgrid"]]
        moved = int(rng.choice(cand))
        d = rng.standard_normal(3)
        xyz_b[moved] += d / np.linalg.norm(d) * st["L"] * spec.get("shift", 0.2)
    uset = make_uset(st, bgrids, ids, xyz_b)
    if spec["uref"] == "id":
        uref = ids[spec["brefgrid"]]
        uref_xyz = xyz_b[spec["brefgrid"]]
    elif spec["uref"] == "vec":
        uref_xyz = rng.uniform(-1, 1, 3) * st["L"]
        uref = [float(x) for x in uref_xyz]
    else:
        uref_xyz = np.zeros(3)
        uref = (0, 0, 0)
    # boundary DOF (in [b..., q...] numbering) without stiffness / without mass
    zk = np.nonzero(~red["Kcb"][:nb, :nb].any(axis=0))[0]
    zm = np.nonzero(~red["Mcb"][:, :nb].any(axis=0))[0]
    return dict(spec=spec, st=st, bgrids=bgrids, red=red, nb=nb, nq=nq, n=n, pos_b=pos_b, pos_q=pos_q,
                Min=Min, Kin=Kin, bseto=bseto, bref=bref, ids=ids, uset=uset, uref=uref,
                uref_xyz=np.asarray(uref_xyz, float), moved=moved, zero_k=zk, zero_m=zm)


def truth_of(case):
    """ground truth of everything cbcheck returns / prints, in the units and DOF order of its output"""
    spec, st = case["spec"], case["st"]
    cf = conv_factors(spec["conv"])
    lc, mc = cf if cf else (1.0, 1.0)
    st2 = convert_structure(st, lc, mc) if cf else st
    bgrids = case["bgrids"]
    perm = spec["gridperm"] if spec["reorder"] else list(range(spec["nbg"]))
    red2 = cb_reduce(st2, bgrids, case["nq"])
    b_phys = np.concatenate([np.arange(6 * bgrids[g], 6 * bgrids[g] + 6) for g in perm])
    refgrid = bgrids[spec["brefgrid"]]
    ref_rows = np.arange(6 * refgrid, 6 * refgrid + 6)
    uref_xyz = case["uref_xyz"] * lc
    RBg = rb_truth(st2, uref_xyz)  # relative to uref, basic axes
    RBr0 = rb_truth(st2, st2["xyz"][refgrid])
    RBs = RBr0 @ np.linalg.inv(RBr0[ref_rows])  # relative to the reference grid, its output axes
    contiguous = True  # bref is always the six DOF of one grid
    rbnorm = spec["rbnorm"] if spec["rbnorm"] is not None else (not contiguous)
    RBse = RBs @ RBg[ref_rows] if rbnorm else RBs
    M, K = st2["M"], st2["K"]
    o = red2["o"]
    out = dict(
        rbg=RBg[b_phys], rbs_b=RBse[b_phys],
        ms=RBse.T @ M @ RBse, mg=RBg.T @ M @ RBg,
        frq=np.sqrt(np.abs(red2["w"])) / (2 * math.pi),
        ids=[case["ids"][g] for g in perm],
        kscale=st2["kscale"], L=st2["L"], lc=lc, mc=mc,
    )
    Lq = red2["phi"].T @ (M @ RBg)[o]
    out["effmass"] = Lq ** 2
    out["percent"] = out["effmass"] * (100 / np.diag(out["mg"]))
    # boundary residual with the retained modes: total - sum(effmass)
    out["KRB"] = np.abs(K @ RBg).max()
    # boundary DOF without stiffness (ball joints): _cbcoordchk leaves zero rows there (only when lb > 6)
    zr = np.array([kk for kk, dof in enumerate(b_phys) if not K[dof].any()], dtype=int) if len(b_phys) > 6 \
        else np.zeros(0, dtype=int)
    out["zero_rows"] = zr
    out["rbs_b"] = out["rbs_b"].copy()
    out["rbs_b"][zr] = 0.0
    out["rbnorm"] = bool(rbnorm)
    # coordinates cbcoordchk derives from the stiffness-based modes
    xyzb = st2["xyz"][[bgrids[g] for g in perm]]
    F = st2["frames"][refgrid]
    out["refframe"] = F
    out["coords"] = (xyzb - uref_xyz) if rbnorm else (xyzb - st2["xyz"][refgrid]) @ F
    # mass properties of the physical structure (converted units): total, cg, inertia about the cg in basic axes
    masses = st["masses"] * mc
    mt = masses.sum()
    cg = (masses[:, None] * st2["xyz"]).sum(axis=0) / mt
    Icg = np.zeros((3, 3))
    for i, p in enumerate(st2["xyz"]):
        X = skew(p - cg)
        Icg += st["Mb"][6 * i + 3:6 * i + 6, 6 * i + 3:6 * i + 6] * mc * lc ** 2 + masses[i] * X.T @ st["A3"] @ X
    out.update(mt=mt, cg=cg, Icg=Icg, cg_g=cg - uref_xyz,
               cg_s=(cg - uref_xyz) if rbnorm else F.T @ (cg - st2["xyz"][refgrid]),
               Icg_s=Icg if rbnorm else F.T @ Icg @ F, iso=not spec["aniso"])
    out["Kcb"], out["Mcb"], out["nb"] = red2["Kcb"], red2["Mcb"], len(b_phys)
    out["kbb_b"] = K_b = red2["Kcb"][:len(b_phys), :len(b_phys)]
    # K_cb in the output order of the b-set (b_phys is the physical numbering; red2 is in bgrids order)
    order_b = np.concatenate([np.arange(6 * g, 6 * g + 6) for g in perm])
    out["kbb_out"] = K_b[np.ix_(order_b, order_b)]
    return out


def pencil_truth(Kcb, Mcb, nb):
    """finite eigenvalues of the pencil (K, M) by QZ - no reduction formula involved - and the boundary
    stiffness / value-check numbers of the pencil after its massless DOF are condensed (Schur complement, numpy)"""
    import scipy.linalg as la

    n = Kcb.shape[0]
    keep = np.nonzero(Kcb.any(axis=0) | Mcb.any(axis=0))[0]
    K1, M1 = Kcb[np.ix_(keep, keep)], Mcb[np.ix_(keep, keep)]
    ab = la.eigvals(K1, M1, homogeneous_eigvals=True)
    alpha, beta = ab[0], ab[1]
    fin = np.abs(beta) > 1e-9 * np.abs(beta).max()
    w = np.sort(np.abs(np.real(alpha[fin] / beta[fin])))
    xm = M1.any(axis=0)
    isb = keep < nb
    if (~xm).any():
        zz = np.ix_(~xm, ~xm)
        Kx = K1[np.ix_(xm, xm)] - K1[np.ix_(xm, ~xm)] @ np.linalg.solve(K1[zz], K1[np.ix_(~xm, xm)])
    else:
        Kx = K1
    bx = isb[xm]
    return dict(w=w, nred=int(xm.sum()), kbb_max=float(np.abs(Kx[np.ix_(bx, bx)]).max(initial=0.0)),
                null=[int(i) for i in np.setdiff1d(np.arange(n), keep)], massless=[int(i) for i in np.nonzero(~xm)[0]])


def run_cbcheck(case, extra=None):
    from pyyeti import cb

    spec = case["spec"]
    f = io.StringIO()
    conv = spec["conv"]
    if isinstance(conv, list):
        conv = tuple(conv)
    nred = case["n"] - len(case.get("zero_m", ()))  # size of the free-free problem after trimming / Guyan reduction
    nff = max(6, min(10, nred - 1))
    with warnings.catch_warnings():
        warnings.simplefilter("ignore")
        out = cb.cbcheck(f, case["Min"].copy(), case["Kin"].copy(), case["bseto"].copy(), case["bref"].copy(),
                         case["uset"], uref=case["uref"], conv=conv, rb_norm=spec["rbnorm"],
                         reorder=spec["reorder"], n_freefree_modes=nff, em_filt=spec.get("em_filt", 0), **(extra or {}))
    return out, f.getvalue()


_NUM = r"[-+]?(?:\d+\.\d*|\.\d+|\d+)(?:[eE][-+]?\d+)?|nan|inf"


def _block(txt, header, nrows, ncols, skip=0):
    i = txt.find(header)
    if i < 0:
        return None
    lines = txt[i + len(header):].split("\n")
    rows = []
    for ln in lines:
        vals = re.findall(_NUM, ln)
        if len(vals) >= ncols + skip and not re.search(r"[A-Za-df-z]", ln.replace("nan", "").replace("inf", "")):
            rows.append([float(v) for v in vals[skip:skip + ncols]])
            if len(rows) == nrows:
                return np.array(rows)
        elif rows:
            return None
    return None


def _rows_after(txt, start, ncols, lead=0, stop=None, label=None):
    """numeric rows following position `start`: every line that has exactly lead+ncols numbers (and, if `label` is given,
    starts with it) until the first non-matching line after at least one row; returns (array of the last ncols numbers,
    array of the lead columns, position after the block)"""
    rows, leads = [], []
    pos = start
    for ln in txt[start:].split("\n"):
        pos += len(ln) + 1
        body = ln.strip()
        if stop is not None and stop in ln:
            break
        if label is not None:
            if not body.startswith(label):
                if rows:
                    break
                continue
            body = body[len(label):]
        vals = re.findall(_NUM, body)
        words = re.sub(_NUM, "", body).replace(",", "").strip()
        if len(vals) == lead + ncols and words == "":
            leads.append([float(v) for v in vals[:lead]])
            rows.append([float(v) for v in vals[lead:]])
        elif rows:
            break
    return np.array(rows).reshape(len(rows), ncols), np.array(leads).reshape(len(rows), lead), pos


def _dist_table(txt, title):
    """the three rows Stiffness / Geometry / Eigensolution of a `_wrtdist` table"""
    i = txt.find(title)
    out = {}
    if i < 0:
        return out
    for ln in txt[i:i + 900].split("\n")[1:]:
        for nm, key in (("Stiffness", "s"), ("Geometry", "g"), ("Eigensolution", "e")):
            if ln.strip().startswith(nm) and key not in out:
                v = re.findall(_NUM, ln)
                if len(v) >= 3:
                    out[key] = np.array([float(t) for t in v[-3:]])
        if len(out) == 3:
            break
    return out


def parse_report(txt):
    """every numeric table of the cbcheck report (print precision), keyed by what it is"""
    rep = {}
    for key in ("stiffness", "geometry", "eigensolution"):
        rep["mass_" + key] = _block(txt, "6x6 mass matrix from %s-based rb modes:" % key, 6, 6)
        rep["ground_" + key] = _block(txt, "Summation of %s-based rb-forces: RB'*K*RB:" % key, 6, 6)
        # K*RB per DOF: `id dof` + 6 numbers, then `modal i` + 6 numbers
        i = txt.find("K*RB using %s-based rb modes:" % key)
        if i >= 0:
            j = txt.find("Summation of %s-based" % key, i)
            sect = txt[i:j]
            rows, mrows = [], []
            for ln in sect.split("\n")[3:]:
                v = re.findall(_NUM, ln)
                if ln.strip().startswith("modal") and len(v) == 7:
                    mrows.append([float(t) for t in v[1:]])
                elif len(v) == 8 and not re.search(r"[A-Za-z]", ln):
                    rows.append([float(t) for t in v[2:]])
            rep["krb_" + key] = np.array(rows).reshape(-1, 6)
            rep["krbq_" + key] = np.array(mrows).reshape(-1, 6)
        i = txt.find("%s-based Inertia Matrix @ CG" % key.capitalize())
        if i >= 0:
            I, _, pos = _rows_after(txt, i + 10, 3)
            rep["inertia_" + key] = I if I.shape == (3, 3) else None
            j = txt.find("Principal Axis Moments of Inertia:", i)
            P, _, _ = _rows_after(txt, j + 10, 3)
            rep["pinertia_" + key] = P[0] if len(P) else None
    rep["cg"] = _dist_table(txt, "Distance to CG location from relevant reference point:")
    rep["gyr"] = _dist_table(txt, "Radius of gyration about X, Y, Z axes (from CG):")
    rep["pgyr"] = _dist_table(txt, "Radius of gyration about principal axes (from CG):")
    rep["refchk"] = "pass" if "Check: PASS" in txt else ("fail" if "Check: FAIL" in txt else "single")
    # coordinates determined from the stiffness-based modes (rbdispchk)
    i = txt.find("Stiffness-based coordinates")
    j = txt.find("Maximum absolute coordinate location error:")
    if i >= 0 and j >= 0:
        k = txt.find("------", i)
        T, lead, _ = _rows_after(txt, k, 4, lead=2, stop="Maximum absolute")
        rep["coords"], rep["coord_err"] = T[:, :3], T[:, 3]
        rep["coord_ids"] = [int(x) for x in lead[:, 1]] if len(lead) else []
        v = re.findall(_NUM, txt[j:j + 90].split(":")[1])
        rep["coord_maxerr"] = float(v[0]) if v else None
    rep["coord_warnings"] = txt.count("Warning: deviation from standard pattern")
    for key, ttl in (("move_t", "RB Translation Movement Check"), ("move_r", "RB Rotation Movement Check")):
        i = txt.find(ttl)
        if i >= 0:
            k = txt.find("---------", i)
            T, lead, _ = _rows_after(txt, k, 9, lead=1)
            rep[key] = T
    # free-free modes
    i = txt.find("FREE-FREE MODES:")
    if i >= 0:
        k = txt.find("----", i)
        T, lead, _ = _rows_after(txt, k, 1, lead=1)
        rep["ff"] = T[:, 0]
    # modal effective mass table
    i = txt.find("FIXED-BASE MODES w/ Percent Modal Effective Mass:")
    if i >= 0:
        k = txt.find("--------  --------------", i)
        T, lead, _ = _rows_after(txt, k, 6, lead=2, stop="Total Effective Mass")
        rep["em_percent"], rep["em_frq"] = T, (lead[:, 1] if len(lead) else np.zeros(0))
        rep["em_modes"] = [int(x) for x in lead[:, 0]] if len(lead) else []
        j = txt.find("Total Effective Mass:", i)
        v = re.findall(_NUM, txt[j:].split("\n")[0].split(":")[1]) if j >= 0 else []
        rep["em_total"] = np.array([float(t) for t in v]) if len(v) == 6 else None
    rep["no_modes_note"] = "There are no modes for the modal-effective-mass check." in txt
    # matrix value checks
    vals = {}
    for key, lbl in (("mqq_diag", "Maximum value of diag(MQQ)-1.0"), ("mqq_off", "Maximum off-diagonal value of MQQ"),
                     ("kbb_max", "Maximum value of KBB"), ("kbq_max", "Maximum value of KBQ"),
                     ("kqq_off", "Maximum off-diagonal value of KQQ"), ("kqq_min", "Minimum diagonal value of KQQ")):
        i = txt.find(lbl)
        if i >= 0:
            v = re.findall(_NUM, txt[i + len(lbl):].split("\n")[0].split("(")[0])
            if v:
                vals[key] = float(v[0])
    rep["vals"] = vals
    rep["trim_null"] = _pv_line(txt, "Trimming out null columns")
    rep["trim_massless"] = _pv_line(txt, "There are massless DOF with stiffness.")
    return rep


def _pv_line(txt, header):
    i = txt.find(header)
    if i < 0:
        return None
    j = txt.find("pv = [", i)
    k = txt.find("]", j)
    return [int(x) for x in txt[j + 6:k].split()]


# ---------------------------------------------------------------------------------------
# driver transport and comparison helpers


def bits(a):
    a = np.ascontiguousarray(np.asarray(a, dtype=float)).ravel()
    return " ".join(map(str, a.view(np.uint64).tolist()))


def unbits(tokens):
    return np.array([int(t) for t in tokens], dtype=np.uint64).view(np.float64)


def ints(a):
    return " ".join(str(int(x)) for x in np.asarray(a).ravel())


class Cmp:
    def __init__(self, ctx, tol=1e-9):
        self.ctx, self.tol, self.worst = ctx, tol, 0.0

    def __call__(self, stream, name, inp, impl, model, scale=None, tol=None):
        impl = np.asarray(impl, float)
        model = np.asarray(model, float)
        if impl.shape != model.shape:
            self.ctx.disagree(stream, inp, {"what": name, "shape": list(impl.shape)}, {"shape": list(model.shape)})
            return False
        if impl.size == 0:
            return True
        sc = max(float(scale) if scale is not None else 0.0, 1e-300)
        if scale is None:
            sc = max(np.nanmax(np.abs(impl)), np.nanmax(np.abs(model)), 1e-300)
        bad = np.isnan(impl) != np.isnan(model)
        with np.errstate(invalid="ignore"):
            err = np.where(np.isnan(impl) | np.isnan(model), 0.0, np.abs(impl - model))
        e = float(err.max()) / sc
        self.worst = max(self.worst, e)
        if bad.any() or not e <= (tol or self.tol):
            k = int(np.argmax(err))
            self.ctx.disagree(stream, inp, {"what": name, "index": k, "value": float(impl.ravel()[k]), "rel_err": e},
                              {"value": float(model.ravel()[k])})
            return False
        return True


def gen_mass_doc(mx, my, mz, d, J):
    """the 6x6 mass matrix of the cgmass docstring (independent transcription)"""
    dx, dy, dz = d
    Mt = np.diag([mx, my, mz])
    X = np.array([[0, dz, -dy], [-dz, 0, dx], [dy, -dx, 0]], float)  # = -skew(d)
    m = np.zeros((6, 6))
    m[:3, :3] = Mt
    m[:3, 3:] = Mt @ X
    m[3:, :3] = (Mt @ X).T
    m[3:, 3:] = J + X.T @ Mt @ X
    return m


def cgmass_cases(ctx, rng, nrand):
    cases = []
    for i in range(nrand):
        kind = ["doc-unequal", "doc-unequal", "rigid-equal", "doc-equal"][i % 4]
        L = 10 ** rng.uniform(-1, 2)
        d = rng.uniform(-1, 1, 3) * L
        if rng.random() < 0.15:
            d[int(rng.integers(0, 3))] = 0.0
        B = rng.standard_normal((3, 3))
        mass = 10 ** rng.uniform(-2, 3)
        J = (B @ B.T + 0.1 * np.eye(3)) * mass * L ** 2 * 10 ** rng.uniform(-2, 0)
        if kind == "doc-unequal":
            mx, my, mz = mass * rng.uniform(0.3, 3.0, 3)
        else:
            mx = my = mz = mass
        if kind == "rigid-equal":
            RB = rb6(d, np.zeros(3))
            mcg = np.zeros((6, 6))
            mcg[:3, :3] = mass * np.eye(3)
            mcg[3:, 3:] = J
            m = RB.T @ mcg @ RB
            m = (m + m.T) / 2
        else:
            m = gen_mass_doc(mx, my, mz, d, J)
        cases.append(dict(kind=kind, m=m, truth=dict(masses=[mx, my, mz], d=d, J=J)))
    return cases


def uset_cases(ctx, rng, n):
    from pyyeti.nastran import n2p

    cases = []
    for i in range(n):
        ng = int(rng.integers(1, 6))
        L = 10 ** rng.uniform(-0.5, 2)
        xyz = rng.uniform(-1, 1, (ng, 3)) * L
        css, frames, tags = [], [], []
        for g in range(ng):
            kind = int(rng.choice([0, 1, 2, 3]))
            on_axis = kind in (2, 3) and rng.random() < 0.2
            cs, fr = gen_cs(rng, kind, 100 + g, xyz[g], L, on_axis=on_axis)
            css.append(cs)
            frames.append(fr)
            tags.append(["basic", "rect", "cyl", "sph"][kind] + ("-on-axis" if on_axis else ""))
        uset = n2p.addgrid(None, [10 * (g + 1) for g in range(ng)], "b", 0, xyz, css)
        if rng.random() < 0.5:
            gi = int(rng.integers(0, ng))
            ref_arg, ref = 10 * (gi + 1), xyz[gi]
        else:
            ref = rng.uniform(-1, 1, 3) * L
            ref_arg = ref.copy()
        cases.append(dict(uset=uset, css=css, ref_arg=ref_arg, ref=np.asarray(ref, float), xyz=xyz, frames=frames,
                          tags=tags, L=L))
    return cases


def uset_truth(c):
    rows = []
    for p, fr in zip(c["xyz"], c["frames"]):
        G = np.zeros((6, 6))
        G[:3, :3] = fr
        G[3:, 3:] = fr
        rows.append(G.T @ rb6(p, c["ref"]))
    return np.vstack(rows)


def reorder_cases(ctx, rng, n):
    cases = []
    for i in range(n):
        lb = int(rng.choice([6, 6, 12, 18, 5, 7]))
        lq = int(rng.choice([0, 0, 1, 3, 8]))
        lt = lb + lq
        b = rng.choice(lt, lb, replace=False)
        style = int(rng.integers(0, 3))
        if style == 0:
            b = np.sort(b)
        elif style == 1:
            b = np.sort(b)[::-1].copy()
        cases.append(dict(lt=lt, b=[int(x) for x in b], last=bool(rng.random() < 0.5), drm=bool(rng.random() < 0.35),
                          nr=int(rng.integers(1, 5))))
    return cases


def run_reorder(c):
    """pv applied by the real cbreorder, read off an index-encoding matrix (exact)"""
    from pyyeti import cb

    lt = c["lt"]
    with warnings.catch_warnings():
        warnings.simplefilter("ignore")
        if c["drm"]:
            M = np.arange(c["nr"] * lt).reshape(c["nr"], lt)
            M2 = cb.cbreorder(M, np.array(c["b"]), drm=True, last=c["last"])
            pv = [int(x) for x in M2[0]]
            ok = np.array_equal(M2, M[:, pv])
        else:
            M = np.arange(lt * lt).reshape(lt, lt)
            M2 = cb.cbreorder(M, np.array(c["b"]), drm=False, last=c["last"])
            pv = [int(x) % lt for x in M2[0]]
            ok = np.array_equal(M2, M[np.ix_(pv, pv)])
    return pv if ok else ["not-an-index-selection"] + pv


def conv_cases(ctx, rng, n):
    cases = []
    for i in range(n):
        lb = int(rng.choice([6, 12, 18]))
        lq = int(rng.choice([0, 2, 7]))
        lt = lb + lq
        b = rng.choice(lt, lb, replace=False)
        if i % 5 == 4:
            # component-major storage: all boundary translations, then all boundary rotations, then the modal DOF
            ngr = lb // 6
            b = np.array([(3 * (kk // 6) + kk % 6) if kk % 6 < 3 else (3 * ngr + 3 * (kk // 6) + kk % 6 - 3) for kk in range(lb)])
        elif rng.random() < 0.5:
            b = np.sort(b)
        drm = bool(rng.random() < 0.35)
        nr = int(rng.integers(1, 6)) if drm else lt
        conv = ["m2e", "e2m", [float(10 ** rng.uniform(-2, 2)), float(10 ** rng.uniform(-3, 3))]][i % 3]
        M = rng.standard_normal((nr, lt)) * 10 ** rng.uniform(-2, 4)
        cases.append(dict(lt=lt, b=[int(x) for x in b], drm=drm, nr=nr, conv=conv, M=M))
    return cases


# ---------------------------------------------------------------------------------------
# extension streams: _solve_eig, rbdispchk, mk_net_drms, rbmultchk, cbtf at 0 Hz


def eig_cases(rng, n):
    """symmetric (k, m) pairs with chosen null columns (zero in both) and massless DOF with stiffness"""
    cases = []
    for i in range(n):
        nb = 6 * int(rng.choice([1, 2, 3]))
        nq = int(rng.integers(1, 9))
        nt = nb + nq
        kind = ["none", "null", "massless", "both"][i % 4]
        nnull = int(rng.integers(1, 4)) if kind in ("null", "both") else 0
        nml = int(rng.integers(1, 5)) if kind in ("massless", "both") else 0
        while nt - nnull - nml < 8:
            nq += 1
            nt += 1
        A = rng.standard_normal((nt, nt + 3))
        k = (A @ A.T) * 10 ** rng.uniform(2, 5)
        B = rng.standard_normal((nt, nt))
        m = (B @ B.T / nt + np.eye(nt)) * 10 ** rng.uniform(-1, 1)
        sel = rng.permutation(nt)
        z0, zm = np.sort(sel[:nnull]), np.sort(sel[nnull:nnull + nml])
        k[z0, :] = 0
        k[:, z0] = 0
        m[z0, :] = 0
        m[:, z0] = 0
        m[zm, :] = 0
        m[:, zm] = 0
        if rng.random() < 0.3 and nml:
            # a massless DOF whose mass column holds only a negative zero is still massless
            m[zm[0], zm[0]] = -0.0
        bset = np.sort(rng.choice(nt, nb, replace=False))
        nred = nt - nnull - nml
        cases.append(dict(kind=kind, k=k, m=m, bset=[int(x) for x in bset], null=[int(x) for x in z0],
                          massless=[int(x) for x in zm], nff=int(rng.integers(6, min(10, nred - 1) + 1))))
    return cases


def run_solve_eig(c):
    from pyyeti import cb

    f = io.StringIO()
    with warnings.catch_warnings():
        warnings.simplefilter("ignore")
        ff = cb._solve_eig(f, c["k"].copy(), c["m"].copy(), np.array(c["bset"]), c["nff"])
    return ff, f.getvalue()


def oracle_solve_eig(c):
    """model-free: every returned pair is an eigenpair of the FULL pencil, with eigenvalues from its finite spectrum"""
    out = []
    inp = {"kind": "solve_eig", "k": np.asarray(c["k"]).tolist(), "m": np.asarray(c["m"]).tolist(), "bset": c["bset"], "nff": c["nff"]}
    k, m = np.asarray(c["k"], float), np.asarray(c["m"], float)
    cc = dict(c, k=k, m=m)
    fam = "solve_eig-" + ("massless" if (~m.any(axis=0) & k.any(axis=0)).any() else "") + \
        ("null" if (~m.any(axis=0) & ~k.any(axis=0)).any() else "") + "-eigenpairs"
    try:
        ff, txt = run_solve_eig(cc)
    except Exception as e:  # noqa: BLE001
        _fail(out, fam + "-raises-" + type(e).__name__, "_solve_eig raises on a symmetric pencil", inp, repr(e)[:200], "eigenpairs")
        return out
    pt = pencil_truth(k, m, 0)
    w, v = ff.w, ff.v
    sc = max(np.abs(k).max() * np.abs(v).max(), 1e-300)
    res = np.abs(k @ v - (m @ v) * w).max() / sc
    if v.shape != (k.shape[0], len(w)) or not res <= 1e-7:
        _fail(out, fam, "K v = w M v does not hold on the full matrices for the back-expanded eigenvectors", inp,
              {"residual": float(res), "shape": list(v.shape)}, "<= 1e-7 relative")
    want = pt["w"]
    order = np.argsort(np.abs(want - 1.0))[:len(w)]
    if len(want) != pt["nred"] or not np.allclose(np.sort(w), np.sort(want[order]), rtol=1e-7, atol=1e-9 * np.abs(want).max()):
        _fail(out, fam.replace("eigenpairs", "eigenvalues"), "eigenvalues are not the finite eigenvalues of (K, M) closest to the shift", inp,
              np.sort(w).tolist(), np.sort(want[order]).tolist())
    if pt["null"] and np.abs(v[pt["null"]]).max() != 0:
        _fail(out, fam, "rows of the eigenvectors on null DOF are not zero", inp, float(np.abs(v[pt["null"]]).max()), 0.0)
    if ff.k.shape[0] != pt["nred"]:
        _fail(out, fam, "size of the reduced problem", inp, ff.k.shape[0], pt["nred"])
    return out


def rbdisp_cases(rng, n):
    cases = []
    for i in range(n):
        nn = int(rng.integers(1, 6))
        L = 10 ** rng.uniform(-1, 2)
        tol = [1e-4, 1e-4, 1e-3, 1e-5][int(rng.integers(0, 4))]
        rows, ds, kinds = [], [], []
        for j in range(nn):
            basis = str(rng.choice(["identity", "rotation", "general"]))
            if basis == "identity":
                F = np.eye(3)
            elif basis == "rotation":
                F = rand_rot(rng)
            else:
                F = rand_rot(rng) @ np.diag(rng.uniform(0.5, 2.0, 3)) @ rand_rot(rng)
            d = rng.uniform(-1, 1, 3) * L
            if rng.random() < 0.1:
                d[:] = 0.0
            blk = np.hstack([F, -F @ skew(d)])
            pk = ["exact", "exact", "small", "large"][int(rng.integers(0, 4))]
            if pk != "exact":
                mag = 10 ** (rng.uniform(-8, -5.5) if pk == "small" else rng.uniform(-2.5, -0.5)) * L
                E = rng.standard_normal((3, 3))
                blk[:, 3:] += F @ (E / np.abs(E).max() * mag)
            rows.append(blk)
            ds.append(d)
            kinds.append(basis + "-" + pk)
        cases.append(dict(rbdisp=np.vstack(rows), d=np.array(ds), tol=tol, kinds=kinds, L=L,
                          grids=[100 + 7 * j for j in range(nn)] if rng.random() < 0.5 else None))
    return cases


def run_rbdisp(c):
    from pyyeti import cb

    f = io.StringIO()
    coords, errs = cb.rbdispchk(f, np.asarray(c["rbdisp"], float), grids=c["grids"], verbose=True, tol=c["tol"])
    return coords, errs, f.getvalue()


def oracle_rbdisp(c):
    out = []
    rb = np.asarray(c["rbdisp"], float)
    inp = {"kind": "rbdisp", "rbdisp": rb.tolist(), "d": np.asarray(c["d"]).tolist(), "tol": c["tol"], "kinds": c["kinds"],
           "grids": c["grids"], "L": c["L"]}
    try:
        coords, errs, txt = run_rbdisp(dict(c, rbdisp=rb))
    except Exception as e:  # noqa: BLE001
        _fail(out, "rbdispchk-raises-" + type(e).__name__, "rbdispchk raises on non-singular translation blocks", inp, repr(e)[:200], "coordinates")
        return out
    L = c["L"]
    d = np.asarray(c["d"], float)
    nwarn = txt.count("Warning: deviation from standard pattern")
    exp_warn = 0
    for j, kd in enumerate(c["kinds"]):
        basis, pk = kd.rsplit("-", 1)
        # the deviation from the pattern, directly from the rows (in the reference axes)
        R = np.linalg.solve(rb[3 * j:3 * j + 3, :3], rb[3 * j:3 * j + 3, 3:])
        dev = max(np.abs(np.diag(R)).max(), abs(R[1, 2] + R[2, 1]), abs(R[2, 0] + R[0, 2]), abs(R[0, 1] + R[1, 0]))
        if pk == "exact":
            if not np.all(np.abs(coords[j] - d[j]) <= 1e-9 * max(L, 1e-30)) or not errs[j] <= 1e-9 * L:
                _fail(out, "rbdispchk-coords-" + basis, "rbdispchk does not recover the offset of a node from exact rigid-body rows", inp,
                      {"coords": coords[j].tolist(), "err": float(errs[j])}, {"coords": d[j].tolist(), "err": 0.0})
        elif not abs(errs[j] - dev) <= 1e-6 * dev + 1e-12 * L:
            _fail(out, "rbdispchk-error-" + basis, "reported deviation from the rigid-body pattern", inp, float(errs[j]), float(dev))
        thr = np.abs(coords[j]).max() * c["tol"]
        if exp_warn is None or abs(dev - thr) <= 0.02 * thr + 1e-13 * L:
            exp_warn = None  # on the threshold (or both round-off): not decidable from outside
        elif dev > thr:
            exp_warn += 1
    if exp_warn is not None and nwarn != exp_warn:
        _fail(out, "rbdispchk-warning", "number of pattern warnings (deviation > tol * max |coordinate|)", inp, nwarn, exp_warn)
    return out


G0 = 9.80665 / 0.0254
TAUS = ["g", "g", ["g", "g"], "in", ["m", "in"], ["m", "g"], ["in", "g"]]


def net_cases(rng, n):
    cases = []
    tries = 0
    while len(cases) < n and tries < 5 * n:
        tries += 1
        spec = gen_spec(rng)
        spec.update(variant="valid", reorder=True, rbnorm=None, uref="origin", conv=None, em_filt=0)
        spec["gridperm"] = [int(x) for x in rng.permutation(spec["nbg"])]
        opt = dict(conv=[None, None, "m2e", "e2m", [float(10 ** rng.uniform(-1, 1.5)), float(10 ** rng.uniform(-2, 2))]][int(rng.integers(0, 5))],
                   sub=bool(rng.random() < 0.3 and spec["nbg"] > 1),
                   ref=str(rng.choice(["vec", "id", "origin"])),
                   sccoord=bool(rng.random() < 0.3), seed=[int(x) for x in rng.integers(0, 2 ** 31, 2)])
        # second extension: the remaining options of the routine
        opt["reorder"] = bool(rng.random() < 0.35)
        opt["tau"] = TAUS[int(rng.integers(0, len(TAUS)))]
        opt["g"] = G0 if rng.random() < 0.6 else float(np.round(10 ** rng.uniform(0, 3), 4))
        opt["indep"] = [None, None, 123456][int(rng.integers(0, 3))]
        opt["sc4x3"] = bool(opt["sccoord"] and rng.random() < 0.5)
        cases.append(dict(spec=spec, opt=opt))
    return cases


def build_net(c):
    """inputs of mk_net_drms for a generated structure.  reorder=False: the b-set vector in any order and the uset in THAT
    order; reorder=True: the uset in ascending matrix position (as cbcheck takes it), bsubset counted in uset rows.
    `out_*` describe the model the routine works on after its own reordering (b-set first, in the order of `bset`)."""
    spec, opt = c["spec"], c["opt"]
    case = build_case(spec)
    rng = np.random.default_rng(opt["seed"])
    perm = spec["gridperm"]
    nbg = spec["nbg"]
    reorder = bool(opt.get("reorder"))
    in_order = list(range(nbg)) if reorder else list(perm)  # uset grid order (indices into case["bgrids"])
    bgr_in = [case["bgrids"][g] for g in in_order]
    ids = [10 * (i + 1) for i in range(nbg)]  # a uset table lists its grids by ascending id
    uset = make_uset(case["st"], bgr_in, ids)
    if opt["sub"]:
        keep_in = np.sort(rng.choice(nbg, int(rng.integers(1, nbg)), replace=False))  # positions in the uset
        bsub = np.concatenate([np.arange(6 * g, 6 * g + 6) for g in keep_in])
    else:
        keep_in, bsub = np.arange(nbg), None
    if opt["ref"] == "id":
        gi = int(rng.choice(keep_in))  # (a reference grid outside `bsubset` is a KeyError in rbgeom_uset)
        ref, ref_xyz = ids[gi], case["st"]["xyz"][bgr_in[gi]]
    elif opt["ref"] == "vec":
        ref_xyz = rng.uniform(-1, 1, 3) * case["st"]["L"]
        ref = [float(x) for x in ref_xyz]
    else:
        ref, ref_xyz = [0, 0, 0], np.zeros(3)
    sc = rand_rot(rng) if opt["sccoord"] else None
    sc_arg = sc
    if sc is not None and opt.get("sc4x3"):
        # the CORD2R form: the s/c system has the axes A = sc.T (columns, in l/v basic); its origin does not matter
        A = sc.T
        O = rng.uniform(-1, 1, 3) * case["st"]["L"]
        sc_arg = np.vstack([[77, 1, 0], O, O + A[:, 2], O + A[:, 0]])
    # what the routine works on: grids in the order of `bset` (= perm), interface = the kept ones in that order
    keep_set = set(int(in_order[g]) for g in keep_in)
    out_grids = [case["bgrids"][g] for g in perm]
    out_keep = [k for k, g in enumerate(perm) if g in keep_set]
    return dict(case=case, uset=uset, bset=case["bseto"], bsub=bsub, keepg=keep_in, ref=ref, ref_xyz=np.asarray(ref_xyz, float),
                sccoord=sc, sc_arg=sc_arg, bgr=out_grids, out_keep=out_keep, ids=ids, reorder=reorder,
                out_ids=[ids[in_order.index(g)] for g in perm])


def net_effective(nb_):
    """the Craig-Bampton model in the DOF order of the routine's results: with reorder the b-set first (in `bset` order),
    then the modal DOF ascending; `bset`, `sub` accordingly"""
    case = nb_["case"]
    n, nb = case["n"], case["nb"]
    bset = np.asarray(nb_["bset"])
    if nb_["reorder"]:
        pv = np.concatenate([bset, np.setdiff1d(np.arange(n), bset)])
        M, K, bset2 = case["Min"][np.ix_(pv, pv)], case["Kin"][np.ix_(pv, pv)], np.arange(nb)
    else:
        M, K, bset2 = case["Min"], case["Kin"], bset
    sub = np.concatenate([np.arange(6 * k, 6 * k + 6) for k in nb_["out_keep"]]) if nb_["out_keep"] else np.zeros(0, int)
    return M, K, bset2, sub


def _tau(t):
    return tuple(t) if isinstance(t, list) else t


def run_net(nb_, conv, opt=None):
    from pyyeti import cb

    case = nb_["case"]
    opt = opt or {}
    if isinstance(conv, list):
        conv = tuple(conv)
    with warnings.catch_warnings(record=True) as wl:
        warnings.simplefilter("always")
        # an RBE3 on the translations of two grids cannot see the rotation about the line through them
        indep = 123456 if len(nb_["keepg"]) == 2 else opt.get("indep")
        out = cb.mk_net_drms(case["Min"].copy(), case["Kin"].copy(), nb_["bset"].copy(), bsubset=nb_["bsub"], uset=nb_["uset"],
                             ref=nb_["ref"], sccoord=nb_["sc_arg"], conv=conv, reorder=nb_["reorder"], g=opt.get("g", G0),
                             tau=_tau(opt.get("tau", "g")), rbe3_indep_dof=indep)
    grounding = any("grounding forces" in str(w.message) for w in wl)
    replaced = any("no l/v axis lines up" in str(w.message) for w in wl)
    return out, grounding, replaced


def net_request(nb_, opt):
    case = nb_["case"]
    n, nb = case["n"], case["nb"]
    sub = nb_["bsub"] if nb_["bsub"] is not None else np.arange(nb)
    tau = opt.get("tau", "g")
    tau = (tau, tau) if isinstance(tau, str) else tuple(tau)
    indep = 123456 if len(nb_["keepg"]) == 2 else opt.get("indep")
    parts = ["netfull", str(nb), str(len(sub)), str(n), conv_code(opt["conv"]), "1" if nb_["reorder"] else "0",
             ("1 " + bits(nb_["sccoord"])) if nb_["sccoord"] is not None else "0", bits([opt.get("g", G0)]), tau[0], tau[1],
             str(indep or 0), ints(nb_["bset"]), ints(sub), bits(nb_["uset"].loc[:, "x":"z"].values), bits(nb_["ref_xyz"]),
             bits(case["Min"]), bits(case["Kin"])]
    return " ".join(parts)


NET_FIELDS = (("ifltma_sc", 6, "n"), ("ifltmd_sc", 6, "nb"), ("ifltma_lv", 6, "n"), ("ifltmd_lv", 6, "nb"), ("ifatm_sc", 6, "n"),
              ("ifatm_lv", 6, "n"), ("cgatm_sc", 6, "n"), ("cgatm_lv", 6, "n"), ("cglfa", 14, "n"), ("cglfd", 14, "nb"))


def parse_net_reply(rep, n, nb, nbi):
    head, _, lab = rep.partition(" # ")
    t = head.split(" ")
    sizes = [(nm, r, {"n": n, "nb": nb}[c]) for nm, r, c in NET_FIELDS]
    nfl = sum(r * c for _, r, c in sizes) + 4 + 3 + 3 + 6 * nbi + 6 * nb + 2
    if len(t) != nfl + 4:
        raise Infra("C06 driver: netfull reply has %d tokens, expected %d" % (len(t), nfl + 4))
    v = unbits(t[:nfl])
    out, k = {}, 0
    for nm, r, c in sizes:
        out[nm] = v[k:k + r * c].reshape(r, c)
        k += r * c
    out["weight_sc"], out["height_sc"], out["weight_lv"], out["height_lv"] = v[k:k + 4]
    k += 4
    out["cg_sc"], out["cg_lv"] = v[k:k + 3], v[k + 3:k + 6]
    k += 6
    out["rb"] = v[k:k + 6 * nbi].reshape(nbi, 6)
    k += 6 * nbi
    out["rb_all"] = v[k:k + 6 * nb].reshape(nb, 6)
    k += 6 * nb
    out["rbe3_resid"], out["cg_resid"] = v[k:k + 2]
    ii = [int(x) for x in t[nfl:]]
    out["scaxial_sc"], out["scaxial_lv"], out["replace"], out["grounding"] = ii[0], ii[1], bool(ii[2]), bool(ii[3])
    labels = lab.split("|")
    out["ifltm_labels"], out["ifatm_labels"], out["cglf_labels"] = labels[:12], labels[12:24], labels[24:]
    return out


def _ax_labels(ax, s, kind):
    """the twelve-label blocks of the mk_net_drms docstring, written out independently: `kind` 'ifltm' or 'ifatm'"""
    xyz = "XYZ"
    out = []
    if kind == "ifltm":
        for i in range(3):
            out.append("I/F %s F%s %s" % ("Axial Frc  " if i == ax else "Lateral Frc", xyz[i], s))
        for i in range(3):
            out.append("I/F %s M%s %s" % ("Torsion    " if i == ax else "Moment     ", xyz[i], s))
    else:
        for i in range(3):
            out.append("I/F %s   %s %s (g)" % ("Axial  " if i == ax else "Lateral", xyz[i], s))
        for i in range(3):
            out.append("I/F %s R%s %s (r/s^2)" % ("Torsion " if i == ax else "Rotation", xyz[i], s))
    return out


def oracle_net(c):
    """mk_net_drms against the generator's ground truth: net force = resultant at the reference point of the boundary
    forces, rigid-body acceleration gives the rigid mass / unit interface acceleration / the cg motion, weight, height,
    unit conversion keeps the physics; the cg load factors are the cg accelerations in g and the moment-based ones match
    the shear-based ones for a force through the cg; labels; every option (reorder, tau, g, sccoord forms)"""
    out = []
    inp = {"kind": "netdrm", "spec": c["spec"], "opt": c["opt"]}
    nb_ = build_net(c)
    case, opt = nb_["case"], c["opt"]
    st = case["st"]
    tags = [t for t, on in (("conv", opt["conv"] is not None), ("bsubset", opt["sub"]), ("sccoord", opt["sccoord"]),
                            ("reorder", opt.get("reorder")), ("tau", opt.get("tau", "g") not in ("g", ["g", "g"]))) if on]
    fam = "mk_net_drms-" + ("-".join(tags) if tags else "plain")
    try:
        res, grounding, replaced = run_net(nb_, opt["conv"], opt)
    except Exception as e:  # noqa: BLE001
        _fail(out, fam + "-raises-" + type(e).__name__, "mk_net_drms raises on a well-formed model", inp, repr(e)[:200], "a result")
        return out
    if grounding and c["spec"]["nbg"] > 1:
        # (with one boundary grid Kbb is round-off only and the relative test of the routine has nothing to compare with)
        _fail(out, fam + "-grounding-warning", "mk_net_drms warns about grounding forces on a free model with exact geometry", inp,
              "RuntimeWarning", "no warning")
    n, nb = case["n"], case["nb"]
    M, K, bset, sub = net_effective(nb_)
    g0 = float(opt.get("g", G0))
    tau = opt.get("tau", "g")
    tau = (tau, tau) if isinstance(tau, str) else tuple(tau)
    cf = conv_factors(opt["conv"])
    lc, mc = cf if cf else (1.0, 1.0)
    # translational rows of ifatm / cgatm: in g, or back in the natural units of the model when tau is not 'g'
    usc = (1 / g0) if tau[0] == "g" else (1 / lc)
    ulv = (1 / g0) if tau[1] == "g" else 1.0
    # physical truth in s/c units: boundary rows of T (identity), generator geometry
    RB = np.vstack([(st["G"][6 * g:6 * g + 6, 6 * g:6 * g + 6]).T @ rb6(st["xyz"][g], nb_["ref_xyz"]) for g in nb_["bgr"]])  # nb x 6
    full = len(sub) == nb
    rng = np.random.default_rng(opt["seed"] + [5])
    acc = rng.standard_normal(n)
    Fb = M[bset[sub]] @ acc  # boundary forces on the interface subset for this acceleration
    want = RB[sub].T @ Fb
    T3 = nb_["sccoord"].T if nb_["sccoord"] is not None else np.eye(3)
    T6 = np.block([[T3, np.zeros((3, 3))], [np.zeros((3, 3)), T3]])  # Tsc2lv = blockdiag(sccoord, sccoord).T
    if not _close(res.Tsc2lv, T6, 1e-12, 1.0)[0]:
        _fail(out, fam + "-Tsc2lv", "Tsc2lv is not the transpose of the transform defined by `sccoord` (3x3 or CORD2R form)", inp,
              np.asarray(res.Tsc2lv).tolist(), T6.tolist())
    fsc = max(np.abs(want).max(), 1e-300)
    # s/c matrix: with conv it takes l/v-unit accelerations (DRM conversion), forces stay in s/c units
    Cd = np.ones(n)
    pos = {int(x): kk for kk, x in enumerate(bset)}
    for i in range(n):
        Cd[i] = ((1 / lc) if pos[i] % 6 < 3 else 1.0) if i in pos else 1 / (math.sqrt(mc) * lc)
    acc_lv = acc / Cd
    got = res.ifltma_sc @ (acc_lv if cf else acc)
    if not _close(got, want, 1e-9, fsc)[0]:
        _fail(out, fam + "-net-force", "ifltma_sc @ a is not the resultant at `ref` of the boundary forces Mcb[b] @ a", inp,
              got.tolist(), want.tolist())
    Dn = np.array([mc * lc] * 3 + [mc * lc * lc] * 3)
    got = res.ifltma_lv @ acc_lv
    if not _close(got, T6 @ (Dn * want), 1e-9, np.abs(Dn * want).max())[0]:
        _fail(out, fam + "-net-force-lv", "ifltma_lv @ a (l/v units and axes) is not the converted, rotated resultant", inp,
              got.tolist(), (T6 @ (Dn * want)).tolist())
    if not (np.array_equal(res.ifltma, np.vstack((res.ifltma_sc, res.ifltma_lv))) and np.array_equal(res.ifltmd, np.vstack((res.ifltmd_sc, res.ifltmd_lv)))
            and np.array_equal(res.ifatm, np.vstack((res.ifatm_sc, res.ifatm_lv)))):
        _fail(out, fam + "-stacking", "ifltma / ifltmd / ifatm are not the s/c rows followed by the l/v rows", inp, None, None)
    for nm in ("ifatm", "cgatm"):
        a_, b_ = getattr(res, nm + "_lv"), T6 @ getattr(res, nm + "_sc")
        b_[:3] *= ulv / usc
        if not _close(a_, b_, 1e-9, max(np.abs(b_).max(), 1e-300))[0]:
            _fail(out, fam + "-lv-rows", "%s_lv is not %s_sc turned by Tsc2lv (translational rows in the units `tau` asks for)" % (nm, nm), inp,
                  float(np.abs(a_ - b_).max()), 0.0)
    if full:
        ksc = max(np.abs(K).max(), 1e-300) * max(1.0, np.abs(RB).max())
        if np.abs(res.ifltmd_sc).max() > 1e-8 * ksc or np.abs(res.ifltmd_lv).max() > 1e-8 * ksc * mc * lc * lc * max(1.0, 1 / lc):
            _fail(out, fam + "-ifltmd-nonzero", "displacement-dependent net force of a free model is not zero", inp,
                  float(np.abs(res.ifltmd_sc).max()), 0.0)
        # rigid-body acceleration about `ref`: net force = rigid mass, net interface acceleration = identity, cg motion
        a_rb = np.zeros((n, 6))
        a_rb[bset] = RB
        mass6 = RB.T @ M[np.ix_(bset, bset)] @ RB
        got = res.ifltma_sc @ (a_rb / Cd[:, None] if cf else a_rb)
        if not _close(got, mass6, 1e-9)[0]:
            _fail(out, fam + "-rigid-mass", "ifltma_sc applied to rigid-body acceleration is not the 6x6 rigid mass about `ref`", inp,
                  got.tolist(), mass6.tolist())
        a_rb_lv = a_rb / Cd[:, None] / (np.array([lc] * 3 + [1.0] * 3) if cf else 1.0)
        # a_rb_lv: unit rigid accelerations in l/v units (1 length_lv/s^2, 1 rad/s^2) about the converted reference
        got = res.ifatm_sc @ a_rb_lv
        wantI = np.diag([usc] * 3 + [1.0] * 3)
        if not _close(got, wantI, 1e-8, 1.0)[0]:
            # F47 (fixed by 75ede6d): with a single boundary grid the RBE3 columns were written to columns 0..5
            single_off = nb == 6 and not np.array_equal(np.sort(bset), np.arange(6))
            _fail(out, "mk_net_drms-ifatm-single-grid-bset-not-leading" if single_off else fam + "-ifatm",
                  "net interface acceleration of a unit rigid-body acceleration is not the unit (in g, or in the model's own "
                  "units when tau is not 'g')", inp, got.tolist(), wantI.tolist())
        masses = st["masses"]
        if not c["spec"]["aniso"]:
            cg = (masses[:, None] * st["xyz"]).sum(axis=0) / masses.sum()
            dcg = (cg - nb_["ref_xyz"]) * lc
            if not _close(res.cg_sc, dcg, 1e-8, max(np.abs(dcg).max(), 1e-3 * st["L"] * lc))[0]:
                _fail(out, fam + "-cg", "cg_sc is not the mass-weighted centroid relative to `ref`", inp, np.asarray(res.cg_sc).tolist(), dcg.tolist())
            if not _close(res.cg_lv, T3 @ dcg, 1e-8, max(np.abs(dcg).max(), 1e-3 * st["L"] * lc))[0]:
                _fail(out, fam + "-cg-lv", "cg_lv is not the cg offset in l/v axes", inp, np.asarray(res.cg_lv).tolist(), (T3 @ dcg).tolist())
            wantcg = rb6(dcg, np.zeros(3))
            wantcg[:3] *= usc
            got = res.cgatm_sc @ a_rb_lv
            rot_ok = True
            if not _close(got[:3], wantcg[:3], 1e-8, max(usc, np.abs(wantcg[:3]).max()))[0]:
                _fail(out, fam + "-cgatm", "net cg acceleration of a unit rigid-body acceleration is not the motion of the cg", inp,
                      got.tolist(), wantcg.tolist())
            elif not _close(got[3:], wantcg[3:], 1e-8, 1.0)[0]:
                rot_ok = False
                # F46 (open): the rigid-body modes "relative to the cg" are formed about the point whose BASIC coordinates are
                # the cg offset from `ref`; that is the cg only when `ref` is the basic origin
                f2 = "mk_net_drms-cgatm-rotation-rows-ref-not-origin" if np.any(nb_["ref_xyz"] != 0) else fam + "-cgatm-rotation"
                _fail(out, f2, "rotational rows of cgatm_sc applied to a unit rigid-body acceleration are not [0 I]: the moments are "
                      "not taken about the cg", inp, got[3:].tolist(), wantcg[3:].tolist())
            wl, hl = masses.sum() * mc * g0, np.abs(dcg).max()
            if abs(res.weight_lv - wl) > 1e-9 * wl or abs(res.height_lv - hl) > 1e-8 * max(hl, 1e-3 * st["L"] * lc) or \
                    abs(res.weight_sc - wl / (mc * lc)) > 1e-9 * wl / (mc * lc) or abs(res.height_sc - hl / lc) > 1e-8 * max(hl, 1e-3 * st["L"] * lc) / lc:
                _fail(out, fam + "-weight-height", "weight / cg height", inp,
                      [float(res.weight_sc), float(res.height_sc), float(res.weight_lv), float(res.height_lv)],
                      [wl / (mc * lc), hl / lc, wl, hl])
            # --- axial direction, labels, cg load factors
            a_sc, a_lv = np.abs(dcg), np.abs(T3 @ dcg)
            srt_sc, srt_lv = np.sort(a_sc), np.sort(a_lv)
            decided = srt_sc[2] - srt_sc[1] > 1e-6 * srt_sc[2] and srt_lv[2] - srt_lv[1] > 1e-6 * srt_lv[2]
            aligned = abs(srt_sc[2] - srt_lv[2]) <= 1e-8 + 1e-5 * srt_lv[2]
            near_align = abs(abs(srt_sc[2] - srt_lv[2]) - (1e-8 + 1e-5 * srt_lv[2])) <= 1e-3 * (1e-8 + 1e-5 * srt_lv[2])
            if decided:
                ax_sc, ax_lv = int(np.argmax(a_sc)), int(np.argmax(a_lv))
                if (int(res.scaxial_sc), int(res.scaxial_lv)) != (ax_sc, ax_lv):
                    _fail(out, fam + "-scaxial", "scaxial_sc / scaxial_lv are not the directions of the largest cg offset component", inp,
                          [int(res.scaxial_sc), int(res.scaxial_lv)], [ax_sc, ax_lv])
                else:
                    want_l = _ax_labels(ax_sc, " sc", "ifltm") + _ax_labels(ax_lv, " lv", "ifltm")
                    if list(res.ifltm_labels) != want_l:
                        _fail(out, fam + "-labels", "ifltm_labels do not name the axial / lateral / torsion rows", inp, list(res.ifltm_labels), want_l)
                    want_l = _ax_labels(ax_sc, " sc", "ifatm") + _ax_labels(ax_lv, " lv", "ifatm")
                    for rows, t_ in ((range(0, 3), tau[0]), (range(6, 9), tau[1])):
                        if t_ != "g":
                            for i in rows:
                                want_l[i] = want_l[i].replace("(g)", "(%s/s^2)" % t_)
                    if list(res.ifatm_labels) != want_l:
                        _fail(out, fam + "-labels", "ifatm_labels do not name the rows / the translational units", inp, list(res.ifatm_labels), want_l)
                    if not near_align:
                        if replaced != (not aligned) or (("!lv" in res.cglf_labels[5]) != (not aligned)):
                            _fail(out, fam + "-cglf-replace", "the l/v rows of cglf are replaced (and labelled !lv) exactly when no l/v axis is the s/c axial one",
                                  inp, {"warning": replaced, "label": res.cglf_labels[5]}, {"replaced": not aligned})
                        # cg load factors: a force F through the cg (resultant F, moment cg x F about ref).  With the net force rows
                        # of the routine: rigid TRANSLATION acceleration a (l/v units) gives F = m a at the cg.
                        at = np.zeros(6)
                        at[:3] = np.random.default_rng(opt["seed"] + [9]).standard_normal(3)
                        a_t = a_rb_lv @ at  # rigid translation, l/v-unit components in s/c axes
                        for tag, axx, lo, Tm in (("sc", ax_sc, 0, np.eye(3)), ("lv", ax_lv, 5, T3)):
                            if tag == "lv" and not aligned:
                                continue
                            lf = res.cglfa[lo:lo + 5] @ a_t
                            acc3 = Tm @ at[:3] / g0  # cg acceleration in g, in the axes of this block
                            lat = [i for i in range(3) if i != axx]
                            # moment-based rows: the lateral force that, applied at the cg HEIGHT on the axial axis, gives the
                            # moment of the net force about `ref`: F_lat = -(e_ax x M) / h, per unit weight (for a cg on the axis
                            # these are the shear-based rows - "signs set to match the lateral directions")
                            d_blk = Tm @ dcg
                            lfm = -np.cross(np.eye(3)[axx], np.cross(d_blk, acc3)) / d_blk[axx]
                            want5 = np.array([acc3[axx], acc3[lat[0]], acc3[lat[1]], lfm[lat[0]], lfm[lat[1]]])
                            if not _close(lf, want5, 1e-7, max(np.abs(want5).max(), 1e-300))[0]:
                                _fail(out, fam + "-cglf", "cglfa rows (%s) applied to a rigid translation: axial / shear rows are not the cg acceleration in g "
                                      "or the moment-based rows are not -(e_ax x M)/(W h) in the lateral directions" % tag, inp,
                                      lf.tolist(), want5.tolist())
                        if not aligned and not np.array_equal(res.cglfa[5:10], res.cglfa[:5]):
                            _fail(out, fam + "-cglf-replace", "replaced l/v rows of cglfa are not the s/c rows", inp, None, None)
                        if np.abs(res.cglfa[10:]).max() != 0 or res.cglfa.shape[0] != 14 or res.cglfd.shape != (14, nb):
                            _fail(out, fam + "-cglf", "cglfa / cglfd must have 14 rows, the last four blank", inp, list(res.cglfa.shape), [14, n])
    return out


def rbmult_cases(rng, n):
    cases = []
    for i in range(n):
        nb = 6 * int(rng.integers(1, 4))
        nq = int(rng.choice([0, 0, 3, 7]))
        mode = ["first", "last", "vector", "full"][i % 4]
        nr = int(rng.integers(1, 9))
        nc = nb + nq
        drm = rng.standard_normal((nr, nc)) * 10 ** rng.uniform(-2, 3)
        if rng.random() < 0.3 and nr > 1:
            drm[int(rng.integers(0, nr))] = 0.0  # a NULL row
        rb = rng.standard_normal((nc if mode == "full" else nb, 6))
        bset = sorted(int(x) for x in rng.choice(nc, nb, replace=False)) if mode == "vector" else mode
        cases.append(dict(mode=mode, drm=drm, rb=rb, bset=bset, nb=nb, nc=nc))
    return cases


def run_rbmult(c):
    from pyyeti import cb

    f = io.StringIO()
    bset = np.array(c["bset"]) if isinstance(c["bset"], list) else ("first" if c["bset"] == "full" else c["bset"])
    with warnings.catch_warnings():
        warnings.simplefilter("ignore")
        return cb.rbmultchk(f, np.asarray(c["drm"], float), "DRM", np.asarray(c["rb"], float), bset=bset), f.getvalue()


def oracle_rbmult(seed):
    """the docstring use of rbmultchk: a displacement recovery matrix built from point locations, times the rigid-body
    modes of the boundary grid, is the rigid-body motion of the points; the printed extreme coordinates are theirs"""
    out = []
    rng = np.random.default_rng(seed)
    npts = int(rng.integers(1, 6))
    L = 10 ** rng.uniform(0, 2)
    pts = np.round(rng.uniform(-1, 1, (npts, 3)) * L, 3)
    bpt = np.round(rng.uniform(-1, 1, 3) * L, 3)
    nq = int(rng.choice([0, 4]))
    atm = np.vstack([rb6(p, bpt) for p in pts])  # motion of the points for unit motion of the boundary grid
    where = str(rng.choice(["first", "last"]))
    Q = rng.standard_normal((atm.shape[0], nq))
    drm = np.hstack([atm, Q]) if where == "first" else np.hstack([Q, atm])
    ref = np.round(rng.uniform(-1, 1, 3) * L, 3)
    rb = rb6(bpt, ref)  # rigid-body modes of the boundary grid about `ref`
    inp = {"kind": "rbmult", "seed": [int(x) for x in np.atleast_1d(seed)]}
    try:
        got, txt = run_rbmult(dict(drm=drm, rb=rb, bset=where))
    except Exception as e:  # noqa: BLE001
        _fail(out, "rbmultchk-raises-" + type(e).__name__, "rbmultchk raises on a displacement recovery matrix", inp, repr(e)[:200], "drm @ rb")
        return out
    want = np.vstack([rb6(p, ref) for p in pts])
    if not _close(got, want, 1e-12, max(1.0, np.abs(want).max()))[0]:
        _fail(out, "rbmultchk-b" + where, "DRM times rigid-body modes is not the rigid-body motion of the recovered points", inp,
              got.tolist(), want.tolist())
    i = txt.find("Minimums:")
    j = txt.find("Maximums:")
    rel = pts - ref
    if i < 0 or j < 0:
        _fail(out, "rbmultchk-coordinates", "extreme coordinate table missing for rows that follow the rigid-body pattern", inp, None, "table")
    else:
        mn = np.array([float(t) for t in re.findall(_NUM, txt[i:].split("\n")[0].split(":")[1])])
        mx = np.array([float(t) for t in re.findall(_NUM, txt[j:].split("\n")[0].split(":")[1])])
        if not (np.all(np.abs(mn - rel.min(axis=0)) <= 0.6e-4 + 1e-9 * L) and np.all(np.abs(mx - rel.max(axis=0)) <= 0.6e-4 + 1e-9 * L)):
            _fail(out, "rbmultchk-coordinates", "printed extreme coordinates are not those of the recovered points (relative to the "
                  "reference of the rigid-body modes)", inp, [mn.tolist(), mx.tolist()], [rel.min(axis=0).tolist(), rel.max(axis=0).tolist()])
    return out


# --- rbmultchk on exact (rational) data: scale of the rigid-body modes, coordinates, unit scales, flagged rows -------------

RBCHK_DEN = 400


def _rat_rot(rng, plain=False):
    """an orthogonal matrix with entries in {0, +-1, +-3/5, +-4/5}: a signed permutation (det +1), optionally times one
    3-4-5 rotation about a coordinate axis"""
    from fractions import Fraction as Fr

    perm = [int(x) for x in rng.permutation(3)]
    sg = [int(x) for x in rng.choice([-1, 1], 3)]
    P = [[Fr(sg[i]) if perm[i] == j else Fr(0) for j in range(3)] for i in range(3)]
    if plain or rng.random() < 0.4:
        return P
    c, s_ = [(Fr(3, 5), Fr(4, 5)), (Fr(4, 5), Fr(-3, 5)), (Fr(-3, 5), Fr(4, 5)), (Fr(0), Fr(1))][int(rng.integers(0, 4))]
    ax = int(rng.integers(0, 3))
    i, j = [(1, 2), (2, 0), (0, 1)][ax]
    R = [[Fr(int(a == b)) for b in range(3)] for a in range(3)]
    R[i][i], R[i][j], R[j][i], R[j][j] = c, -s_, s_, c
    return [[sum(P[a][k] * R[k][b] for k in range(3)) for b in range(3)] for a in range(3)]


def _fmat(rows):
    return np.array([[float(x) for x in r] for r in rows], float)


def rbchk_cases(rng, n, bad_safe=False):
    """data recovery matrices whose product with the rigid-body modes is known exactly: displacement rows of nodes
    (any local system, any output scale) recovered from one of the boundary grids, in any order, mixed with rotation
    rows, NULL rows, rows that act on modal DOF only and triples that are NOT rigid; everything a multiple of 1/400"""
    from fractions import Fraction as Fr

    cases = []
    for ci in range(n):
        ngb = int(rng.integers(1, 3))
        q4 = lambda: Fr(int(rng.integers(-40, 41)), 4)  # noqa: E731
        ref = [q4() for _ in range(3)]
        su0 = [Fr(1), Fr(1), Fr(2), Fr(1, 2)][int(rng.integers(0, 4))]
        # (the grids of the rigid-body modes may carry different unit scales: the routine takes the LARGEST window norm)
        sus = [su0 if (g == 0 or rng.random() < 0.6) else su0 * [Fr(2), Fr(1, 2)][int(rng.integers(0, 2))] for g in range(ngb)]
        bpts = [[q4() for _ in range(3)] for _ in range(ngb)]
        Qg = [_rat_rot(rng, plain=True) for _ in range(ngb)]

        def rb6f(p, r):
            d = [p[i] - r[i] for i in range(3)]
            X = [[Fr(0), d[2], -d[1]], [-d[2], Fr(0), d[0]], [d[1], -d[0], Fr(0)]]  # -skew(d)
            top = [[Fr(int(i == j)) for j in range(3)] + X[i] for i in range(3)]
            bot = [[Fr(0)] * 3 + [Fr(int(i == j)) for j in range(3)] for i in range(3)]
            return top + bot

        def mm(A, B):
            return [[sum(A[i][k] * B[k][j] for k in range(len(B))) for j in range(len(B[0]))] for i in range(len(A))]

        def blk(Q):
            return [[Q[i][j] if (i < 3 and j < 3) else (Q[i - 3][j - 3] if (i >= 3 and j >= 3) else Fr(0)) for j in range(6)] for i in range(6)]

        rb = []
        for g in range(ngb):
            rb += [[sus[g] * x for x in row] for row in mm(blk(Qg[g]), rb6f(bpts[g], ref))]
        su = max(sus)
        nb = 6 * ngb
        nq = int(rng.choice([0, 0, 3]))
        segs, rows_b, rows_q = [], [], []
        nseg = int(rng.integers(1, 7))
        for _ in range(nseg):
            kind = str(rng.choice(["node", "node", "node", "rot", "null", "modal", "bad"]))
            g = int(rng.integers(0, ngb))
            if kind in ("node", "bad", "rot"):
                p = [q4() for _ in range(3)]
                Qn = _rat_rot(rng)
                sn = [Fr(1), Fr(1), Fr(2), Fr(1, 2), Fr(4)][int(rng.integers(0, 5))]
                # motion of the point in its own axes for unit motion of the boundary grid in the grid's (scaled) axes
                full = mm(mm(blk(Qn), rb6f(p, bpts[g])), [[x / sus[g] for x in row] for row in [list(r) for r in zip(*blk(Qg[g]))]])
                sel = full[:3] if kind != "rot" else full[3:]
                sel = [[sn * x for x in row] for row in sel]
                if kind == "bad":
                    # not a rigid combination: an extra, NON-antisymmetric coupling of the translations to the rotations
                    e = Fr(int(rng.integers(8, 40)), 4) * (1 if rng.random() < 0.5 else -1)
                    E = [[Fr(0)] * 6 for _ in range(3)]
                    E[0][4] = e
                    E[1][3] = e
                    extra = mm(mm([[sn * x for x in r] for r in Qn], E), [[x / sus[g] for x in row] for row in [list(r) for r in zip(*blk(Qg[g]))]])
                    sel = [[sel[i][j] + extra[i][j] for j in range(6)] for i in range(3)]
                for r in sel:
                    row = [Fr(0)] * nb
                    row[6 * g:6 * g + 6] = r
                    rows_b.append(row)
                    rows_q.append([Fr(int(rng.integers(-8, 9)), 4) for _ in range(nq)])
                segs.append(dict(kind=kind, p=[float(p[i] - ref[i]) for i in range(3)], scale=float(sn / su)))
                if kind == "bad" and bad_safe:
                    # (a window that starts INSIDE a rejected triple could pair its last rows with the next node - the
                    # documented "can be tricked" case; a NULL row behind it keeps the generator's intent decidable)
                    rows_b.append([Fr(0)] * nb)
                    rows_q.append([Fr(0)] * nq)
                    segs.append(dict(kind="null"))
            elif kind == "null":
                rows_b.append([Fr(0)] * nb)
                rows_q.append([Fr(0)] * nq)
                segs.append(dict(kind=kind))
            else:
                if nq == 0:
                    continue
                rows_b.append([Fr(0)] * nb)
                rows_q.append([Fr(int(rng.integers(1, 9)), 4) for _ in range(nq)])
                segs.append(dict(kind=kind))
        if not rows_b:
            continue
        layout = ["first", "last", "vec"][ci % 3] if nq else "full"
        nc = nb + nq
        if layout == "first" or layout == "full":
            posb = list(range(nb))
        elif layout == "last":
            posb = list(range(nq, nc))
        else:
            posb = sorted(int(x) for x in rng.choice(nc, nb, replace=False))
        posq = [i for i in range(nc) if i not in posb]
        drm = []
        for rb_, rq_ in zip(rows_b, rows_q):
            row = [Fr(0)] * nc
            for kk, pos in enumerate(posb):
                row[pos] = rb_[kk]
            for kk, pos in enumerate(posq):
                row[pos] = rq_[kk]
            drm.append(row)
        den = RBCHK_DEN
        ok = all((x * den).denominator == 1 for r in drm + rb for x in r)
        if not ok:
            continue
        cases.append(dict(drm_i=[[int(x * den) for x in r] for r in drm], rb_i=[[int(x * den) for x in r] for r in rb], den=den,
                          layout=layout, posb=posb, nb=nb, nc=nc, segs=segs, su=float(su), mixed_su=len(set(sus)) > 1,
                          first_su_small=sus[0] < su))
    return cases


def run_rbchk(c, bset=None, rb=None, prtnull=False):
    from pyyeti import cb

    f = io.StringIO()
    drm = np.array(c["drm_i"], float) / c["den"]
    rbm = np.array(c["rb_i"], float) / c["den"] if rb is None else rb
    if bset is None:
        bset = {"first": "first", "last": "last", "full": "first"}.get(c["layout"], None)
        if bset is None:
            bset = np.array(c["posb"])
    with warnings.catch_warnings():
        warnings.simplefilter("ignore")
        out = cb.rbmultchk(f, drm, "DRM", rbm, bset=bset, prtnullrows=prtnull)
    return out, f.getvalue()


def rbchk_request(c, spec=None):
    spec = spec or {"first": "first", "last": "last", "full": "first", "vec": "vec"}[c["layout"]]
    nr = len(c["drm_i"])
    parts = ["rbchk", str(c["den"]), spec, str(nr), str(c["nc"]), str(len(c["rb_i"]))]
    if spec == "vec":
        parts.append(str(len(c["posb"])) + " " + ints(c["posb"]))
    parts.append(ints(c["drm_i"]))
    parts.append(ints(c["rb_i"]))
    return " ".join(parts)


def _q(tok):
    from fractions import Fraction as Fr

    return None if tok == "nan" else Fr(tok)


def parse_rbchk_reply(rep):
    sec = [x.strip() for x in rep.split("|")]
    head = sec[0].split()
    if head[0] == "err":
        return {"status": "err", "err": head[1]}
    if head[0] == "ok-borderline":
        return {"status": "borderline"}
    out = {"status": "ok", "s2": _q(head[1])}
    out["pv"] = [t == "1" for t in sec[1].split()]
    out["coords"] = [None if r.split()[0] == "nan" else [float(_q(t)) for t in r.split()] for r in sec[2].split(";")] if sec[2] else []
    out["us2"] = [None if t == "nan" else float(_q(t)) for t in sec[3].split()]
    out["extremes"] = None if sec[4] == "none" else [float(_q(t)) for t in sec[4].split()]
    out["null"] = [int(t) for t in sec[5].split()]
    out["model_scale"] = float(_q(sec[6]))
    out["drmrb"] = np.array([float(_q(t)) for t in sec[7].split()]).reshape(-1, 6) if sec[7] else np.zeros((0, 6))
    return out


def parse_rbmult_report(txt):
    """the tables of the rbmultchk report: printed rb scale, extreme coordinates, per row (coordinates or blank, unit
    scale, responses), NULL rows"""
    out = {"rows": {}, "null": None}
    m = re.search(r"rb scaling which is: (\S+)", txt)
    out["rbscale"] = float(m.group(1)) if m else None
    if "-- no coordinates detected --" in txt:
        out["extremes"] = None
    else:
        mn = re.search(r"Minimums:(.*)", txt)
        mx = re.search(r"Maximums:(.*)", txt)
        out["extremes"] = [float(t) for t in re.findall(_NUM, mn.group(1))] + [float(t) for t in re.findall(_NUM, mx.group(1))] if mn and mx else "missing"
    i = txt.find("* RB results:")
    j = txt.find("Absolute Maximums from")
    sect = txt[i:j]
    k = sect.find("------")
    for ln in sect[k:].split("\n")[1:]:
        v = re.findall(_NUM, ln)
        if len(v) == 11:
            out["rows"][int(v[0]) - 1] = dict(coords=[float(t) for t in v[1:4]], scale=float(v[4]), resp=[float(t) for t in v[5:]])
        elif len(v) == 7:
            out["rows"][int(v[0]) - 1] = dict(coords=None, scale=None, resp=[float(t) for t in v[1:]])
    if "There are no NULL rows in DRM." in txt:
        out["null"] = []
    else:
        i = txt.find("NULL rows in DRM:")
        if i >= 0:
            rows = []
            for ln in txt[i:].split("\n")[3:]:
                v = re.findall(r"^\s*(\d+)\s*$", ln)
                if v:
                    rows.append(int(v[0]) - 1)
                elif rows:
                    break
            out["null"] = rows
    return out


def oracle_rbchk(c):
    """rbmultchk on a data recovery matrix whose product with the rigid-body modes is known: every node is listed with its
    location (relative to the reference of the modes) and its unit scale, rotation / NULL / modal rows and triples that are
    not rigid are blank, the extreme coordinates are those of the nodes, the scale of the modes is printed"""
    out = []
    inp = {"kind": "rbchk", "case": {k: c[k] for k in ("drm_i", "rb_i", "den", "layout", "posb", "nb", "nc", "segs", "su")}}
    try:
        got, txt = run_rbchk(c, prtnull=True)
    except Exception as e:  # noqa: BLE001
        _fail(out, "rbmultchk-raises-" + type(e).__name__, "rbmultchk raises on a well-formed recovery matrix", inp, repr(e)[:200], "a report")
        return out
    rp = parse_rbmult_report(txt)
    if rp["rbscale"] is None or abs(rp["rbscale"] - c["su"]) > 1e-12 * c["su"]:
        _fail(out, "rbmultchk-rbscale", "printed scale of the rigid-body modes is not their unit scale", inp, rp["rbscale"], c["su"])
    i, pts = 0, []
    nr = len(c["drm_i"])
    if sorted(rp["rows"]) != list(range(nr)):
        _fail(out, "rbmultchk-table", "the result table (prtnullrows=True) does not list every row", inp, sorted(rp["rows"]), nr)
        return out
    for sg in c["segs"]:
        ln = 3 if sg["kind"] in ("node", "bad", "rot") else 1
        rows = [rp["rows"][i + t] for t in range(ln)]
        if sg["kind"] == "node":
            pts.append(sg["p"])
            for r in rows:
                if r["coords"] is None or not np.all(np.abs(np.array(r["coords"]) - np.array(sg["p"])) <= 0.6e-4) or \
                        abs(r["scale"] - sg["scale"]) > 1e-5 * sg["scale"]:
                    _fail(out, "rbmultchk-node-not-found", "rows of a node that follow the rigid-body pattern are not listed with the node's "
                          "location and unit scale", inp, r, {"coords": sg["p"], "scale": sg["scale"]})
                    break
        else:
            if any(r["coords"] is not None for r in rows):
                fam = "rbmultchk-nonrigid-not-flagged" if sg["kind"] == "bad" else "rbmultchk-coordinates-on-" + sg["kind"] + "-row"
                _fail(out, fam, "coordinates are printed on rows that are not the rigid-body displacement of a node (%s)" % sg["kind"], inp,
                      [r["coords"] for r in rows], "blank")
        i += ln
    if pts:
        want = np.concatenate([np.min(pts, axis=0), np.max(pts, axis=0)])
        if rp["extremes"] in (None, "missing") or not np.all(np.abs(np.array(rp["extremes"]) - want) <= 0.6e-4):
            _fail(out, "rbmultchk-extremes", "extreme coordinates are not those of the recovered nodes", inp, rp["extremes"], want.tolist())
    elif rp["extremes"] is not None:
        _fail(out, "rbmultchk-extremes", "extreme coordinates printed although no node was recovered", inp, rp["extremes"], None)
    want_null = [i for i, r in enumerate(c["drm_i"]) if not any(r)]
    if rp["null"] != want_null:
        _fail(out, "rbmultchk-null-rows", "list of NULL rows", inp, rp["null"], want_null)
    return out


# --- cb.cbcoordchk called directly ---------------------------------------------------------------------------------

def coordchk_cases(rng, n):
    """generated free structures handed to cb.cbcoordchk itself: b-set in any grid order, with / without modal DOF, the
    reference DOF = the six DOF of one grid, or a 3-2-1 set of translations spread over three grids with `rb_normalizer`"""
    cases = []
    tries = 0
    while len(cases) < n and tries < 6 * n:
        tries += 1
        spec = gen_spec(rng)
        spec.update(variant="valid", reorder=True, rbnorm=None, uref="origin", conv=None, em_filt=0,
                    kinds=[[0], [0, 1]][int(rng.integers(0, 2))])
        if rng.random() < 0.3:
            spec["nq"] = 0
        spec["gridperm"] = [int(x) for x in rng.permutation(spec["nbg"])]
        mode = "grid"
        if spec["nbg"] >= 3 and rng.random() < 0.5:
            mode = "3-2-1"
        cases.append(dict(spec=spec, mode=mode, seed=[int(x) for x in rng.integers(0, 2 ** 31, 2)]))
    return cases


def build_coordchk(c):
    from pyyeti.nastran import n2p

    spec = c["spec"]
    case = build_case(spec)
    rng = np.random.default_rng(c["seed"])
    perm = spec["gridperm"]
    bset = case["bseto"]  # grids in `perm` order
    nb = case["nb"]
    pos = case["pos_b"]
    normz = None
    if c["mode"] == "grid":
        g = int(rng.integers(0, spec["nbg"]))
        ref = pos[6 * g:6 * g + 6].copy()
        refgrids = [g]
    else:
        ga, gb, gc = [int(x) for x in rng.choice(spec["nbg"], 3, replace=False)]
        ref = np.array([pos[6 * ga], pos[6 * ga + 1], pos[6 * ga + 2], pos[6 * gb + int(rng.integers(0, 3))], pos[6 * gb + int(rng.integers(0, 3))],
                        pos[6 * gc + int(rng.integers(0, 3))]])
        if len(set(ref.tolist())) < 6:
            ref[4] = pos[6 * gb + ((int(ref[3] - pos[6 * gb]) + 1) % 3)]
        refgrids = [ga, gb, gc]
        # rb_normalizer: motion of the reference DOF for unit motion about the basic origin (docstring of cbcoordchk)
        ids = [10 * (i + 1) for i in range(spec["nbg"])]
        uset_b = make_uset(case["st"], [case["bgrids"][g] for g in perm], ids)  # in b-set order
        rbg = n2p.rbgeom_uset(uset_b, [0.0, 0.0, 0.0])
        where = {int(x): k for k, x in enumerate(bset)}
        normz = rbg[[where[int(r)] for r in ref]]
    return dict(case=case, bset=bset, ref=ref, normz=normz, refgrids=refgrids)


def run_coordchk(b):
    from pyyeti import cb

    f = io.StringIO()
    with warnings.catch_warnings():
        warnings.simplefilter("ignore")
        return cb.cbcoordchk(b["case"]["Kin"].copy(), np.array(b["bset"]), np.array(b["ref"]), verbose=False, outfile=f,
                             rb_normalizer=b["normz"])


def coordchk_request(b):
    case = b["case"]
    parts = ["coordchk", str(case["n"]), str(case["nb"]), ints(b["bset"]), ints(b["ref"]),
             ("1 " + bits(b["normz"])) if b["normz"] is not None else "0", bits(case["Kin"])]
    return " ".join(parts)


def oracle_coordchk(c):
    """cb.cbcoordchk on a free structure: the returned modes are rigid-body motion (K @ rbmodes = 0 with the rows where
    the matrix has them), identity (or the normalizer) on the reference DOF, coordinates = grid locations, check 'pass'"""
    out = []
    inp = {"kind": "coordchk", "spec": c["spec"], "mode": c["mode"], "seed": c["seed"]}
    b = build_coordchk(c)
    case = b["case"]
    st = case["st"]
    if b["normz"] is not None and np.linalg.cond(b["normz"]) > 1e6:
        return out
    fam = "cbcoordchk-" + c["mode"] + ("-no-modal-dof" if case["nq"] == 0 else "")
    try:
        r = run_coordchk(b)
    except Exception as e:  # noqa: BLE001
        _fail(out, fam + "-raises-" + type(e).__name__, "cbcoordchk raises on a free structure", inp, repr(e)[:200], "a result")
        return out
    n, nb = case["n"], case["nb"]
    K = case["Kin"]
    bset = np.asarray(b["bset"])
    # (scale of the terms that cancel in K @ RB: a single-grid interface without modal DOF has K = round-off)
    kmax = max(np.abs(K).max(), st["kscale"])
    sc = max(1.0, np.abs(r.rbmodes).max())
    if r.rbmodes.shape[0] != n:
        _fail(out, fam + "-rbmodes-rows", "rbmodes must have one row per DOF of K", inp, list(r.rbmodes.shape), [n, 6])
        return out
    # F67 (fixed): without modal DOF the modes came back in b-set order instead of the row order of K
    unsorted_noq = case["nq"] == 0 and not np.array_equal(bset, np.sort(bset))
    res = np.abs(K @ r.rbmodes).max() / (kmax * sc)
    if not res <= 1e-7:
        f2 = "cbcoordchk-no-modal-dof-unsorted-bset-modes-in-bset-order" if unsorted_noq else fam + "-not-rigid"
        _fail(out, f2, "K @ rbmodes is not zero: the returned stiffness-based modes are not rigid-body motion of the model "
              "(rows must follow the DOF order of K)", inp, float(res), "<= 1e-7 relative")
        return out
    want_ref = np.eye(6) if b["normz"] is None else b["normz"]
    if not _close(r.rbmodes[np.asarray(b["ref"])], want_ref, 1e-8, max(1.0, np.abs(want_ref).max()))[0]:
        _fail(out, fam + "-normalisation", "rbmodes on the reference DOF is not the identity / the normalizer", inp,
              r.rbmodes[np.asarray(b["ref"])].tolist(), want_ref.tolist())
    if r.refpoint_chk != "pass" and nb > 6:
        _fail(out, fam + "-refchk", "refpoint_chk fails on a free model with a statically determinate reference set", inp, r.refpoint_chk, "pass")
    perm = c["spec"]["gridperm"]
    xyz = st["xyz"][[case["bgrids"][g] for g in perm]]
    if c["mode"] == "grid":
        g0 = case["bgrids"][b["refgrids"][0]]
        want = (xyz - st["xyz"][g0]) @ st["frames"][g0]
    else:
        want = xyz
    if not _close(r.coords, want, 1e-7, max(1.0, np.abs(want).max()))[0] or not np.max(r.maxerr) <= 1e-7 * max(1.0, np.abs(want).max()):
        _fail(out, fam + "-coords", "coordinates derived from the stiffness are not the grid locations (relative to the reference grid in "
              "its axes, or to the basic origin with rb_normalizer)", inp, np.asarray(r.coords).tolist(), want.tolist())
    return out


def cbtf0_cases(rng, n):
    cases = []
    for i in range(n):
        nb = int(rng.choice([1, 3, 6, 12]))
        nq = 0 if i % 5 == 4 else int(rng.integers(1, 8))  # (no modal DOF: the branch repaired by 1c371b1 / ed802cc)
        nt = nb + nq
        A = rng.standard_normal((nt, nt))
        M = A @ A.T / nt + np.eye(nt)
        K = np.zeros((nt, nt))
        Bm = np.zeros((nt, nt))
        layout = ["first", "last", "mixed"][i % 3]
        pos_b = np.arange(nb) if layout == "first" else (np.arange(nq, nt) if layout == "last" else np.sort(rng.choice(nt, nb, replace=False)))
        pos_q = np.setdiff1d(np.arange(nt), pos_b)
        Cq = rng.standard_normal((nq, nq))
        K[np.ix_(pos_q, pos_q)] = (Cq @ Cq.T + nq * np.eye(nq)) * 10 ** rng.uniform(1, 4)
        Cb = rng.standard_normal((nb, nb))
        K[np.ix_(pos_b, pos_b)] = Cb @ Cb.T * 10 ** rng.uniform(1, 4)
        D = rng.standard_normal((nt, nt))
        Bm = D @ D.T * 0.05
        bset = pos_b.copy()
        if rng.random() < 0.4 or (nq == 0 and nb > 1):
            bset = rng.permutation(bset)
            if nq == 0 and nb > 1 and np.array_equal(bset, pos_b):
                bset = bset[::-1].copy()
        if nq == 0:
            layout = "noq"
        a = rng.standard_normal(nb)
        cases.append(dict(M=M, B=Bm, K=K, bset=[int(x) for x in bset], a=a, layout=layout,
                          freq=[0.0] if rng.random() < 0.5 else [0.0, float(rng.uniform(0.5, 5))]))
    return cases


def run_cbtf0(c):
    from pyyeti import cb

    with warnings.catch_warnings():
        warnings.simplefilter("ignore")
        return cb.cbtf(np.asarray(c["M"], float), np.asarray(c["B"], float), np.asarray(c["K"], float), np.asarray(c["a"], float),
                       np.asarray(c["freq"], float), np.array(c["bset"]))


def oracle_cbtf0(c):
    out = []
    M, K = np.asarray(c["M"], float), np.asarray(c["K"], float)
    bset = np.array(c["bset"])
    a = np.asarray(c["a"], float)
    inp = {"kind": "cbtf0", "M": M.tolist(), "B": np.asarray(c["B"]).tolist(), "K": K.tolist(), "bset": c["bset"], "a": a.tolist(),
           "freq": c["freq"], "layout": c["layout"]}
    try:
        tf = run_cbtf0(c)
    except Exception as e:  # noqa: BLE001
        _fail(out, "cbtf-static-raises-" + type(e).__name__, "cbtf raises at 0 Hz", inp, repr(e)[:200], "a result")
        return out
    qset = np.setdiff1d(np.arange(M.shape[0]), bset)
    frc = M[np.ix_(bset, bset)] @ a
    dq = -np.linalg.solve(K[np.ix_(qset, qset)], M[np.ix_(qset, bset)] @ a)
    imag = max(np.abs(np.imag(x)).max() for x in (tf.frc[:, 0], tf.d[:, 0], tf.a[:, 0]))
    ok = (_close(np.real(tf.frc[:, 0]), frc, 1e-9)[0] and _close(np.real(tf.d[qset, 0]), dq, 1e-8)[0]
          and np.abs(tf.d[bset, 0]).max() == 0 and imag <= 1e-12 * max(np.abs(frc).max(), 1e-300)
          and np.abs(tf.v[:, 0]).max() == 0 and np.abs(tf.a[qset, 0]).max(initial=0.0) <= 1e-12 * max(np.abs(a).max(), 1e-300)
          and tf.a.shape[0] == M.shape[0] and _close(np.real(tf.a[bset, 0]), a, 1e-14)[0])
    if not ok:
        fam0 = "cbtf-empty-qset-responses-in-bset-order" if (len(qset) == 0 and list(bset) != sorted(bset)) else "cbtf-static-limit-b" + c["layout"]
        _fail(out, fam0, "at 0 Hz the force is not Mbb a with the statically deflected modal DOF "
              "(d_q = -Kqq^-1 Mqb a, zero velocity, zero boundary displacement)", inp,
              {"frc": np.real(tf.frc[:, 0]).tolist(), "dq": np.real(tf.d[qset, 0]).tolist()}, {"frc": frc.tolist(), "dq": dq.tolist()})
    return out


# ---------------------------------------------------------------------------------------
# correspondence


def _corpus(ctx):
    path = os.path.join(ctx.verif, "corpus", "c06.json")
    if os.path.exists(path):
        return json.load(open(path))["cbcheck_specs"]
    return []


def cbcheck_specs(ctx, rng, n):
    specs = list(_corpus(ctx))
    tries = 0
    while len(specs) < n and tries < 10 * n:
        tries += 1
        spec = gen_spec(rng, ctx.thorough)
        r = rng.random()
        if r < 0.11:
            spec["variant"] = "grounded"
            spec["ground"] = float(10 ** rng.uniform(-2, 0))
        elif r < 0.19:
            spec["variant"] = "grounded1"
            spec["ground"] = float(10 ** rng.uniform(-2, 0))
        elif r < 0.32 and spec["nbg"] > 1:
            spec["variant"] = "perturbed"
            spec["shift"] = float(10 ** rng.uniform(-1.5, 0))
        if spec["variant"] != "perturbed" and spec["nbg"] < 4 and rng.random() < 0.4:
            spec = add_special_to_spec(spec, rng, SPECIALS[len(specs) % 3])
            if spec["special"] == "pinned" and rng.random() < 0.15:
                spec["brefgrid"] = spec["special_pos"]  # a reference DOF without stiffness: must raise RuntimeError
        specs.append(spec)
    return specs


def _bref_on_pinned(spec):
    return spec.get("special") == "pinned" and spec["brefgrid"] == spec["special_pos"]


def cbcheck_request(case, uset=None, bseto=None, reorder=None):
    spec = case["spec"]
    parts = ["cbcheck", str(case["n"]), str(case["nb"]), ints(bseto if bseto is not None else case["bseto"]), ints(case["bref"])]
    parts.append(conv_code(spec["conv"]))
    parts.append("1" if (spec["reorder"] if reorder is None else reorder) else "0")
    parts.append({None: "-1", True: "1", False: "0"}[spec["rbnorm"]])
    parts.append(bits([spec.get("em_filt", 0)]))
    if spec["uref"] == "id":
        parts.append("1 %d" % (6 * spec["brefgrid"]))
    else:
        parts.append("0 " + bits(case["uref_xyz"]))
    uvals = (uset if uset is not None else case["uset"]).loc[:, "x":"z"].values
    parts.append(str(uvals.shape[0]))
    parts.append(bits(uvals))
    parts.append(bits(case["Min"]))
    parts.append(bits(case["Kin"]))
    return " ".join(parts)


def parse_cbcheck_reply(rep, n, nb):
    t = rep.split(" ")
    if t[0] in ("raise-refpoint", "raise-singular", "raise-usetrows", "raise-notascending"):
        return {"chk": t[0]}
    if t[0] not in ("pass", "fail", "single"):
        raise Infra("C06 driver: unexpected cbcheck reply %r" % rep[:80])
    nq = n - nb
    ng = nb // 6
    shapes = (("m", (n, n)), ("k", (n, n)), ("rbs", (n, 6)), ("rbg", (nb, 6)), ("ms", (6, 6)),
              ("mg", (6, 6)), ("effmass", (nq, 6)), ("percent", (nq, 6)), ("frq", (nq,)),
              ("resid", (6, 6)), ("ds", (3,)), ("dg", (3,)), ("gyrs", (3,)), ("gyrg", (3,)), ("Is", (3, 3)),
              ("Ig", (3, 3)), ("rbfs", (n, 6)), ("Ss", (6, 6)), ("rbfg", (nb, 6)), ("Sg", (6, 6)),
              ("rsss", (ng, 3)), ("rssg", (ng, 3)), ("rots", (ng, 3)), ("rotg", (ng, 3)), ("coords", (ng, 3)),
              ("errs", (ng,)), ("vals", (6,)))
    nfl = sum(int(np.prod(sh)) for _, sh in shapes)
    v = unbits(t[1:1 + nfl])
    out, k = {"chk": t[0]}, 0
    for name, shape in shapes:
        sz = int(np.prod(shape))
        out[name] = v[k:k + sz].reshape(shape)
        k += sz
    tail = [int(x) for x in t[1 + nfl:]]
    if len(tail) < 5 or len(tail) != 5 + tail[1] + tail[2] + tail[3]:
        raise Infra("C06 driver: cbcheck reply has a malformed integer tail %r" % tail[:8])
    out["ntrim"], nnull, nml, npr = tail[:4]
    out["rbnorm"] = bool(tail[4])
    out["null"] = tail[5:5 + nnull]
    out["massless"] = tail[5 + nnull:5 + nnull + nml]
    out["printed"] = tail[5 + nnull + nml:]
    return out


def spec_branches(spec):
    br = ["nbg:%d" % min(spec["nbg"], 3), "layout:" + spec["layout"], "variant:" + spec["variant"],
          "conv:" + ("tuple" if isinstance(spec["conv"], list) else str(spec["conv"])),
          "uref:" + spec["uref"], "rbnorm:" + str(spec["rbnorm"]), "reorder:" + str(spec["reorder"])]
    p = spec["gridperm"]
    if p != sorted(p):
        inv = [p.index(i) for i in range(len(p))]
        br.append("gridperm:" + ("involution" if inv == p else "non-involution"))
    if spec["aniso"]:
        br.append("mass:unequal-translational")
    if any(k in (2, 3) for k in spec["kinds"]):
        br.append("cs:curvilinear-possible")
    if spec.get("em_filt", 0) > 0:
        br.append("em_filt:positive")
    if not spec["reorder"] and spec["layout"] != "first":
        br.append("reorder:False-bset-not-leading")
    if spec.get("special"):
        br.append("special:" + spec["special"])
        if spec["brefgrid"] == spec["special_pos"]:
            br.append("special:is-reference-grid")
    return br


def _tab_close(ctx, stream, inp, what, printed, want, half, rel=1e-8, scale=None):
    """a printed table against its values: |printed - want| <= half (half a unit of the last printed digit, with
    head-room) + rel * scale"""
    if printed is None:
        ctx.disagree(stream, inp, "%s not found in the report" % what, "a table of shape %s" % (np.shape(want),))
        return False
    printed, want = np.asarray(printed, float), np.asarray(want, float)
    if printed.shape != want.shape:
        ctx.disagree(stream, inp, {"what": what, "shape": list(printed.shape)}, {"shape": list(want.shape)})
        return False
    if want.size == 0:
        return True
    fin = np.isfinite(want)
    sc = scale if scale is not None else (np.abs(want[fin]).max() if fin.any() else 1.0)
    bad = fin & ~(np.abs(printed - np.where(fin, want, 0.0)) <= half + rel * sc)
    if bad.any():
        j = int(np.argmax(bad.ravel()))
        ctx.disagree(stream, inp, {"what": what, "index": j, "printed": float(printed.ravel()[j])},
                     {"value": float(want.ravel()[j])})
        return False
    return True


def compare_cbcheck(ctx, cmp, case, out, txt, mo):
    """everything cbcheck returns and prints against the Lean model's values (numeric, print precision for the report)"""
    spec = case["spec"]
    inp = {"spec": spec}
    rp = parse_report(txt)
    n, nb, nq = case["n"], case["nb"], case["nq"]
    ng = nb // 6
    cmp("cbcheck-m", "m", inp, out.m, mo["m"], None, 1e-12)
    cmp("cbcheck-k", "k", inp, out.k, mo["k"], None, 1e-12)
    want_bset = np.arange(nb) if spec["reorder"] else np.sort(case["bseto"])
    if not np.array_equal(out.bset, want_bset):
        ctx.disagree("cbcheck-bset", inp, out.bset.tolist(), want_bset.tolist())
    sc_rb = max(1.0, np.abs(mo["rbs"]).max())
    sc_g = max(1.0, np.abs(mo["rbg"]).max())
    cmp("cbcheck-rbg", "rbg", inp, out.rbg, mo["rbg"], sc_g)
    cmp("cbcheck-rbs", "rbs", inp, out.rbs, mo["rbs"], sc_rb)
    free = spec["variant"] not in ("grounded", "grounded1")
    if free:
        # eigen-solver specification: span(v[:, :6]) = null(K); tolerance of the shift-invert solve.  With massless /
        # null DOF this also ties the back expansion of _solve_eig (psi @ v on massless rows, zero on null rows)
        cmp("cbcheck-rbe", "rbe", inp, out.rbe, mo["rbs"], sc_rb, 1e-7)
    cmp("cbcheck-effmass", "effmass", inp, out.effmass.values, mo["effmass"], max(np.abs(np.diag(mo["mg"])).max(), 1e-300))
    if nq:
        with np.errstate(invalid="ignore", divide="ignore"):
            cmp("cbcheck-effmass", "effmass_percent", inp, out.effmass_percent.values, mo["percent"],
                max(100.0, np.nanmax(np.abs(mo["percent"]))))
    cmp("cbcheck-frq", "cb_frq", inp, out.cb_frq, mo["frq"])
    cmp("cbcheck-frq", "effmass index", inp, np.asarray(out.effmass.index, float), mo["frq"])
    kbbmax = max(np.abs(out.k[np.ix_(out.bset, out.bset)]).max(), 1e-300)
    if rp["refchk"] != mo["chk"]:
        margin = np.abs(mo["resid"]).max() / kbbmax
        if 1e-9 < margin < 1e-3:
            ctx.skip("refpoint_chk within a decade of its threshold")
        else:
            ctx.disagree("cbcheck-refchk", inp, rp["refchk"], mo["chk"])
    # --- zero-stiffness trimming (_cbcoordchk) and the two reductions of _solve_eig: which DOF (exact)
    zk_new = sorted(_positions_after(case, case["zero_k"]))
    if mo["ntrim"] != (len(zk_new) if nb > 6 else 0):
        ctx.disagree("cbcheck-trim", inp, {"zero-stiffness boundary DOF": zk_new}, {"model trimmed": mo["ntrim"]})
    if (rp["trim_null"] or []) != mo["null"]:
        ctx.disagree("cbcheck-trim", inp, {"printed null columns": rp["trim_null"]}, {"model": mo["null"]})
    if (rp["trim_massless"] or []) != mo["massless"]:
        ctx.disagree("cbcheck-trim", inp, {"printed massless DOF": rp["trim_massless"]}, {"model": mo["massless"]})
    if mo["ntrim"]:
        ctx.count("coordchk:zero-stiffness-trimmed")
    if mo["null"]:
        ctx.count("solve_eig:null-columns-trimmed")
    if mo["massless"]:
        ctx.count("solve_eig:massless-guyan-reduced")
    # --- the printed report (print precision; half a unit of the last digit with head-room)
    R = "cbcheck-report"
    kmx = max(np.abs(mo["k"]).max(), 1e-300)
    mmx = max(np.abs(mo["ms"]).max(), np.abs(mo["mg"]).max(), 1e-300)
    fin_s = bool(np.all(np.isfinite(mo["ms"])))
    _tab_close(ctx, R, inp, "6x6 stiffness mass", rp["mass_stiffness"], mo["ms"], 0.6e-4, 1e-8, mmx)
    _tab_close(ctx, R, inp, "6x6 geometry mass", rp["mass_geometry"], mo["mg"], 0.6e-4, 1e-8, mmx)
    for key, dm, gy, In in (("s", mo["ds"], mo["gyrs"], mo["Is"]), ("g", mo["dg"], mo["gyrg"], mo["Ig"])):
        nm = {"s": "stiffness", "g": "geometry"}[key]
        lsc = max(1.0, np.abs(dm[np.isfinite(dm)]).max(initial=0.0))
        _tab_close(ctx, R, inp, "printed cg (%s)" % key, rp["cg"].get(key), dm, 0.6e-6, 1e-8, lsc)
        _tab_close(ctx, R, inp, "radius of gyration (%s)" % key, rp["gyr"].get(key), gy, 0.6e-6, 1e-7,
                   max(1.0, np.abs(gy[np.isfinite(gy)]).max(initial=0.0)))
        _tab_close(ctx, R, inp, "inertia @ cg (%s)" % key, rp.get("inertia_" + nm), In, 0.6e-4, 1e-7, mmx)
    rbmx = max(1.0, np.abs(mo["rbs"]).max(), np.abs(mo["rbg"]).max())
    gtol = 1e-9 * kmx * rbmx
    _tab_close(ctx, R, inp, "K*RB (stiffness), boundary rows", rp.get("krb_stiffness"), mo["rbfs"][:nb], 0.6e-3, 1.0, gtol)
    _tab_close(ctx, R, inp, "K*RB (stiffness), modal rows", rp.get("krbq_stiffness"), mo["rbfs"][nb:], 0.6e-3, 1.0, gtol)
    _tab_close(ctx, R, inp, "K*RB (geometry)", rp.get("krb_geometry"), mo["rbfg"], 0.6e-3, 1.0, gtol)
    _tab_close(ctx, R, inp, "RB'*K*RB (stiffness)", rp["ground_stiffness"], mo["Ss"], 0.6e-3, 1.0, gtol * rbmx)
    _tab_close(ctx, R, inp, "RB'*K*RB (geometry)", rp["ground_geometry"], mo["Sg"], 0.6e-3, 1.0, gtol * rbmx)
    if rp.get("move_t") is not None and rp["move_t"].shape == (ng, 9):
        _tab_close(ctx, R, inp, "translation movement (stiffness)", rp["move_t"][:, :3], mo["rsss"], 0.6e-3, 1e-8, sc_rb)
        _tab_close(ctx, R, inp, "translation movement (geometry)", rp["move_t"][:, 3:6], mo["rssg"], 0.6e-3, 1e-8, sc_g)
        _tab_close(ctx, R, inp, "rotation movement (stiffness)", rp["move_r"][:, :3], mo["rots"], 0.6e-3, 1e-8, sc_rb)
        _tab_close(ctx, R, inp, "rotation movement (geometry)", rp["move_r"][:, 3:6], mo["rotg"], 0.6e-3, 1e-8, sc_g)
    else:
        ctx.disagree(R, inp, "movement check tables not found", "%d rows of 9 numbers" % ng)
    csc = max(1.0, np.abs(mo["coords"]).max())
    _tab_close(ctx, R, inp, "stiffness-based coordinates", rp.get("coords"), mo["coords"], 0.6e-2, 1e-8, csc)
    if rp.get("coord_err") is not None and len(rp["coord_err"]) == ng:
        # errors of a valid model are round-off (not comparable digit by digit): compare above 1e-9 * scale only
        big = np.abs(mo["errs"]) > 1e-7 * csc
        if not np.all(np.abs(rp["coord_err"] - mo["errs"])[big] <= 1e-3 * np.abs(mo["errs"])[big] + 1e-7 * csc) or \
                not np.all(np.abs(rp["coord_err"][~big]) <= 2e-7 * csc):
            ctx.disagree(R, inp, {"what": "coordinate errors", "printed": rp["coord_err"].tolist()}, mo["errs"].tolist())
        warn_model = int(np.sum(mo["errs"] > np.abs(mo["coords"]).max(axis=1) * 1e-4))
        near = np.any(np.abs(mo["errs"] - np.abs(mo["coords"]).max(axis=1) * 1e-4) <= 1e-3 * np.abs(mo["errs"]) + 1e-12 * csc)
        if rp["coord_warnings"] != warn_model and not near:
            ctx.disagree(R, inp, {"what": "pattern warnings", "printed": rp["coord_warnings"]}, warn_model)
    ids_model = [case["ids"][g] for g in (spec["gridperm"] if spec["reorder"] else range(spec["nbg"]))]
    if rp.get("coord_ids") != ids_model:
        ctx.disagree(R, inp, {"what": "ids of the coordinate table", "printed": rp.get("coord_ids")}, ids_model)
    # fixed-base table: mode number, frequency (3 decimals), percent (2 decimals), column totals
    if nq:
        emf = float(spec.get("em_filt", 0))
        pr = mo["printed"]
        with np.errstate(invalid="ignore"):
            near = emf > 0 and np.all(np.isfinite(mo["percent"])) and np.any(np.abs(mo["percent"] - emf) <= 1e-7 * max(emf, 1.0))
        if near:
            ctx.skip("a percent effective mass sits on the em_filt threshold")
        elif rp.get("em_percent") is None or rp["em_modes"] != [q + 1 for q in pr]:
            # which rows are printed (em_filt): exact
            ctx.disagree(R, inp, {"what": "effective mass table rows", "modes": rp.get("em_modes")}, [q + 1 for q in pr])
        elif np.all(np.isfinite(mo["percent"])):
            _tab_close(ctx, R, inp, "effective mass table: percent", rp["em_percent"], mo["percent"][pr], 0.6e-2, 1e-7, 100.0)
            _tab_close(ctx, R, inp, "effective mass table: frequency", rp["em_frq"], mo["frq"][pr], 0.6e-3, 1e-9)
            _tab_close(ctx, R, inp, "effective mass table: totals", rp["em_total"], mo["percent"].sum(axis=0), 0.6e-2, 1e-7, 100.0)
        if emf > 0 and ("Printing only the modes with at least %.1f%% effective" % emf) not in txt:
            ctx.disagree(R, inp, "the em_filt note is missing from the report", "Printing only the modes with at least %.1f%%" % emf)
        if emf > 0 and len(pr) < nq:
            ctx.count("em_filt:rows-dropped")
    elif not rp.get("no_modes_note"):
        ctx.disagree(R, inp, "report of a model without modal DOF lacks the no-modes note", "There are no modes ...")
    # matrix value checks (%g, 6 significant digits) on the matrices _solve_eig hands back
    for j, key in enumerate(("mqq_diag", "mqq_off", "kbb_max", "kbq_max", "kqq_off", "kqq_min")):
        got = rp["vals"].get(key)
        want = float(mo["vals"][j])
        if got is None:
            ctx.disagree(R, inp, "value check line %s not found" % key, want)
        elif not abs(got - want) <= 2e-5 * abs(want) + (1e-9 * kmx if key.startswith("k") else 1e-12):
            ctx.disagree(R, inp, {"what": "value check " + key, "printed": got}, want)
    ids_impl = [int(x) for x in out.uset.index.get_level_values("id")[::6]]
    if ids_impl != ids_model:
        ctx.disagree("cbcheck-uset-order", inp, ids_impl, ids_model)


def _positions_after(case, bdofs):
    """where the boundary DOF `bdofs` (indices into the physical boundary order of build_case) end up in cbcheck's
    output b-set: after reordering the b-set is listed grid by grid in `gridperm` order"""
    spec = case["spec"]
    perm = spec["gridperm"] if spec["reorder"] else list(range(spec["nbg"]))
    pos = {}
    for newg, g in enumerate(perm):
        for c in range(6):
            pos[6 * g + c] = 6 * newg + c
    return [pos[int(d)] for d in bdofs]


def correspondence(ctx):
    from pyyeti import cb
    from pyyeti.nastran import n2p

    drv = ctx.driver("C06")
    cmp = Cmp(ctx)
    req, post = [], []

    # --- A: cgmass ------------------------------------------------------------------
    rng = ctx.np_rng(1)
    cg_cases = cgmass_cases(ctx, rng, ctx.pick(400, 4000))
    for c in cg_cases:
        req.append("cgmass " + bits(c["m"]))
        req.append("princ " + bits(c["m"]))
    # --- B: rbgeom / rbmove ------------------------------------------------------------
    rng = ctx.np_rng(2)
    geo = []
    for i in range(ctx.pick(200, 2000)):
        ng = int(rng.integers(1, 7))
        L = 10 ** rng.uniform(-1, 3)
        grids = rng.uniform(-1, 1, (ng, 3)) * L
        if rng.random() < 0.4:
            idx = int(rng.integers(0, ng))
            ref_arg, ref = idx, grids[idx].copy()
        elif rng.random() < 0.2:
            ref_arg, ref = np.zeros(3), np.zeros(3)
        else:
            ref = rng.uniform(-1, 1, 3) * L
            ref_arg = ref.copy()
        new = rng.uniform(-1, 1, 3) * L
        rbin = rng.standard_normal((int(rng.integers(1, 9)), 6)) if rng.random() < 0.5 else None
        geo.append(dict(grids=grids, ref_arg=ref_arg, ref=ref, new=new, rbin=rbin))
        req.append("rbgeom %d %s %s" % (ng, bits(grids), bits(ref)))
        rb_in = n2p.rbgeom(grids, ref_arg) if rbin is None else rbin
        geo[-1]["rb_in"] = rb_in
        req.append("rbmove %d %s %s %s" % (rb_in.shape[0], bits(rb_in), bits(ref), bits(new)))
    # --- C: rbgeom_uset ------------------------------------------------------------------
    rng = ctx.np_rng(3)
    us_cases = uset_cases(ctx, rng, ctx.pick(250, 2500))
    for c in us_cases:
        u = c["uset"].loc[:, "x":"z"].values
        req.append("rbuset %d %s %s" % (len(c["xyz"]), bits(u), bits(c["ref"])))
    # --- D: cbreorder ----------------------------------------------------------------------
    rng = ctx.np_rng(4)
    ro_cases = reorder_cases(ctx, rng, ctx.pick(300, 3000))
    for c in ro_cases:
        req.append("pv %d %d %d %s" % (c["lt"], 1 if c["last"] else 0, len(c["b"]), ints(c["b"])))
    # --- E: cbconvert ------------------------------------------------------------------------
    rng = ctx.np_rng(5)
    cv_cases = conv_cases(ctx, rng, ctx.pick(150, 1500))
    for c in cv_cases:
        lc, mc = conv_factors(c["conv"])
        req.append("conv %d %d %d %s %d %s %s" % (1 if c["drm"] else 0, c["nr"], c["lt"], bits([lc, mc]),
                                                  len(c["b"]), ints(c["b"]), bits(c["M"])))
    # --- F: cbcheck on generated structures ---------------------------------------------------
    rng = ctx.np_rng(6)
    specs = cbcheck_specs(ctx, rng, ctx.pick(70, 500))
    cb_cases = []
    for spec in specs:
        case = build_case(spec)
        kbb = case["red"]["Kcb"][:case["nb"], :case["nb"]]
        if case["red"]["cond"] > 1e8 or abs(case["red"]["w"] - 1.0).min(initial=9.0) < 1e-3:
            ctx.skip("structure outside conditioning domain")
            continue
        if case["nb"] > 6 and not _bref_on_pinned(spec):
            r0 = 6 * spec["brefgrid"]
            oo = np.setdiff1d(np.setdiff1d(np.arange(case["nb"]), np.arange(r0, r0 + 6)), case["zero_k"])
            if len(oo) and np.linalg.cond(kbb[np.ix_(oo, oo)]) > 1e6:
                ctx.skip("koo of the boundary stiffness ill-conditioned (> 1e6)")
                continue
        if len(case["zero_m"]) > len(case["zero_k"]):
            zz = np.setdiff1d(case["zero_m"], case["zero_k"])
            if np.linalg.cond(case["red"]["Kcb"][np.ix_(zz, zz)]) > 1e8:
                ctx.skip("stiffness of the massless DOF ill-conditioned (> 1e8)")
                continue
        cb_cases.append(case)
        req.append(cbcheck_request(case))
    # the two input errors of the dispatch: a uset of the wrong size, reorder=False with a bseto that is not ascending
    err_cases = []
    for case in cb_cases:
        if len(err_cases) >= 6:
            break
        if case["spec"].get("special") or _bref_on_pinned(case["spec"]):
            continue
        if len(err_cases) % 2 == 0:
            bad_uset = n2p.addgrid(case["uset"], 9999, "b", 0, [0.0, 0.0, 0.0], 0)
            err_cases.append((case, "usetrows", dict(uset=bad_uset)))
            req.append(cbcheck_request(case, uset=bad_uset))
        elif case["spec"]["nbg"] > 1:
            pb = case["pos_b"]
            bad = np.concatenate([pb[6:], pb[:6]])  # grids rotated: not ascending
            err_cases.append((case, "notascending", dict(bseto=bad)))
            req.append(cbcheck_request(case, bseto=bad, reorder=False))

    # --- G: _solve_eig (null columns, Guyan reduction of massless DOF, back expansion) ---------------
    rng = ctx.np_rng(7)
    eg_cases = []
    for c in eig_cases(rng, ctx.pick(48, 400)):
        zz = np.ix_(c["massless"], c["massless"])
        if c["massless"] and np.linalg.cond(c["k"][zz]) > 1e6:
            ctx.skip("solve_eig: stiffness of the massless DOF ill-conditioned")
            continue
        try:
            ff, txt = run_solve_eig(c)
        except Exception as e:  # noqa: BLE001 - the model has no exception here
            ctx.disagree("solve_eig", {"bset": c["bset"], "null": c["null"], "massless": c["massless"]},
                         "exception %s: %s" % (type(e).__name__, str(e)[:200]), "a result")
            continue
        c["ff"], c["txt"] = ff, txt
        nt = c["k"].shape[0]
        eg_cases.append(c)
        req.append("solveeig %d %d %d %s %s %s %s" % (nt, len(c["bset"]), ff.v.shape[1], ints(c["bset"]), bits(c["m"]), bits(c["k"]),
                                                      bits(ff.v)))
    # --- H: rbdispchk ------------------------------------------------------------------------------
    rng = ctx.np_rng(8)
    rd_cases = rbdisp_cases(rng, ctx.pick(150, 1500))
    for c in rd_cases:
        req.append("rbdisp %d %s %s" % (len(c["kinds"]), bits([c["tol"]]), bits(c["rbdisp"])))
    # --- I: mk_net_drms (the whole routine) -----------------------------------------------------------------
    rng = ctx.np_rng(9)
    nt_cases = []
    for c in net_cases(rng, ctx.pick(36, 300)):
        nb_ = build_net(c)
        if nb_["case"]["red"]["cond"] > 1e8:
            ctx.skip("net drm: structure outside conditioning domain")
            continue
        c["nb_"] = nb_
        nt_cases.append(c)
        req.append(net_request(nb_, c["opt"]))
    # --- J: rbmultchk ----------------------------------------------------------------------------------
    rng = ctx.np_rng(10)
    rm_cases = rbmult_cases(rng, ctx.pick(80, 800))
    for c in rm_cases:
        bs = c["bset"] if isinstance(c["bset"], list) else (list(range(c["nb"])) if c["bset"] in ("first",) else
                                                            (list(range(c["nc"] - c["nb"], c["nc"])) if c["bset"] == "last" else
                                                             list(range(c["nc"]))))
        c["bs"] = bs
        req.append("rbmult %d %d %d %s %s %s" % (c["drm"].shape[0], c["nc"], len(bs), ints(bs), bits(c["drm"]), bits(c["rb"])))
    # --- M: rbmultchk on exact data (scale of the modes, coordinates, unit scales, flagged rows) ------------------
    rng = ctx.np_rng(13)
    rc_cases = rbchk_cases(rng, ctx.pick(90, 700))
    for c in rc_cases:
        req.append(rbchk_request(c))
    rc_err = []
    for c in rc_cases:
        if len(rc_err) >= 4:
            break
        if len(rc_err) % 2 == 0 and c["nc"] > c["nb"]:
            rc_err.append((c, "bsetString"))
            req.append(rbchk_request(c, spec="middle"))
        elif len(rc_err) % 2 == 1:
            z = dict(c, rb_i=[[0] + r[1:] for r in c["rb_i"]])
            rc_err.append((z, "scale"))
            req.append(rbchk_request(z))
    # --- N: cb.cbcoordchk directly --------------------------------------------------------------------------
    rng = ctx.np_rng(15)
    cc_cases = []
    for c in coordchk_cases(rng, ctx.pick(40, 300)):
        b = build_coordchk(c)
        if b["case"]["red"]["cond"] > 1e8 or (b["normz"] is not None and np.linalg.cond(b["normz"]) > 1e5):
            ctx.skip("cbcoordchk: structure / reference set outside conditioning domain")
            continue
        nbq = b["case"]["nb"]
        kbb = b["case"]["red"]["Kcb"][:nbq, :nbq]
        where = {int(x): kk for kk, x in enumerate(b["case"]["pos_b"])}
        oo = np.setdiff1d(np.arange(nbq), [where[int(r)] for r in b["ref"]])
        if len(oo) and np.linalg.cond(kbb[np.ix_(oo, oo)]) > 1e6:
            ctx.skip("cbcoordchk: koo ill-conditioned (> 1e6)")
            continue
        c["b"] = b
        cc_cases.append(c)
        req.append(coordchk_request(b))
    # --- K: cbtf at 0 Hz ----------------------------------------------------------------------------------
    rng = ctx.np_rng(11)
    c0_cases = cbtf0_cases(rng, ctx.pick(60, 600))
    for c in c0_cases:
        req.append("cbtf0 %d %d %s %s %s" % (c["M"].shape[0], len(c["bset"]), ints(c["bset"]), bits(c["a"]), bits(c["M"])))

    rep = drv.ask(req)
    if any(r == "bad-op" for r in rep):
        raise Infra("C06 driver rejected request %r" % req[rep.index("bad-op")][:60])
    k = 0
    # A
    for c in cg_cases:
        v = unbits(rep[k].split(" "))
        k += 1
        with warnings.catch_warnings():
            warnings.simplefilter("ignore")
            mcg, d, gyr, pgyr, I, pI = cb.cgmass(c["m"], all6=True)
        inp = {"m": c["m"].tolist()}
        sc = np.abs(c["m"]).max()
        cmp("cgmass", "mcg", inp, mcg, v[:36].reshape(6, 6), sc)
        cmp("cgmass", "dxyz", inp, d, v[36:39], max(np.abs(d).max(), 1e-30 + sc / np.abs(np.diag(c["m"])[:3]).max() * 0))
        cmp("cgmass", "gyr", inp, gyr, v[39:42])
        # principal axes: the model's own symmetric eigen-solver (Jacobi) with its specification residuals measured
        pv = unbits(rep[k].split(" ")[:8])
        asc = rep[k].split(" ")[8]
        k += 1
        isc = max(np.abs(I).max(), 1e-300)
        if not (pv[6] <= 1e-12 and pv[7] <= 1e-12 and asc == "1"):
            ctx.disagree("cgmass-eigh-spec", inp, {"VtV-1": float(pv[6]), "VtIV-diag(w) (relative)": float(pv[7]), "ascending": asc},
                         "<= 1e-12, ascending")
        cmp("cgmass-principal", "princ_I", inp, np.diag(pI), pv[:3], isc)
        cmp("cgmass-principal", "princ_gyr", inp, pgyr, pv[3:6], max(np.abs(pv[3:6]).max(), 1e-300), 1e-8)
        if np.abs(pI - np.diag(np.diag(pI))).max() != 0:
            ctx.disagree("cgmass-principal", inp, "princ_I is not diagonal", "np.diag(w)")
        mcg2, d2 = cb.cgmass(c["m"])
        if not (np.array_equal(mcg2, mcg) and np.array_equal(d2, d)):
            ctx.disagree("cgmass", inp, "all6=False differs from all6=True", "same values")
        ctx.case(("cgmass", rep[k - 2][:60]), nontrivial=bool(np.any(c["truth"]["d"] != 0)), branch="cgmass:" + c["kind"])
    # B
    for c in geo:
        rb = n2p.rbgeom(c["grids"], c["ref_arg"])
        inp = {"grids": c["grids"].tolist(), "ref": np.asarray(c["ref_arg"]).tolist(), "new": c["new"].tolist()}
        cmp("rbgeom", "rbgeom", inp, rb, unbits(rep[k].split(" ")).reshape(-1, 6), None, 1e-14)
        mv = n2p.rbmove(c["rb_in"], c["ref"], c["new"])
        cmp("rbmove", "rbmove", dict(inp, rb=c["rb_in"].tolist()), mv, unbits(rep[k + 1].split(" ")).reshape(-1, 6))
        k += 2
        ctx.case(("rbgeom", rep[k - 2][:60]), branch="rbgeom:ref-" + ("index" if np.size(c["ref_arg"]) == 1 else "vector"))
    # C
    for c in us_cases:
        rb = n2p.rbgeom_uset(c["uset"], c["ref_arg"])
        inp = {"uset_xyz": c["uset"].loc[:, "x":"z"].values.tolist(), "ref": np.asarray(c["ref_arg"]).tolist()}
        cmp("rbgeom_uset", "rb", inp, rb, unbits(rep[k].split(" ")).reshape(-1, 6), max(1.0, np.abs(rb).max()))
        k += 1
        ctx.case(("rbuset", rep[k - 1][:60]), nontrivial=any(t != "basic" for t in c["tags"]))
        for t in set(c["tags"]):
            ctx.count("uset:" + t)
    # D
    for c in ro_cases:
        got = run_reorder(c)
        want = [int(t) for t in rep[k].split(" ")] if rep[k] else []
        k += 1
        if got != want:
            ctx.disagree("cbreorder-pv", {k2: c[k2] for k2 in ("lt", "b", "last", "drm")}, got, want)
        br = "reorder:" + ("lq0" if c["lt"] == len(c["b"]) else ("last" if c["last"] else "first")) + ("-drm" if c["drm"] else "")
        ctx.case(("pv", c["lt"], tuple(c["b"]), c["last"], c["drm"]), nontrivial=c["b"] != list(range(len(c["b"]))), branch=br)
    # E
    for c in cv_cases:
        conv = tuple(c["conv"]) if isinstance(c["conv"], list) else c["conv"]
        got = cb.cbconvert(c["M"], np.array(c["b"]), conv, drm=c["drm"])
        want = unbits(rep[k].split(" ")).reshape(c["nr"], c["lt"])
        k += 1
        inp = {"b": c["b"], "conv": c["conv"], "drm": c["drm"], "lt": c["lt"]}
        with np.errstate(divide="ignore", invalid="ignore"):
            rel = np.abs(got - want) / np.maximum(np.abs(want), 1e-300)
        if got.shape != want.shape or not np.all(rel <= 1e-12):
            j = int(np.argmax(rel))
            ctx.disagree("cbconvert", dict(inp, M_entry=float(c["M"].ravel()[j]), index=j), float(got.ravel()[j]), float(want.ravel()[j]))
        ctx.case(("conv", c["lt"], tuple(c["b"]), str(c["conv"]), c["drm"]),
                 branch="convert:" + ("tuple" if isinstance(c["conv"], list) else c["conv"]) + ("-drm" if c["drm"] else ""))
        ngr_ = len(c["b"]) // 6
        if ngr_ > 1 and c["b"][:6] == [0, 1, 2, 3 * ngr_, 3 * ngr_ + 1, 3 * ngr_ + 2]:
            ctx.count("convert:component-major")
    # F
    for case in cb_cases:
        spec = case["spec"]
        mo = parse_cbcheck_reply(rep[k], case["n"], case["nb"])
        k += 1
        inp = {"spec": spec}
        ctx.case(("cbcheck", json.dumps(spec, sort_keys=True)), nontrivial=True)
        for b in spec_branches(spec):
            ctx.count(b)
        try:
            out, txt = run_cbcheck(case)
        except RuntimeError as e:
            if mo["chk"] == "raise-refpoint" and "reference point has DOF with zero stiffness" in str(e):
                ctx.count("cbcheck:raises-refpoint-zero-stiffness")
            else:
                ctx.disagree("cbcheck", inp, "exception RuntimeError: %s" % str(e)[:200], mo["chk"])
            continue
        except Exception as e:  # the model has no exception for these inputs
            ctx.disagree("cbcheck", inp, "exception %s: %s" % (type(e).__name__, str(e)[:200]), "a result")
            continue
        if mo["chk"].startswith("raise"):
            ctx.disagree("cbcheck", inp, "a result", mo["chk"])
            continue
        compare_cbcheck(ctx, cmp, case, out, txt, mo)
        ctx.sample({"cbcheck_spec": spec, "n": case["n"], "refchk": mo["chk"]}, cap=4)
    for case, kind, kw in err_cases:
        mo = parse_cbcheck_reply(rep[k], case["n"], case["nb"])
        k += 1
        inp = {"spec": case["spec"], "error-variant": kind}
        spec = case["spec"]
        conv = tuple(spec["conv"]) if isinstance(spec["conv"], list) else spec["conv"]
        got = "a result"
        try:
            with warnings.catch_warnings():
                warnings.simplefilter("ignore")
                cb.cbcheck(io.StringIO(), case["Min"].copy(), case["Kin"].copy(), kw.get("bseto", case["bseto"]).copy(), case["bref"].copy(),
                           kw.get("uset", case["uset"]), uref=case["uref"], conv=conv, rb_norm=spec["rbnorm"],
                           reorder=spec["reorder"] if kind == "usetrows" else False)
        except ValueError as e:
            got = "raise-usetrows" if "number of rows in `uset`" in str(e) else ("raise-notascending" if "ascending" in str(e) else "ValueError: " + str(e)[:80])
        except Exception as e:  # noqa: BLE001
            got = "%s: %s" % (type(e).__name__, str(e)[:80])
        if got != mo["chk"] or mo["chk"] != "raise-" + kind:
            ctx.disagree("cbcheck-input-errors", inp, got, mo["chk"])
        ctx.case(("cbcheck-error", kind, json.dumps(spec, sort_keys=True)), branch="cbcheck:raises-" + kind)
    # G
    worst_psi = 0.0
    for c in eg_cases:
        t = rep[k].split(" ")
        k += 1
        ff, txt = c["ff"], c["txt"]
        nt, p = c["k"].shape[0], ff.v.shape[1]
        n1, nx, nzm = int(t[0]), int(t[1]), int(t[2])
        ii = [int(x) for x in t[3:3 + n1 + nx + nzm + nx]]
        keep, xs, zs, bflag = ii[:n1], ii[n1:n1 + nx], ii[n1 + nx:n1 + nx + nzm], ii[n1 + nx + nzm:]
        fl = unbits(t[3 + n1 + 2 * nx + nzm:])
        kred, mred = fl[:nx * nx].reshape(nx, nx), fl[nx * nx:2 * nx * nx].reshape(nx, nx)
        off = 2 * nx * nx + nzm * nx
        presid, vexp = fl[off], fl[off + 1:].reshape(nt, p)
        inp = {"bset": c["bset"], "null": c["null"], "massless": c["massless"], "n": nt, "kind": c["kind"]}
        null_model = [i for i in range(nt) if i not in set(keep)]
        if (_pv_line(txt, "Trimming out null columns") or []) != null_model:
            ctx.disagree("solve_eig-null", inp, _pv_line(txt, "Trimming out null columns"), null_model)
        if (_pv_line(txt, "There are massless DOF with stiffness.") or []) != zs:
            ctx.disagree("solve_eig-massless", inp, _pv_line(txt, "There are massless DOF with stiffness."), zs)
        if [int(x) for x in ff.b] != bflag or [int(x) for x in ff.q] != [1 - x for x in bflag]:
            ctx.disagree("solve_eig-bq", inp, [int(x) for x in ff.b], bflag)
        ksc = np.abs(c["k"]).max()
        cmp("solve_eig-k", "reduced stiffness", inp, ff.k, kred, ksc)
        cmp("solve_eig-m", "reduced mass", inp, ff.m, mred, None, 1e-15)
        cmp("solve_eig-v", "back-expanded eigenvectors", inp, ff.v, vexp, max(np.abs(ff.v).max(), 1e-300))
        worst_psi = max(worst_psi, presid / ksc)
        if not presid <= 1e-9 * ksc:
            ctx.disagree("solve_eig-psi-spec", inp, {"residual of (-kzz) psi = kzx": float(presid)}, "<= 1e-9 * max|k|")
        ctx.case(("solveeig", k), branch="solve_eig-direct:" + c["kind"])
    ctx.extra["worst_psi_residual"] = worst_psi
    # H
    for c in rd_cases:
        nn = len(c["kinds"])
        coords, errs, txt = run_rbdisp(c)
        inp = {"rbdisp": c["rbdisp"].tolist(), "tol": c["tol"]}
        k += 1
        if rep[k - 1] == "raise-singular":
            ctx.disagree("rbdispchk", inp, "a result", "raise-singular")
            continue
        t = rep[k - 1].split(" ")
        mc_ = unbits(t[:3 * nn]).reshape(nn, 3)
        me = unbits(t[3 * nn:4 * nn])
        mw = [int(x) for x in t[4 * nn:]]
        cmp("rbdispchk-coords", "coords", inp, coords, mc_, max(c["L"], 1e-300))
        cmp("rbdispchk-errs", "errs", inp, errs, me, max(c["L"], 1e-300))
        warned = sorted((int(m) - 1) // 3 for m in re.findall(r"starting at row (\d+)", txt))
        thr = np.abs(mc_).max(axis=1) * c["tol"]
        if np.any((np.abs(me - thr) <= 1e-6 * thr + 1e-15 * c["L"]) & ~((me == 0) & (thr == 0))):
            ctx.skip("rbdispchk: a node sits on the warning threshold")
        elif warned != [j for j in range(nn) if mw[j]]:
            ctx.disagree("rbdispchk-warn", inp, warned, [j for j in range(nn) if mw[j]])
        for kd in set(x.rsplit("-", 1)[1] for x in c["kinds"]):
            ctx.count("rbdisp:" + kd)
        if warned:
            ctx.count("rbdisp:warned")
        ctx.case(("rbdisp", rep[k - 1][:60]), nontrivial=bool(np.any(c["d"] != 0)))
    # I
    worst_k = [0.0, 0.0]
    for c in nt_cases:
        nb_, opt = c["nb_"], c["opt"]
        case = nb_["case"]
        n, nb = case["n"], case["nb"]
        nbi = len(nb_["bsub"]) if nb_["bsub"] is not None else nb
        mo = parse_net_reply(rep[k], n, nb, nbi)
        k += 1
        inp = {"spec": c["spec"], "opt": opt}
        ctx.case(("netdrm", json.dumps(inp, sort_keys=True)))
        tau = opt.get("tau", "g")
        for t_, on in (("conv", opt["conv"] is not None), ("bsubset", opt["sub"]), ("sccoord", opt["sccoord"]), ("plain", True),
                       ("reorder", nb_["reorder"]), ("sccoord-4x3", opt.get("sc4x3")), ("tau-natural", tau not in ("g", ["g", "g"])),
                       ("g-other", opt.get("g", G0) != G0), ("indep-123456", opt.get("indep") == 123456 and nbi > 12),
                       ("single-grid", nbi == 6), ("conv-string", isinstance(opt["conv"], str)),
                       ("reorder-bsubset", nb_["reorder"] and opt["sub"])):
            if on:
                ctx.count("netdrm:" + t_)
        try:
            res, grounding, replaced = run_net(nb_, opt["conv"], opt)
        except Exception as e:  # noqa: BLE001
            ctx.disagree("mk_net_drms", inp, "exception %s: %s" % (type(e).__name__, str(e)[:200]), "a result")
            continue
        worst_k = [max(worst_k[0], mo["rbe3_resid"]), max(worst_k[1], mo["cg_resid"])]
        if not (mo["rbe3_resid"] <= 1e-9 and mo["cg_resid"] <= 1e-9):
            ctx.disagree("mk_net_drms-kernel-spec", inp, {"rbe3 normal equations": float(mo["rbe3_resid"]), "Mcg solve": float(mo["cg_resid"])},
                         "<= 1e-9 relative residual of the model's own kernels")
        ksc = max(np.abs(case["Kin"]).max(), 1e-300) * max(1.0, np.abs(res.rb_all).max())
        cf = conv_factors(opt["conv"])
        lc, mc = cf if cf else (1.0, 1.0)
        dsc = {"ifltmd_sc": ksc * max(1.0, 1 / lc), "ifltmd_lv": ksc * mc * lc * max(lc, 1.0), "cglfd": None}
        for nm, _, _ in NET_FIELDS:
            got = getattr(res, nm)
            sc_ = dsc.get(nm)
            if nm == "cglfd":
                # displacement-dependent load factors: moments (round-off of a free model) over weight * height
                sc_ = dsc["ifltmd_lv"] / max(abs(mo["weight_lv"] * mo["height_lv"]), 1e-300) + \
                    dsc["ifltmd_sc"] / max(abs(mo["weight_sc"] * mo["height_sc"]), 1e-300)
            cmp("mk_net_drms-" + nm, nm, inp, got, mo[nm], sc_, 1e-8 if nm.startswith(("ifatm", "cgatm", "cglf")) else None)
        for nm in ("weight_sc", "height_sc", "weight_lv", "height_lv", "cg_sc", "cg_lv"):
            cmp("mk_net_drms-" + nm, nm, inp, np.atleast_1d(getattr(res, nm)), np.atleast_1d(mo[nm]),
                max(np.abs(mo["cg_sc"]).max(), 1e-300) if nm.startswith(("cg", "height")) else None, 1e-8)
        cmp("mk_net_drms-rb", "rb", inp, res.rb, mo["rb"], max(1.0, np.abs(mo["rb_all"]).max()))
        cmp("mk_net_drms-rb", "rb_all", inp, res.rb_all, mo["rb_all"], max(1.0, np.abs(mo["rb_all"]).max()))
        T6 = np.eye(6)
        if nb_["sccoord"] is not None:
            T6 = np.block([[nb_["sccoord"].T, np.zeros((3, 3))], [np.zeros((3, 3)), nb_["sccoord"].T]])
        cmp("mk_net_drms-Tsc2lv", "Tsc2lv", inp, res.Tsc2lv, T6, 1.0, 1e-12)
        cmp("mk_net_drms-stack", "ifltma rows", inp, res.ifltma, np.vstack((res.ifltma_sc, res.ifltma_lv)), None, 1e-15)
        cmp("mk_net_drms-stack", "ifltmd rows", inp, res.ifltmd, np.vstack((res.ifltmd_sc, res.ifltmd_lv)), ksc, 1e-15)
        cmp("mk_net_drms-stack", "ifatm rows", inp, res.ifatm, np.vstack((res.ifatm_sc, res.ifatm_lv)), None, 1e-15)
        # decisions (exact unless the two candidates are within round-off of each other)
        a_sc, a_lv = np.sort(np.abs(mo["cg_sc"])), np.sort(np.abs(mo["cg_lv"]))
        tie = a_sc[2] - a_sc[1] <= 1e-9 * a_sc[2] or a_lv[2] - a_lv[1] <= 1e-9 * a_lv[2]
        thr = 1e-8 + 1e-5 * a_lv[2]
        edge = abs(abs(a_sc[2] - a_lv[2]) - thr) <= 1e-6 * thr
        if tie or edge:
            ctx.skip("mk_net_drms: axial direction / lv-row replacement within round-off of its threshold")
        else:
            if (int(res.scaxial_sc), int(res.scaxial_lv)) != (mo["scaxial_sc"], mo["scaxial_lv"]):
                ctx.disagree("mk_net_drms-scaxial", inp, [int(res.scaxial_sc), int(res.scaxial_lv)], [mo["scaxial_sc"], mo["scaxial_lv"]])
            if replaced != mo["replace"]:
                ctx.disagree("mk_net_drms-replace-lv", inp, replaced, mo["replace"])
            for nm in ("ifltm_labels", "ifatm_labels", "cglf_labels"):
                if list(getattr(res, nm)) != mo[nm]:
                    ctx.disagree("mk_net_drms-labels", inp, {nm: list(getattr(res, nm))}, mo[nm])
            if mo["replace"]:
                ctx.count("netdrm:lv-rows-replaced")
            ctx.count("netdrm:axial-%d" % mo["scaxial_sc"])
        gmargin = np.abs(case["Kin"][np.ix_(nb_["bset"], nb_["bset"])] @ res.rb_all[:, :]).max() if not nb_["reorder"] and cf is None else None
        if grounding != mo["grounding"]:
            if gmargin is not None and gmargin > 0 and abs(gmargin / (np.abs(case["Kin"][np.ix_(nb_["bset"], nb_["bset"])]).max() * 1e-8) - 1) < 1e-3:
                ctx.skip("mk_net_drms: grounding warning on its threshold")
            elif c["spec"]["nbg"] == 1:
                ctx.skip("mk_net_drms: grounding test of a single-grid interface compares round-off with round-off")
            else:
                ctx.disagree("mk_net_drms-grounding-warning", inp, grounding, mo["grounding"])
    ctx.extra["worst_net_kernel_residuals"] = worst_k
    # J
    for c in rm_cases:
        got, _ = run_rbmult(c)
        want = unbits(rep[k].split(" ")).reshape(-1, 6)
        k += 1
        cmp("rbmultchk", "drmrb", {"mode": c["mode"], "bset": c["bs"], "drm": c["drm"].tolist(), "rb": c["rb"].tolist()}, got, want,
            None, 1e-12)
        ctx.case(("rbmult", rep[k - 1][:60]), branch="rbmult:" + c["mode"])
    # M
    for c in rc_cases:
        mo = parse_rbchk_reply(rep[k])
        k += 1
        inp = {"drm_i": c["drm_i"], "rb_i": c["rb_i"], "den": c["den"], "layout": c["layout"], "posb": c["posb"]}
        ctx.case(("rbchk", json.dumps(inp)), branch="rbchk:layout-" + c["layout"])
        for kd in set(sg["kind"] for sg in c["segs"]):
            ctx.count("rbchk:" + kd)
        if c.get("first_su_small"):
            ctx.count("rbchk:first-grid-not-the-largest-scale")
        try:
            got, txt = run_rbchk(c)
        except Exception as e:  # noqa: BLE001
            ctx.disagree("rbmultchk-exact", inp, "exception %s: %s" % (type(e).__name__, str(e)[:200]), mo["status"])
            continue
        if mo["status"] == "borderline":
            ctx.skip("rbmultchk: a comparison of find_xyz_triples is within 1e-9 of its threshold")
            continue
        if mo["status"] != "ok":
            ctx.disagree("rbmultchk-exact", inp, "a result", mo)
            continue
        sc = max(np.abs(mo["drmrb"]).max(), 1e-300)
        cmp("rbmultchk-exact", "drmrb", inp, got, mo["drmrb"], sc, 1e-12)
        rp = parse_rbmult_report(txt)
        if rp["rbscale"] is None or abs(rp["rbscale"] - math.sqrt(mo["s2"])) > 1e-12 * math.sqrt(mo["s2"]):
            ctx.disagree("rbmultchk-rbscale", inp, rp["rbscale"], math.sqrt(mo["s2"]))
        nr = len(c["drm_i"])
        null = mo["null"]
        if rp["null"] != null:
            ctx.disagree("rbmultchk-null-rows", inp, rp["null"], null)
        shown = [i for i in range(nr) if i not in null] if (null and len(null) < nr) else (list(range(nr)) if not null else [])
        if sorted(rp["rows"]) != shown:
            ctx.disagree("rbmultchk-table-rows", inp, sorted(rp["rows"]), shown)
        else:
            csc = max(1.0, mo["model_scale"])
            for i in shown:
                r, mc_ = rp["rows"][i], mo["coords"][i]
                if (r["coords"] is None) != (mc_ is None):
                    ctx.disagree("rbmultchk-triple-detection", inp, {"row": i, "printed coordinates": r["coords"]}, {"model": mc_})
                    break
                if mc_ is not None:
                    if not np.all(np.abs(np.array(r["coords"]) - np.array(mc_)) <= 0.6e-4 + 1e-9 * csc):
                        ctx.disagree("rbmultchk-coordinates", inp, {"row": i, "printed": r["coords"]}, mc_)
                        break
                    us = math.sqrt(mo["us2"][i])
                    if abs(r["scale"] - us) > 0.7e-5 * us:
                        ctx.disagree("rbmultchk-unit-scale", inp, {"row": i, "printed": r["scale"]}, us)
                        break
                if not np.all(np.abs(np.array(r["resp"]) - mo["drmrb"][i]) <= 0.6e-3 + 1e-9 * sc):
                    ctx.disagree("rbmultchk-responses", inp, {"row": i, "printed": r["resp"]}, mo["drmrb"][i].tolist())
                    break
        if mo["extremes"] is None:
            if rp["extremes"] is not None:
                ctx.disagree("rbmultchk-extremes", inp, rp["extremes"], "no coordinates detected")
        elif rp["extremes"] in (None, "missing") or not np.all(np.abs(np.array(rp["extremes"]) - np.array(mo["extremes"])) <= 0.6e-4 + 1e-9 * max(1.0, mo["model_scale"])):
            ctx.disagree("rbmultchk-extremes", inp, rp["extremes"], mo["extremes"])
        # a non-rigid triple must be blank; a node must be found (against the generator's intent, exact rule = the model)
        rowi = 0
        for sg in c["segs"]:
            ln = 3 if sg["kind"] in ("node", "bad", "rot") else 1
            if sg["kind"] == "bad" and all(mo["coords"][rowi + t] is None for t in range(3)):
                ctx.count("rbchk:flagged-nonrigid")
            if sg["kind"] == "node" and all(mo["coords"][rowi + t] is not None for t in range(3)):
                ctx.count("rbchk:node-found")
            rowi += ln
    for c, kind in rc_err:
        mo = parse_rbchk_reply(rep[k])
        k += 1
        inp = {"drm_i": c["drm_i"], "rb_i": c["rb_i"], "den": c["den"], "error-variant": kind}
        try:
            run_rbchk(c, bset="middle" if kind == "bsetString" else None)
            got = "a result"
        except ValueError as e:
            got = "bsetString" if "invalid `bset` string" in str(e) else ("scale" if "failed to get scale" in str(e) else "ValueError: " + str(e)[:60])
        except Exception as e:  # noqa: BLE001
            got = "%s: %s" % (type(e).__name__, str(e)[:60])
        if mo.get("err") != kind or got != kind:
            ctx.disagree("rbmultchk-errors", inp, got, mo)
        ctx.case(("rbchk-error", kind, json.dumps(inp)[:200]), branch="rbchk:err-" + kind)
    # N
    for c in cc_cases:
        b = c["b"]
        case = b["case"]
        n, nb = case["n"], case["nb"]
        t = rep[k].split(" ")
        k += 1
        inp = {"spec": c["spec"], "mode": c["mode"], "seed": c["seed"]}
        ctx.case(("coordchk", json.dumps(inp, sort_keys=True)), branch="coordchk:" + c["mode"])
        if case["nq"] == 0:
            ctx.count("coordchk:no-modal-dof")
        if not np.array_equal(b["bset"], np.sort(b["bset"])):
            ctx.count("coordchk:bset-unsorted")
        try:
            r = run_coordchk(b)
        except Exception as e:  # noqa: BLE001
            ctx.disagree("cbcoordchk", inp, "exception %s: %s" % (type(e).__name__, str(e)[:200]), t[0])
            continue
        if t[0].startswith("raise"):
            ctx.disagree("cbcoordchk", inp, "a result", t[0])
            continue
        nrows = int(t[1])
        ng = nb // 6
        v = unbits(t[2:2 + 6 * nrows + 3 * ng + ng])
        rbm = v[:6 * nrows].reshape(nrows, 6)
        co = v[6 * nrows:6 * nrows + 3 * ng].reshape(ng, 3)
        er = v[6 * nrows + 3 * ng:]
        sc = max(1.0, np.abs(rbm).max())
        cmp("cbcoordchk-rbmodes", "rbmodes", inp, r.rbmodes, rbm, sc)
        cmp("cbcoordchk-coords", "coords", inp, r.coords, co, max(1.0, np.abs(co).max()))
        # (`maxerr` is the vector of pattern errors per node, as rbdispchk returns it)
        cmp("cbcoordchk-maxerr", "maxerr", inp, np.atleast_1d(r.maxerr), er, max(1.0, np.abs(co).max()))
        want_chk = "pass" if t[0] == "single" else t[0]
        if r.refpoint_chk != want_chk:
            ctx.disagree("cbcoordchk-refchk", inp, r.refpoint_chk, t[0])
    # K
    for c in c0_cases:
        tf = run_cbtf0(c)
        nb, nt = len(c["bset"]), c["M"].shape[0]
        v = unbits(rep[k].split(" "))
        k += 1
        frc, rhs = v[:nb], v[nb:]
        bset = np.array(c["bset"])
        qset = np.setdiff1d(np.arange(nt), bset)
        inp = {"bset": c["bset"], "layout": c["layout"], "freq": c["freq"], "a": c["a"].tolist(), "M": c["M"].tolist(), "K": c["K"].tolist()}
        cmp("cbtf-static-frc", "frc at 0 Hz", inp, np.real(tf.frc[:, 0]), frc)
        # specification of fsolve at 0 Hz: Kqq dq = rhs (the harness solves the model's right-hand side)
        dq = np.linalg.solve(c["K"][np.ix_(qset, qset)], rhs)
        cmp("cbtf-static-dq", "modal displacement at 0 Hz", inp, np.real(tf.d[qset, 0]), dq)
        if np.abs(tf.d[bset, 0]).max() != 0 or np.abs(tf.v[:, 0]).max() != 0 or np.abs(np.imag(tf.frc[:, 0])).max() > 1e-12 * np.abs(frc).max():
            ctx.disagree("cbtf-static-zero", inp, "non-zero boundary displacement / velocity / imaginary force at 0 Hz", "zero")
        # responses are in MODEL order (also without modal DOF, fix ed802cc): the b-set rows of `a` are the enforced input
        if tf.a.shape[0] != nt or not np.array_equal(np.real(tf.a[bset, 0]), np.asarray(c["a"], float)):
            ctx.disagree("cbtf-static-model-order", inp, {"a[bset]": np.real(tf.a[:, 0]).tolist()}, {"a": np.asarray(c["a"]).tolist()})
        ctx.case(("cbtf0", rep[k - 1][:60]), branch="cbtf0:b" + c["layout"] + ("-permuted" if c["bset"] != sorted(c["bset"]) else ""))
    if k != len(rep):
        raise Infra("C06: %d replies consumed of %d" % (k, len(rep)))
    ctx.extra["worst_relative_difference"] = cmp.worst
    ctx.require_branches([
        "cgmass:doc-unequal", "cgmass:rigid-equal", "rbgeom:ref-index", "rbgeom:ref-vector",
        "uset:rect", "uset:cyl", "uset:sph", "uset:basic", "uset:cyl-on-axis", "uset:sph-on-axis",
        "reorder:first", "reorder:last", "reorder:lq0", "reorder:first-drm", "reorder:last-drm",
        "convert:m2e", "convert:e2m", "convert:tuple", "convert:tuple-drm", "convert:component-major",
        "nbg:1", "nbg:2", "nbg:3", "layout:first", "layout:last", "layout:mixed", "variant:valid",
        "variant:grounded", "variant:perturbed", "conv:None", "conv:m2e", "conv:e2m", "conv:tuple",
        "uref:id", "uref:vec", "uref:origin", "rbnorm:None", "rbnorm:True", "rbnorm:False",
        "reorder:True", "reorder:False", "gridperm:non-involution", "mass:unequal-translational",
        # extension round
        "variant:grounded1", "special:massless6", "special:massless-rot", "special:pinned",
        "coordchk:zero-stiffness-trimmed", "solve_eig:null-columns-trimmed", "solve_eig:massless-guyan-reduced",
        "cbcheck:raises-refpoint-zero-stiffness", "cbcheck:raises-usetrows", "cbcheck:raises-notascending",
        "em_filt:positive", "em_filt:rows-dropped", "reorder:False-bset-not-leading",
        "solve_eig-direct:none", "solve_eig-direct:null", "solve_eig-direct:massless", "solve_eig-direct:both",
        "rbdisp:exact", "rbdisp:small", "rbdisp:large", "rbdisp:warned",
        "netdrm:plain", "netdrm:conv", "netdrm:bsubset", "netdrm:sccoord", "netdrm:reorder", "netdrm:sccoord-4x3",
        "netdrm:tau-natural", "netdrm:g-other", "netdrm:single-grid", "netdrm:conv-string", "netdrm:axial-0", "netdrm:axial-1",
        "netdrm:axial-2",
        "rbmult:first", "rbmult:last", "rbmult:vector", "rbmult:full",
        "coordchk:grid", "coordchk:3-2-1", "coordchk:no-modal-dof", "coordchk:bset-unsorted",
        "rbchk:first-grid-not-the-largest-scale", "rbchk:layout-first", "rbchk:layout-last", "rbchk:layout-vec", "rbchk:layout-full", "rbchk:node", "rbchk:rot", "rbchk:null",
        "rbchk:modal", "rbchk:bad", "rbchk:flagged-nonrigid", "rbchk:node-found", "rbchk:err-bsetString", "rbchk:err-scale",
        "cbtf0:bfirst", "cbtf0:blast", "cbtf0:bmixed", "cbtf0:bnoq-permuted",
    ])


# ---------------------------------------------------------------------------------------
# model-free oracle: the property restated on the API, against the generator's ground truth


def _fail(out, family, what, inp, observed, required):
    out.append({"family": family, "what": what, "input": inp, "observed": observed, "required": required})


def _close(a, b, tol, scale=None):
    a, b = np.asarray(a, float), np.asarray(b, float)
    if a.shape != b.shape:
        return False, float("inf")
    if a.size == 0:
        return True, 0.0
    sc = scale if scale is not None else max(np.abs(b).max(), 1e-300)
    e = float(np.abs(a - b).max() / sc) if np.all(np.isfinite(a)) else float("inf")
    return e <= tol, e


def oracle_cgmass(c):
    from pyyeti import cb

    out = []
    m = np.asarray(c["m"], float)
    mx, my, mz = c["masses"]
    d, J = np.asarray(c["d"], float), np.asarray(c["J"], float)
    fam = "cgmass-" + ("unequal-translational-masses" if not (mx == my == mz) else "equal-masses")
    inp = {"kind": "cgmass", "m": m.tolist(), "masses": [mx, my, mz], "d": d.tolist(), "J": J.tolist()}
    with warnings.catch_warnings():
        warnings.simplefilter("ignore")
        mcg, dd, gyr, pgyr, I, pI = cb.cgmass(m, all6=True)
    want = np.zeros((6, 6))
    want[:3, :3] = np.diag([mx, my, mz])
    want[3:, 3:] = J
    ok, e = _close(mcg, want, 1e-9, np.abs(m).max())
    if not ok:
        _fail(out, fam + "-mcg", "cgmass does not return the mass matrix at the cg", inp, mcg.tolist(), want.tolist())
    ok, e = _close(dd, d, 1e-9, max(np.abs(d).max(), 1e-300))
    if not ok:
        _fail(out, fam + "-dxyz", "cgmass does not return the cg offset", inp, dd.tolist(), d.tolist())
    ok, e = _close(gyr, np.sqrt(np.diag(J) / np.array([mx, my, mz])), 1e-9)
    if not ok:
        _fail(out, fam + "-gyr", "radii of gyration", inp, gyr.tolist(), "sqrt(diag(J)/m)")
    ok, e = _close(np.diag(pI), np.linalg.eigvalsh(J), 1e-8)
    if not ok:
        _fail(out, fam + "-principal", "principal inertias", inp, np.diag(pI).tolist(), np.linalg.eigvalsh(J).tolist())
    if mx == my == mz:
        # principal moments / radii are properties of the body: the same from any reference point and in any rotated frame
        rs = np.random.default_rng([int(abs(m[3, 3]) * 1e6) % (2 ** 31), 5])
        T = rb6(np.zeros(3), rs.uniform(-1, 1, 3) * max(np.abs(d).max(), 1.0))  # the old reference seen from a new one
        R = rand_rot(rs)
        T6 = np.block([[R, np.zeros((3, 3))], [np.zeros((3, 3)), R]])
        for nm, m2 in (("reference-point", T.T @ m @ T), ("frame-rotation", T6.T @ m @ T6)):
            m2 = (m2 + m2.T) / 2
            with warnings.catch_warnings():
                warnings.simplefilter("ignore")
                _, _, _, pg2, _, pI2 = cb.cgmass(m2, all6=True)
            sc = max(np.abs(J).max(), 1e-300) + mx * float(np.abs(d).max()) ** 2 * 1e-6
            if not _close(np.diag(pI2), np.diag(pI), 1e-7, sc)[0] or not _close(pg2, pgyr, 1e-6, max(np.abs(pgyr).max(), 1e-300))[0]:
                _fail(out, "cgmass-principal-" + nm, "principal inertias / radii of gyration change with the %s" % nm.replace("-", " "), inp,
                      {"pI": np.diag(pI2).tolist(), "pgyr": np.asarray(pg2).tolist()}, {"pI": np.diag(pI).tolist(), "pgyr": np.asarray(pgyr).tolist()})
        ok, e = _close(pgyr, np.sqrt(np.linalg.eigvalsh(J) / mx), 1e-8)
        if not ok:
            _fail(out, fam + "-principal-gyr", "principal radii of gyration are not sqrt(I_p / m)", inp, np.asarray(pgyr).tolist(),
                  np.sqrt(np.linalg.eigvalsh(J) / mx).tolist())
    try:
        bad = m.copy()
        bad[0, 4] += 0.5 * max(np.abs(m).max(), 1.0)
        cb.cgmass(bad)
        _fail(out, "cgmass-asymmetric-accepted", "an asymmetric mass matrix must raise ValueError", inp, "no exception", "ValueError")
    except ValueError:
        pass
    return out


def oracle_geom(c):
    from pyyeti.nastran import n2p

    out = []
    grids, ref, new = np.asarray(c["grids"], float), np.asarray(c["ref"], float), np.asarray(c["new"], float)
    inp = dict(c, kind="rbgeom")
    rb0 = n2p.rbgeom(grids, ref)
    want = np.vstack([rb6(p, ref) for p in grids])
    sc = max(1.0, np.abs(want).max())
    if not _close(rb0, want, 1e-12, sc)[0]:
        _fail(out, "rbgeom-truth", "rbgeom differs from the rigid-body kinematics", inp, rb0.tolist(), want.tolist())
    rb1 = n2p.rbgeom(grids, new)
    mv = n2p.rbmove(rb0, ref, new)
    if not _close(mv, rb1, 1e-12, max(1.0, np.abs(rb1).max(), np.abs(rb0).max()))[0]:
        _fail(out, "rbmove-composition", "rbmove(rbgeom(g,r0),r0,r1) != rbgeom(g,r1)", inp, mv.tolist(), rb1.tolist())
    back = n2p.rbmove(mv, new, ref)
    if not _close(back, rb0, 1e-10, max(1.0, np.abs(rb1).max(), np.abs(rb0).max()) ** 2)[0]:
        _fail(out, "rbmove-inverse", "moving the reference there and back is not the identity", inp, back.tolist(), rb0.tolist())
    return out


def oracle_uset(c):
    from pyyeti.nastran import n2p

    out = []
    rb = n2p.rbgeom_uset(c["uset"], c["ref_arg"])
    want = uset_truth(c)
    inp = {"kind": "rbgeom_uset", "xyz": c["xyz"].tolist(), "css": [np.asarray(x).tolist() for x in c["css"]],
           "ref_arg": np.asarray(c["ref_arg"]).tolist(), "ref": c["ref"].tolist(),
           "frames": [f.tolist() for f in c["frames"]], "tags": c["tags"]}
    if not _close(rb, want, 1e-9, max(1.0, np.abs(want).max()))[0]:
        rows = np.abs(rb - want).max(axis=1)
        g = int(np.argmax(rows)) // 6
        _fail(out, "rbgeom_uset-" + c["tags"][g], "rbgeom_uset differs from the rigid-body kinematics in output coordinates",
              inp, rb.tolist(), want.tolist())
    return out


def uset_case_from_input(inp):
    from pyyeti.nastran import n2p

    xyz = np.asarray(inp["xyz"], float)
    css = [0 if np.ndim(x) == 0 else np.asarray(x, float) for x in inp["css"]]
    uset = n2p.addgrid(None, [10 * (g + 1) for g in range(len(xyz))], "b", 0, xyz, css)
    ra = inp["ref_arg"]
    return dict(uset=uset, ref_arg=ra if np.ndim(ra) == 0 else np.asarray(ra, float), ref=np.asarray(inp["ref"], float),
                xyz=xyz, css=css, frames=[np.asarray(f, float) for f in inp["frames"]], tags=inp["tags"])


def oracle_reorder(c, rng_seed=0):
    from pyyeti import cb

    out = []
    rng = np.random.default_rng([rng_seed, c["lt"]] + list(c["b"]))
    lt, b = c["lt"], np.array(c["b"])
    inp = dict(c, kind="cbreorder")
    fam = "cbreorder-" + ("lq0" if lt == len(b) else ("last" if c["last"] else "first")) + ("-drm" if c["drm"] else "")
    with warnings.catch_warnings():
        warnings.simplefilter("ignore")
        if c["drm"]:
            D = rng.standard_normal((3, lt))
            x = rng.standard_normal(lt)
            D2 = cb.cbreorder(D, b, drm=True, last=c["last"])
            X2 = cb.cbreorder(x.reshape(1, -1), b, drm=True, last=c["last"]).ravel()
            if not np.allclose(D2 @ X2, D @ x, rtol=1e-12, atol=1e-12):
                _fail(out, fam + "-response", "recovered response changes under DRM reordering", inp, (D2 @ X2).tolist(), (D @ x).tolist())
            return out
        A = rng.standard_normal((lt, lt))
        Km, Mm = A @ A.T, np.eye(lt) + 0.1 * np.diag(rng.random(lt))
        K2 = cb.cbreorder(Km, b, last=c["last"])
        M2 = cb.cbreorder(Mm, b, last=c["last"])
        pv = run_reorder(dict(c, drm=False))
        if sorted(pv) != list(range(lt)):
            _fail(out, fam + "-not-a-permutation", "cbreorder does not apply a permutation", inp, pv, "a permutation of range(lt)")
            return out
        lb = len(b)
        pos = pv[lt - lb:] if (c["last"] and lt > lb) else pv[:lb]
        if list(pos) != list(b):
            _fail(out, fam + "-b-position", "the b-set is not where `last` says, in the requested order", inp, pv, list(map(int, b)))
        Kb = cb.cbreorder(K2, np.argsort(pv))
        if not np.array_equal(Kb, Km):
            _fail(out, fam + "-inverse", "reordering is not undone by the inverse permutation", inp, "differs", "identical matrix")
        import scipy.linalg as la

        w1, w2 = la.eigvalsh(Km, Mm), la.eigvalsh(K2, M2)
        if not np.allclose(w1, w2, rtol=1e-9, atol=1e-9 * np.abs(w1).max()):
            _fail(out, fam + "-frequencies", "eigenvalues change under reordering", inp, w2.tolist(), w1.tolist())
    return out


def oracle_convert(c, rng_seed=0):
    try:
        return _oracle_convert(c, rng_seed)
    except Exception as e:  # noqa: BLE001 - the routine must not raise on a valid b / conv
        out = []
        _fail(out, "cbconvert-raises-" + type(e).__name__, "cbconvert raises on a valid boundary vector",
              {"kind": "cbconvert", "lt": c["lt"], "b": list(map(int, c["b"])), "conv": c["conv"]}, repr(e)[:200], "converted matrices")
        return out


def _oracle_convert(c, rng_seed=0):
    from pyyeti import cb
    import scipy.linalg as la

    out = []
    rng = np.random.default_rng([rng_seed, c["lt"]] + list(c["b"]))
    lt, b = c["lt"], np.array(c["b"])
    conv = tuple(c["conv"]) if isinstance(c["conv"], list) else c["conv"]
    lc, mc = conv_factors(c["conv"])
    inv = {"m2e": "e2m", "e2m": "m2e"}.get(conv, (1 / lc, 1 / mc))
    inp = {"kind": "cbconvert", "lt": lt, "b": list(map(int, b)), "conv": c["conv"]}
    fam = "cbconvert-" + ("tuple" if isinstance(c["conv"], list) else conv)
    A = rng.standard_normal((lt, lt))
    Km = A @ A.T
    Mm = np.eye(lt) + 0.1 * np.diag(rng.random(lt))
    K2, M2 = cb.cbconvert(Km, b, conv), cb.cbconvert(Mm, b, conv)
    for nm, X, X2 in (("k", Km, K2), ("m", Mm, M2)):
        back = cb.cbconvert(X2, b, inv)
        if not np.allclose(back, X, rtol=1e-11, atol=1e-11 * np.abs(X).max()):
            _fail(out, fam + "-inverse", "conversion is not undone by the inverse conversion", inp,
                  float(np.abs(back - X).max()), "0 (1e-11 relative)")
    w1, w2 = la.eigvalsh(Km, Mm), np.sort(np.real(la.eigvals(K2, M2)))
    if not np.allclose(w1, w2, rtol=1e-7, atol=1e-9 * np.abs(w1).max()):
        _fail(out, fam + "-frequencies", "generalized eigenvalues change under unit conversion", inp, w2.tolist(), w1.tolist())
    # physical content: entries scale with the unit of their row/column
    pos = {int(x): k for k, x in enumerate(b)}
    u = np.array([(1.0 if pos[i] % 6 < 3 else lc) if i in pos else math.sqrt(mc) * lc for i in range(lt)])
    f = np.array([(mc * lc if pos[i] % 6 < 3 else mc * lc * lc) if i in pos else math.sqrt(mc) * lc for i in range(lt)])
    # K' = D K C with C = 1/(displacement factor): translations 1/lc, rotations 1, modal 1/(sqrt(mc) lc)
    Cw = np.array([(1 / lc if pos[i] % 6 < 3 else 1.0) if i in pos else 1 / (math.sqrt(mc) * lc) for i in range(lt)])
    want = f[:, None] * Km * Cw[None, :]
    if not np.allclose(K2, want, rtol=1e-12, atol=0):
        _fail(out, fam + "-factors", "converted entries do not carry the force/displacement unit factors", inp,
              float(np.abs(K2 / want - 1).max()), "ratio 1")
    D = rng.standard_normal((3, lt))
    D2 = cb.cbconvert(D, b, conv, drm=True)
    x2 = rng.standard_normal(lt)
    if not np.allclose(D2 @ x2, D @ (Cw * x2), rtol=1e-11, atol=1e-12):
        _fail(out, fam + "-drm-response", "recovered response changes under DRM conversion", inp, (D2 @ x2).tolist(), (D @ (Cw * x2)).tolist())
    return out


def oracle_cbtf(seed):
    from pyyeti import cb

    out = []
    rng = np.random.default_rng(seed)
    nbg = int(rng.integers(1, 3))
    st = gen_structure(rng, nbg + int(rng.integers(1, 4)), kinds=(0, 1))
    bgrids = [int(x) for x in rng.choice(len(st["xyz"]), nbg, replace=False)]
    nq = int(rng.integers(0, 6 * (len(st["xyz"]) - nbg) + 1))
    red = cb_reduce(st, bgrids, nq)
    nb, n = 6 * nbg, 6 * nbg + nq
    M, K = red["Mcb"], red["Kcb"]
    style = str(rng.choice(["modal", "full", "complex"]))
    Bm = np.zeros((n, n))
    Bm[nb:, nb:] = np.diag(2 * rng.uniform(0.005, 0.05, nq) * np.sqrt(np.abs(red["w"])))
    if style != "modal":
        A = rng.standard_normal((n, n)) * 0.02 * math.sqrt(st["kscale"])
        Bm = Bm + A @ A.T / n
    Mc, Kc = M.astype(float), K.astype(float)
    if style == "complex":
        Kc = Kc * (1 + 0.02j)
    layout = str(rng.choice(["first", "last", "mixed"]))
    if layout == "first":
        pos_b = np.arange(nb)
    elif layout == "last":
        pos_b = np.arange(nq, n)
    else:
        pos_b = np.sort(rng.choice(n, nb, replace=False))
    pos_q = np.setdiff1d(np.arange(n), pos_b)
    order = np.empty(n, dtype=int)
    order[pos_b] = np.arange(nb)
    order[pos_q] = nb + np.arange(nq)
    ix = np.ix_(order, order)
    Mi, Bi, Ki = Mc[ix], Bm[ix], Kc[ix]
    bset = pos_b.copy()
    if rng.random() < 0.4:
        bset = rng.permutation(bset)
    fmax = math.sqrt(np.abs(red["w"]).max()) / (2 * math.pi) if nq else 10.0
    freq = np.sort(rng.uniform(0.02 * fmax, 1.5 * fmax, int(rng.integers(1, 12))))
    zero_hz = bool(np.random.default_rng([int(x) for x in np.atleast_1d(seed)] + [991]).random() < 0.35)
    if zero_hz:
        # "for any frequency vector": exactly 0 Hz is legitimate (np.arange(0, 50, .5)); there the boundary displacement and
        # velocity are zero by the routine's own convention and the enforced acceleration and the force are the static limit
        freq = np.concatenate([[0.0], freq])
    if rng.random() < 0.5:
        a = rng.standard_normal(nb)
        a_full = np.outer(a, np.ones(len(freq)))
    else:
        a = rng.standard_normal((nb, len(freq))) + (1j * rng.standard_normal((nb, len(freq))) if rng.random() < 0.3 else 0)
        a_full = a
    inp = {"kind": "cbtf", "seed": [int(x) for x in np.atleast_1d(seed)]}
    permuted = not np.array_equal(bset, np.sort(bset))
    fam = "cbtf-%s-damping-b%s%s" % (style, layout, "-permuted" if permuted else "")
    if nq == 0 and permuted:
        # F29 / F59 (fixed by 1c371b1, ed802cc): without modal DOF the responses are in MODEL order like everywhere else
        # (only `frc` is in b-set order); the regression rule tf.a[bset] == a has its own stable family
        fam = "cbtf-empty-qset-responses-in-bset-order"
    save = {} if rng.random() < 0.5 else None
    with warnings.catch_warnings():
        warnings.simplefilter("ignore")
        tf = cb.cbtf(Mi, Bi, Ki, a, freq, bset, save=save)
        if save is not None:
            # the documented loop over several base inputs with one `save` dict: an earlier result must not change
            # when the routine is called again, and the cached solver must give the right answer for the next input
            snap = {nm: np.array(getattr(tf, nm), copy=True) for nm in ("d", "v", "a", "frc")}
            a2 = np.asarray(a) * -1.5 + 0.25
            tf2 = cb.cbtf(Mi, Bi, Ki, a2, freq, bset, save=save)
            for nm in ("d", "v", "a", "frc"):
                if np.asarray(getattr(tf, nm)).tobytes() != snap[nm].tobytes():
                    _fail(out, "cbtf-save-earlier-result-overwritten", "a result returned by cbtf(..., save=save) changes when cbtf is "
                          "called again with the same save dict and another base acceleration (field %s)" % nm, inp, None, None)
                    return out
            tf = cb.cbtf(Mi, Bi, Ki, a, freq, bset, save=save)  # third call, first input again
    W = 2 * math.pi * freq
    worst = 0.0
    qset = np.setdiff1d(np.arange(n), bset)
    # (the equations of motion are checked in model order for every nq >= 0 and any b-set order: d, v, a are B+Q-set sized
    # with the b-set part at rows `bset`, frc is in b-set order)
    if tf.a.shape[0] != n or tf.d.shape[0] != n or tf.v.shape[0] != n or tf.frc.shape[0] != nb:
        _fail(out, fam, "cbtf: d, v, a must have one row per model DOF and frc one row per b-set DOF", inp,
              [list(tf.a.shape), list(tf.frc.shape)], [[n, len(freq)], [nb, len(freq)]])
        return out
    for j, w in enumerate(W):
        d, v, acc = tf.d[:, j], tf.v[:, j], tf.a[:, j]
        rhs = np.zeros(n, dtype=complex)
        rhs[bset] = tf.frc[:, j]
        res = Mi @ acc + Bi @ v + Ki @ d - rhs
        sc = max(np.abs(Mi @ acc).max(), np.abs(Ki @ d).max(), np.abs(Bi @ v).max(), 1e-300)
        worst = max(worst, np.abs(res).max() / sc,
                    np.abs(acc[bset] - a_full[:, j]).max() / max(np.abs(a_full[:, j]).max(), 1e-300))
        if w == 0.0:
            # a = -W^2 d cannot hold on the boundary at 0 Hz (a is enforced, d is finite): d_b = v_b = 0 there, and
            # the modal DOF take their static values
            worst = max(worst, np.abs(d[bset]).max() / max(np.abs(d).max(), 1e-300), np.abs(v).max(),
                        np.abs(acc[qset]).max() / max(np.abs(acc).max(), 1e-300) if nq else 0.0)
        else:
            worst = max(worst, np.abs(v - 1j * w * d).max() / max(np.abs(v).max(), 1e-300),
                        np.abs(acc + w * w * d).max() / max(np.abs(acc).max(), 1e-300))
    if not worst <= 1e-7:
        _fail(out, fam, "cbtf response does not satisfy M a + B v + K d = [F_b; 0] with the enforced boundary acceleration",
              inp, {"worst_relative_residual": worst}, "<= 1e-7")
    return out


def _perm_kind(spec):
    p = spec["gridperm"] if spec["reorder"] else sorted(spec["gridperm"])
    if p == sorted(p):
        return "sorted"
    return "involution" if [p.index(i) for i in range(len(p))] == p else "non-involution"


def oracle_cbcheck(spec):
    out = []
    inp = {"kind": "cbcheck", "spec": spec}
    case = build_case(spec)
    tr = truth_of(case)
    variant = spec["variant"]
    tags = [variant]
    if spec["conv"] is not None:
        tags.append("conv")
    if not spec["reorder"]:
        tags.append("noreorder")
    if any(np.ndim(c) for c in (case["st"]["css"][g] for g in case["bgrids"])):
        tags.append("localcs")
    if spec.get("special"):
        tags.append(spec["special"])
    base = "cbcheck-" + "-".join(tags)
    try:
        res, txt = run_cbcheck(case)
    except Exception as e:
        if _bref_on_pinned(spec) and isinstance(e, RuntimeError) and "zero stiffness" in str(e):
            return out  # documented: a reference DOF without stiffness cannot restrain rigid-body motion
        if isinstance(e, IndexError) and float(spec.get("em_filt", 0)) > 0 and case["nq"] > 0:
            try:
                ok0 = run_cbcheck(dict(case, spec=dict(spec, em_filt=0)))[0]
                none_above = not np.any(ok0.effmass_percent.values > float(spec["em_filt"]))
            except Exception:  # noqa: BLE001
                none_above = False
            if none_above:
                # F66 (fixed by 2a88ed1): the print filter made cbcheck raise on a valid model when no mode is above it
                _fail(out, "cbcheck-em_filt-no-mode-above-filter-raises-IndexError", "cbcheck(..., em_filt=x) raises IndexError (writer.vecwrite on an "
                      "empty effective-mass table) when no fixed-base mode has more than x percent effective mass; with em_filt=0 the "
                      "same model is checked without complaint", inp, "%s: %s" % (type(e).__name__, str(e)[:120]),
                      "a report with an empty table (the totals line still sums all modes)")
                return out
        _fail(out, base + "-raises-" + type(e).__name__, "cbcheck raises on a well-formed model", inp,
              "%s: %s" % (type(e).__name__, str(e)[:200]), "a result")
        return out
    if _bref_on_pinned(spec):
        _fail(out, base + "-refpoint-zero-stiffness-accepted", "reference DOF without stiffness must raise RuntimeError", inp,
              "a result", "RuntimeError")
        return out
    rp = parse_report(txt)
    nb, n, nq = case["nb"], case["n"], case["nq"]
    L, ks = tr["L"], tr["kscale"]
    ids_impl = [int(x) for x in res.uset.index.get_level_values("id")[::6]]
    uset_wrong = ids_impl != tr["ids"]
    if uset_wrong and _perm_kind(spec) == "non-involution":
        base = "cbcheck-reorder-uset-order-not-involution"

    def fam(q):
        return base if base.endswith("not-involution") else base + "-" + q

    if uset_wrong:
        _fail(out, fam("uset-order"), "returned uset is not in the order of the reordered b-set", inp, ids_impl, tr["ids"])
    bsl = np.asarray(res.bset)
    rbs_b, rbe_b = res.rbs[bsl], res.rbe[bsl]
    scs = max(1.0, np.abs(tr["rbs_b"]).max())
    geometry_ok = variant != "perturbed"
    free = variant not in ("grounded", "grounded1")
    zr = tr["zero_rows"]
    nzr = np.setdiff1d(np.arange(nb), zr)
    # --- the three rigid-body sets against the structure's true rigid-body motion
    if geometry_ok and not _close(res.rbg, tr["rbg"], 1e-9, max(1.0, np.abs(tr["rbg"]).max()))[0]:
        _fail(out, fam("rbg"), "geometry-based rb modes differ from the true rigid-body motion of the boundary grids",
              inp, float(np.abs(res.rbg - tr["rbg"]).max()), "<= 1e-9 * scale")
    if free and not (spec["rbnorm"] and not geometry_ok):
        if not _close(rbs_b, tr["rbs_b"], 1e-7, scs)[0] or np.abs(np.delete(res.rbs, bsl, axis=0)).max(initial=0) > 0:
            _fail(out, fam("rbs"), "stiffness-based rb modes differ from the true rigid-body motion", inp,
                  float(np.abs(rbs_b - tr["rbs_b"]).max()), "<= 1e-7 * scale, zero on modal DOF")
        if not _close(rbe_b, tr["rbs_b"], 1e-6, scs)[0] or np.abs(np.delete(res.rbe, bsl, axis=0)).max(initial=0) > 1e-6 * scs:
            _fail(out, fam("rbe"), "eigenvalue-based rb modes differ from the true rigid-body motion", inp,
                  float(np.abs(rbe_b - tr["rbs_b"]).max()), "<= 1e-6 * scale")
    # --- flags: grounding / geometry
    kbb = res.k[np.ix_(bsl, bsl)]
    S = res.rbs.T @ res.k @ res.rbs
    # scale of the terms that cancel in K*RB: stiffness times (length)^2 of the converted structure
    kmax = max(np.abs(res.k).max(), 10 * ks * max(1.0, L) ** 2)
    ground_ratio = np.abs(S).max() / kmax
    refrow = np.array([i for i in range(nb) if spec["gridperm"][i // 6] == spec["brefgrid"]]) if spec["reorder"] \
        else np.arange(6 * spec["brefgrid"], 6 * spec["brefgrid"] + 6)
    with np.errstate(all="ignore"):
        try:
            geo_dev = np.abs((res.rbg @ np.linalg.inv(res.rbg[refrow]) - rbs_b @ np.linalg.inv(rbs_b[refrow]))[nzr]).max()
        except np.linalg.LinAlgError:
            geo_dev = float("inf")
    kg = np.abs(kbb @ res.rbg).max()
    if variant == "valid":
        if nb > 6 and rp["refchk"] != "pass":
            _fail(out, fam("refchk"), "reference-DOF check FAILs on a free model", inp, rp["refchk"], "pass")
        if ground_ratio > 1e-8 or kg > 1e-8 * kmax * max(1.0, np.abs(res.rbg).max()):
            _fail(out, fam("grounding"), "K*RB is not zero for a free model with exact geometry", inp,
                  {"rbs'K rbs / |k|": ground_ratio, "|kbb rbg|": kg}, "0")
        if geo_dev > 1e-7 * max(1.0, scs):
            _fail(out, fam("coincide"), "geometry- and stiffness-based rb modes do not coincide", inp, geo_dev, "0")
        pg = rp["ground_stiffness"]
        if pg is None or np.abs(pg).max() > 0.0011 + 1e-8 * ks * L * L:
            _fail(out, fam("report-grounding"), "printed RB'*K*RB (stiffness) is not zero", inp,
                  None if pg is None else float(np.abs(pg).max()), "0.000")
    elif variant in ("grounded", "grounded1"):
        flagged = (rp["refchk"] == "fail") or ground_ratio > 1e-6
        if not flagged:
            _fail(out, fam("not-flagged"), "a spring to ground is not visible in refpoint_chk / RB'*K*RB", inp,
                  {"refchk": rp["refchk"], "ratio": ground_ratio}, "FAIL or non-zero RB'*K*RB")
        pg = rp["ground_stiffness"]
        if pg is None or not np.all(np.abs(pg - S) <= 0.6e-3 + 1e-7 * np.abs(S).max()):
            _fail(out, fam("report-grounding"), "printed RB'*K*RB (stiffness) is not rbs'*k*rbs", inp,
                  None if pg is None else pg.tolist(), S.tolist())
    elif variant == "perturbed":
        need = 1e-3 * spec.get("shift", 0.2) * L
        if not (geo_dev > need and kg > 1e-9 * kmax):
            _fail(out, fam("not-flagged"), "a misplaced boundary grid is not visible in rbg vs rbs / K*rbg", inp,
                  {"deviation": geo_dev, "|kbb rbg|": kg}, "deviation > %g and K*rbg != 0" % need)
    # --- mass properties (returned matrices and the printed report)
    from pyyeti import cb

    if free and geometry_ok:
        ms = res.rbs.T @ res.m @ res.rbs
        mg = res.rbg.T @ res.m[np.ix_(bsl, bsl)] @ res.rbg
        for nm, got, want, key in (("stiffness", ms, tr["ms"], "mass_stiffness"), ("geometry", mg, tr["mg"], "mass_geometry")):
            if not _close(got, want, 1e-7)[0]:
                _fail(out, fam("mass-" + nm), "6x6 mass from %s-based rb modes differs from the structure's" % nm, inp,
                      float(np.abs(got - want).max()), "<= 1e-7 * max")
            pm = rp[key]
            if pm is None or not np.all(np.abs(pm - want) <= 0.6e-4 + 1e-6 * np.abs(want).max()):
                _fail(out, fam("report-mass-" + nm), "printed %s mass differs from the structure's" % nm, inp,
                      None if pm is None else pm.tolist(), want.tolist())
        pe = rp["mass_eigensolution"]
        if pe is None or not np.all(np.abs(pe - tr["ms"]) <= 0.6e-4 + 1e-5 * np.abs(tr["ms"]).max()):
            _fail(out, fam("report-mass-eigensolution"), "printed eigensolution mass differs from the structure's", inp,
                  None if pe is None else pe.tolist(), tr["ms"].tolist())
        # cg and inertia about the cg in basic axes (geometry-based set; valid with unequal masses too)
        st = case["st"]
        mt = st["masses"].sum()
        cg = (st["masses"][:, None] * st["xyz"]).sum(axis=0) / mt * tr["lc"]
        want_d = cg - case["uref_xyz"] * tr["lc"]
        Icg = np.zeros((3, 3))
        A3 = st["A3"] * tr["mc"]
        for i, p in enumerate(st["xyz"]):
            X = skew(p * tr["lc"] - cg)
            Icg += st["Mb"][6 * i + 3:6 * i + 6, 6 * i + 3:6 * i + 6] * tr["mc"] * tr["lc"] ** 2 + st["masses"][i] * X.T @ A3 @ X
        mcg, dg = cb.cgmass(mg)
        if not _close(dg, want_d, 1e-7, max(np.abs(want_d).max(), L * 1e-3))[0]:
            _fail(out, fam("cg"), "cg from the geometry-based mass differs from the mass-weighted centroid", inp, dg.tolist(), want_d.tolist())
        if not _close(mcg[3:, 3:], Icg, 1e-7)[0]:
            _fail(out, fam("inertia"), "inertia about the cg differs from the parallel-axis sum", inp, mcg[3:, 3:].tolist(), Icg.tolist())
        if "g" not in rp["cg"] or not np.all(np.abs(rp["cg"]["g"] - want_d) <= 0.6e-6 + 1e-6 * max(1.0, np.abs(want_d).max())):
            _fail(out, fam("report-cg"), "printed geometry cg differs from the mass-weighted centroid", inp,
                  rp["cg"].get("g", np.zeros(0)).tolist(), want_d.tolist())
    # --- effective mass, fixed-base frequencies
    if geometry_ok:
        tot = np.abs(np.diag(tr["mg"])).max()
        if free:
            if not _close(res.cb_frq, tr["frq"], 1e-8)[0]:
                _fail(out, fam("cb_frq"), "fixed-base frequencies differ from the structure's (unit conversion must not change them)",
                      inp, res.cb_frq.tolist(), tr["frq"].tolist())
            if not _close(res.effmass.values, tr["effmass"], 1e-7, tot)[0]:
                _fail(out, fam("effmass"), "modal effective mass differs from (phi' M RB)^2 of the structure", inp,
                      float(np.abs(res.effmass.values - tr["effmass"]).max()), "<= 1e-7 * total")
            if nq and not _close(res.effmass_percent.values, tr["percent"], 1e-7, 100.0)[0]:
                _fail(out, fam("effmass-percent"), "percent effective mass", inp,
                      float(np.abs(res.effmass_percent.values - tr["percent"]).max()), "<= 1e-5 percent")
            tot_j = np.diag(tr["mg"])
            resid = tot_j - res.effmass.values.sum(axis=0)
            if np.any(resid < -1e-8 * tot):
                _fail(out, fam("effmass-total"), "sum of effective mass exceeds the rigid-body mass", inp, resid.tolist(), ">= 0")
            if nq == 6 * (spec["ngrids"] - spec["nbg"]):
                # all modes kept: the boundary residual is the mass Schur complement on the boundary
                M2 = convert_structure(case["st"], tr["lc"], tr["mc"])["M"] if spec["conv"] is not None else case["st"]["M"]
                o = case["red"]["o"]
                RB = rb_truth(dict(case["st"], xyz=case["st"]["xyz"] * tr["lc"]), case["uref_xyz"] * tr["lc"])
                v = (M2 @ RB)[o]
                want_res = np.diag(RB.T @ M2 @ RB - v.T @ np.linalg.solve(M2[np.ix_(o, o)], v))
                if not _close(resid, want_res, 1e-7, tot)[0]:
                    _fail(out, fam("effmass-total"), "effective mass + boundary residual != total mass", inp, resid.tolist(), want_res.tolist())
    oracle_report(out, fam, inp, case, tr, res, rp, free, geometry_ok)
    if sum(spec["seed"]) % 3 == 0 and not spec.get("special"):
        # options that must not change the returned matrices / tables: rb_norm (acts on rbs, rbe only), em_filt (printing
        # only), n_freefree_modes (the free-free eigensolution only)
        alt = dict(spec, rbnorm=(not tr["rbnorm"]), em_filt=(0 if spec.get("em_filt", 0) else 7.5))
        try:
            res2, _ = run_cbcheck(dict(case, spec=alt))
            same = all(np.array_equal(np.asarray(getattr(res, nm)), np.asarray(getattr(res2, nm)))
                       for nm in ("m", "k", "bset", "rbg", "cb_frq")) and \
                np.array_equal(res.effmass.values, res2.effmass.values) and np.array_equal(res.effmass_percent.values, res2.effmass_percent.values) \
                and res.uset.equals(res2.uset)
            if not same:
                _fail(out, "cbcheck-option-dependence", "m / k / bset / rbg / uset / effmass / effmass_percent / cb_frq change with rb_norm or em_filt",
                      inp, "different", "identical")
        except Exception as e:  # noqa: BLE001
            _fail(out, "cbcheck-option-dependence", "cbcheck raises when only rb_norm / em_filt are changed", inp, repr(e)[:200], "a result")
    return out


def _pr_bad(printed, want, half, rel=1e-7, scale=None):
    """None if the printed table equals `want` at print precision, else a short description"""
    if printed is None:
        return "table not found in the report"
    printed, want = np.asarray(printed, float), np.asarray(want, float)
    if printed.shape != want.shape:
        return "shape %s, expected %s" % (printed.shape, want.shape)
    if want.size == 0:
        return None
    sc = scale if scale is not None else max(np.abs(want).max(), 1e-300)
    err = np.abs(printed - want)
    if np.all(err <= half + rel * sc):
        return None
    j = int(np.argmax(err))
    return "entry %d printed %r, expected %r" % (j, float(printed.ravel()[j]), float(want.ravel()[j]))


def oracle_report(out, fam, inp, case, tr, res, rp, free, geometry_ok):
    """the printed report against the generator's ground truth: coordinates, movement checks, cg, radii of gyration,
    inertia, grounding tables, free-free frequencies, effective-mass table, value checks, rbe normalisation"""
    spec = case["spec"]
    nb, nq, n = case["nb"], case["nq"], case["n"]
    ng = nb // 6
    L, ks = tr["L"], tr["kscale"]
    zr = tr["zero_rows"]
    rbn = tr["rbnorm"]

    def chk(q, what, printed, want, half, rel=1e-7, scale=None):
        bad = _pr_bad(printed, want, half, rel, scale)
        if bad:
            _fail(out, fam("report-" + q), "printed %s differs from the structure's ground truth" % what, inp, bad,
                  "equal at print precision")

    # --- rbe normalisation: identity (or the geometry rows when rb_norm) on the reference DOF
    bsl = np.asarray(res.bset)
    refrow = np.array([i for i in range(nb) if spec["gridperm"][i // 6] == spec["brefgrid"]]) if spec["reorder"] \
        else np.arange(6 * spec["brefgrid"], 6 * spec["brefgrid"] + 6)
    want_ref = res.rbg[refrow] if rbn else np.eye(6)
    for nm, rb in (("rbs", res.rbs), ("rbe", res.rbe)):
        if not _close(rb[bsl][refrow], want_ref, 1e-8, max(1.0, np.abs(want_ref).max()))[0]:
            _fail(out, fam(nm + "-normalisation"), "%s on the reference DOF is not %s" % (nm, "rbg[bref] (rb_norm)" if rbn else "the identity"),
                  inp, rb[bsl][refrow].tolist(), want_ref.tolist())
    # --- stiffness-based coordinates and the pattern errors
    if free and (geometry_ok or not rbn):
        chk("coords", "stiffness-based coordinates", rp.get("coords"), tr["coords"], 0.6e-2, 1e-7, max(1.0, np.abs(tr["coords"]).max()))
        ce = rp.get("coord_err")
        if ce is None or len(ce) != ng or not np.all(ce <= 1e-7 * max(1.0, np.abs(tr["coords"]).max())) or rp["coord_warnings"]:
            _fail(out, fam("report-coord-errors"), "rbdispchk reports a deviation from the rigid-body pattern on a valid model", inp,
                  {"errors": None if ce is None else ce.tolist(), "warnings": rp["coord_warnings"]}, "errors ~ 0, no warning")
        if rp.get("coord_maxerr") is not None and ce is not None and len(ce) and \
                abs(rp["coord_maxerr"] - ce.max()) > 1e-3 * ce.max() + 1e-300:
            _fail(out, fam("report-coord-errors"), "printed maximum error is not the maximum of the error column", inp,
                  rp["coord_maxerr"], float(ce.max()))
    if rp.get("coord_ids") != tr["ids"]:
        _fail(out, fam("report-coords"), "node ids of the coordinate table", inp, rp.get("coord_ids"), tr["ids"])
    # --- movement checks: unit translation / rotation of every grid (zero where there is no stiffness)
    if free and geometry_ok and rp.get("move_t") is not None and rp["move_t"].shape == (ng, 9):
        one_t = np.ones((ng, 3))
        one_r = np.ones((ng, 3))
        for kk in zr:
            (one_t if kk % 6 < 3 else one_r)[kk // 6] = np.nan  # a partly trimmed block: value depends on the axes
        full_r = np.array([np.all([(6 * g + c) in set(zr.tolist()) for c in (3, 4, 5)]) for g in range(ng)])
        one_r[full_r] = 0.0
        for nm, T, want in (("translation", rp["move_t"], one_t), ("rotation", rp["move_r"], one_r)):
            for c0, lbl, w in ((0, "stiffness", want), (3, "geometry", np.ones((ng, 3))), (6, "eigenvalue", want)):
                blk = T[:, c0:c0 + 3]
                m = np.isfinite(w)
                if not np.all(np.abs(blk - np.where(m, w, 0))[m] <= 1.1e-3):
                    _fail(out, fam("report-movement"), "%s movement check (%s-based) is not 1.000 (0.000 without stiffness)" % (nm, lbl),
                          inp, blk.tolist(), w.tolist())
    elif rp.get("move_t") is None or rp["move_t"].shape != (ng, 9):
        _fail(out, fam("report-movement"), "movement check tables not found", inp, None, "%d rows" % ng)
    # --- cg, radii of gyration, inertia
    if free and geometry_ok:
        lsc = max(1.0, L)
        msc = max(np.abs(tr["Icg"]).max(), 1e-300)
        chk("cg", "cg (geometry)", rp["cg"].get("g"), tr["cg_g"], 0.6e-6, 1e-6, lsc)
        A3d = np.diag(case["st"]["A3"])
        chk("gyration", "radius of gyration (geometry)", rp["gyr"].get("g"), np.sqrt(np.diag(tr["Icg"]) / (tr["mt"] * A3d)), 0.6e-6, 1e-6, lsc)
        chk("inertia", "inertia @ cg (geometry)", rp.get("inertia_geometry"), tr["Icg"], 0.6e-4, 1e-6, msc)
        if tr["iso"]:
            pI = np.linalg.eigvalsh(tr["Icg"])
            for key, nm in (("s", "stiffness"), ("e", "eigensolution"), ("g", "geometry")):
                rel = 1e-5 if key == "e" else 1e-6
                if key != "g":
                    chk("cg", "cg (%s)" % nm, rp["cg"].get(key), tr["cg_s"], 0.6e-6, rel, lsc)
                    chk("gyration", "radius of gyration (%s)" % nm, rp["gyr"].get(key), np.sqrt(np.diag(tr["Icg_s"]) / tr["mt"]), 0.6e-6, rel, lsc)
                    chk("inertia", "inertia @ cg (%s)" % nm, rp.get("inertia_" + nm), tr["Icg_s"], 0.6e-4, rel, msc)
                chk("principal", "principal moments (%s)" % nm, rp.get("pinertia_" + nm), pI, 0.6e-4, rel, msc)
                chk("principal", "principal radii of gyration (%s)" % nm, rp["pgyr"].get(key), np.sqrt(pI / tr["mt"]), 0.6e-6, rel, lsc)
    # --- grounding tables
    kmx = max(np.abs(res.k).max(), 10 * ks * max(1.0, L) ** 2)
    rbmx = max(1.0, np.abs(tr["rbg"]).max(), np.abs(tr["rbs_b"]).max())
    if free and geometry_ok:
        gt = 0.6e-3 + 1e-9 * kmx * rbmx
        for key in ("stiffness", "geometry", "eigensolution"):
            rel = 1e-6 if key == "eigensolution" else 1e-9
            for nm, rows in (("krb_", nb), ("krbq_", nq if key != "geometry" else 0)):
                T = rp.get(nm + key)
                if T is None or T.shape != (rows, 6) or not np.all(np.abs(T) <= 0.6e-3 + rel * kmx * rbmx):
                    _fail(out, fam("report-grounding"), "K*RB table (%s-based) of a free model is not zero / not complete" % key, inp,
                          None if T is None else [list(T.shape), float(np.abs(T).max(initial=0.0))], "%d rows of zeros" % rows)
            S = rp["ground_" + key]
            if S is None or not np.all(np.abs(S) <= 0.6e-3 + rel * kmx * rbmx * rbmx):
                _fail(out, fam("report-grounding"), "printed RB'*K*RB (%s) is not zero" % key, inp,
                      None if S is None else float(np.abs(S).max()), "0.000")
    elif geometry_ok:
        # grounded: the geometry-based table is Kbb times the true rigid-body motion
        want = tr["kbb_out"] @ tr["rbg"]
        chk("grounding", "K*RB (geometry-based) of a grounded model", rp.get("krb_geometry"), want, 0.6e-3, 1e-8, kmx * rbmx)
        chk("grounding", "RB'*K*RB (geometry-based) of a grounded model", rp.get("ground_geometry"), tr["rbg"].T @ want, 0.6e-3, 1e-8, kmx * rbmx * rbmx)
    # --- free-free frequencies: the finite eigenvalues of the (K, M) pencil (massless DOF condensed, null DOF dropped)
    pt = pencil_truth(tr["Kcb"], tr["Mcb"], nb)
    ff = rp.get("ff")
    if ff is None or len(ff) == 0:
        _fail(out, fam("report-freefree"), "free-free frequency table not found", inp, None, "a table")
    else:
        want = np.sqrt(pt["w"][:len(ff)]) / (2 * math.pi)
        # (near-)rigid-body modes are round-off of the shift-invert solve: not comparable digit by digit
        noise = 1e-4 * math.sqrt(pt["w"].max()) / (2 * math.pi)
        el = want > noise
        ok = len(want) == len(ff) and np.all(np.abs(ff - want)[el] <= 0.6e-6 + 1e-6 * np.abs(want[el])) and \
            np.all(ff[~el] <= 2 * noise) and int((~el).sum()) == (6 if free else int((~el).sum()))
        if not ok:
            _fail(out, fam("report-freefree"), "free-free frequencies differ from the finite eigenvalues of the (K, M) pencil", inp,
                  ff.tolist(), want.tolist())
    # which DOF were reduced out (the printed pv lists)
    # (printed positions are matrix positions: the b-set rows sit at res.bset, which is arange(nb) after reordering)
    nullp = sorted(int(np.asarray(res.bset)[i]) for i in _positions_after(case, [i for i in pt["null"] if i < nb]))
    if (rp["trim_null"] or []) != nullp:
        _fail(out, fam("report-trim"), "null columns listed by _solve_eig", inp, rp["trim_null"], nullp)
    if len(rp["trim_massless"] or []) != len(pt["massless"]):
        _fail(out, fam("report-trim"), "massless DOF listed by _solve_eig", inp, rp["trim_massless"], "%d DOF" % len(pt["massless"]))
    # --- fixed-base modes / effective mass table
    if geometry_ok and free and nq:
        # em_filt > 0 prints only the modes with more than em_filt percent in some direction (the totals include all modes)
        emf = float(spec.get("em_filt", 0))
        keep = np.nonzero(np.any(tr["percent"] > emf, axis=1))[0] if emf > 0 else np.arange(nq)
        on_edge = emf > 0 and np.any(np.abs(tr["percent"] - emf) <= 1e-6 * max(emf, 1.0))
        if on_edge:
            pass
        elif rp.get("em_percent") is None or rp.get("em_modes") != [int(q) + 1 for q in keep]:
            _fail(out, fam("report-effmass"), "effective mass table does not list the modes above em_filt (all modes for em_filt = 0)", inp,
                  rp.get("em_modes"), [int(q) + 1 for q in keep])
        else:
            chk("effmass", "percent effective mass", rp["em_percent"], tr["percent"][keep], 0.6e-2, 1e-6, 100.0)
            chk("effmass", "fixed-base frequencies of the table", rp["em_frq"], tr["frq"][keep], 0.6e-3, 1e-8)
            chk("effmass", "total effective mass line", rp["em_total"], tr["percent"].sum(axis=0), 0.6e-2, 1e-6, 100.0)
            if rp["em_total"] is not None and np.any(rp["em_total"][:3] > 100.006):
                _fail(out, fam("report-effmass"), "translational effective mass exceeds 100 percent", inp, rp["em_total"].tolist(), "<= 100")
    # --- matrix value checks
    v = rp["vals"]
    if free or True:
        want = {"mqq_diag": 0.0, "mqq_off": 0.0, "kbq_max": 0.0, "kqq_off": 0.0}
        for key, w in want.items():
            if key not in v or abs(v[key]) > (1e-9 * kmx if key.startswith("k") else 1e-11):
                _fail(out, fam("report-values"), "value check %s of a Craig-Bampton model is not zero" % key, inp, v.get(key), 0.0)
        if nq:
            kq = float(np.min(np.diag(tr["Kcb"])[nb:]))
            if "kqq_min" not in v or abs(v["kqq_min"] - kq) > 2e-5 * abs(kq):
                _fail(out, fam("report-values"), "minimum diagonal of KQQ", inp, v.get("kqq_min"), kq)
        if "kbb_max" not in v or abs(v["kbb_max"] - pt["kbb_max"]) > 2e-5 * pt["kbb_max"] + 1e-9 * kmx:
            _fail(out, fam("report-values"), "maximum of KBB (after the massless DOF are condensed)", inp, v.get("kbb_max"), pt["kbb_max"])




def probe_noreorder(seed):
    """finding cbcheck-noreorder-bset-not-leading: reorder=False with the b-set not in rows 0..nb-1"""
    out = []
    rng = np.random.default_rng(seed)
    spec = gen_spec(rng)
    spec.update(reorder=False, gridperm=list(range(spec["nbg"])), layout=str(rng.choice(["last", "mixed"])),
                variant="valid", conv=None, em_filt=0)
    if spec["nbg"] == 1 and spec["layout"] == "last" and spec["rbnorm"] is not True:
        spec["rbnorm"] = True
    for f in oracle_cbcheck(spec):
        f = dict(f, family="cbcheck-noreorder-bset-not-leading")
        f["input"] = {"kind": "cbcheck-noreorder-probe", "spec": spec}
        out.append(f)
    return out, spec


def probe_net_reorder(seed):
    """mk_net_drms(reorder=True) against the same call on the sorted b-set: the recovery matrices must be the same up
    to the column permutation.  New finding: with a boundary order that is not its own inverse the uset is permuted
    with np.argsort(bset) - the inverse of the permutation cbreorder applies (the defect F26 repaired in cbcheck)."""
    from pyyeti import cb

    out = []
    rng = np.random.default_rng(seed)
    spec = gen_spec(rng)
    nbg = int(rng.choice([2, 3, 3, 4]))
    spec.update(nbg=nbg, ngrids=nbg + int(rng.integers(1, 4)), variant="valid", reorder=True, conv=None, uref="origin",
                rbnorm=None, brefgrid=0, layout=str(rng.choice(["first", "last", "mixed"])))
    spec["nq"] = max(1, spec["nq"])
    spec["gridperm"] = [int(x) for x in rng.permutation(nbg)]
    return probe_net_reorder_spec(spec, True)


def probe_net_reorder_spec(spec, with_kind=False):
    from pyyeti import cb

    out = []
    perm, nbg = spec["gridperm"], spec["nbg"]
    case = build_case(spec)
    inp = {"kind": "netdrm-reorder-probe", "spec": spec}
    inv = [perm.index(i) for i in range(nbg)]
    kind = "sorted" if perm == sorted(perm) else ("involution" if inv == perm else "non-involution")
    fam = "mk_net_drms-reorder-uset-order-not-involution" if kind == "non-involution" else "mk_net_drms-reorder-" + kind
    n, nb = case["n"], case["nb"]
    bset = case["bseto"]
    uset = case["uset"]  # rows in ascending matrix position (physical grid order), as cbcheck takes it
    with warnings.catch_warnings():
        warnings.simplefilter("ignore")
        try:
            indep = 123456 if nbg == 2 else None  # (an RBE3 on the translations of two grids is rank deficient)
            r1 = cb.mk_net_drms(case["Min"].copy(), case["Kin"].copy(), bset.copy(), uset=uset, ref=[0, 0, 0], reorder=True,
                                rbe3_indep_dof=indep)
            r0 = cb.mk_net_drms(case["Min"].copy(), case["Kin"].copy(), np.sort(bset), uset=uset, ref=[0, 0, 0], reorder=False,
                                rbe3_indep_dof=indep)
        except Exception as e:  # noqa: BLE001
            _fail(out, fam + "-raises-" + type(e).__name__, "mk_net_drms raises", inp, repr(e)[:200], "a result")
            return (out, kind) if with_kind else out
    pv = np.concatenate([bset, np.setdiff1d(np.arange(n), bset)])
    for nm in ("ifltma_sc", "ifatm_sc", "cgatm_sc"):
        a, b = getattr(r1, nm), getattr(r0, nm)[:, pv]
        if not _close(a, b, 1e-9, max(np.abs(b).max(), 1e-300))[0]:
            _fail(out, fam, "mk_net_drms(reorder=True).%s differs from the result for the sorted b-set with its columns "
                  "permuted the same way: recovered net responses change under boundary reordering" % nm, inp,
                  float(np.abs(a - b).max()), "0 (1e-9 relative; max |.| = %g)" % np.abs(b).max())
            break
    return (out, kind) if with_kind else out


def probe_emfilt(seed):
    """regression guard of finding F66 (cbcheck-em_filt-no-mode-above-filter-raises-IndexError, fixed by 2a88ed1): a positive
    print filter above every percent effective mass of the model must give a report with an empty table"""
    rng = np.random.default_rng(seed)
    spec = gen_spec(rng)
    spec.update(variant="valid", reorder=True, conv=None, em_filt=100.5)  # no single mode can have more than 100 percent
    spec["nq"] = max(1, spec["nq"])
    out = []
    for f in oracle_cbcheck(spec):
        f = dict(f)
        f["input"] = {"kind": "cbcheck", "spec": spec}
        out.append(f)
    return out


def probe_nomodes(seed):
    """cbcheck on a Craig-Bampton model with NO retained modes (Guyan reduction only).  New finding: _values_check
    takes np.max of the empty MQQ diagonal -> ValueError, although cbcheck has an explicit branch for nq = 0."""
    out = []
    rng = np.random.default_rng(seed)
    spec = gen_spec(rng)
    if spec["nbg"] < 2:
        spec["nbg"] += 1
        spec["ngrids"] += 1
        spec["gridperm"] = list(range(spec["nbg"]))
    spec.update(nq=0, variant="valid", reorder=True, em_filt=0)
    for f in oracle_cbcheck(spec):
        if "raises-ValueError" in f["family"]:
            f = dict(f, family="cbcheck-no-modal-dof-raises-ValueError")
        f["input"] = {"kind": "cbcheck-nomodes-probe", "spec": spec}
        out.append(f)
    return out


def _run_kind(inp):
    k = inp["kind"]
    if k == "solve_eig":
        return oracle_solve_eig(inp)
    if k == "rbdisp":
        return oracle_rbdisp(inp)
    if k == "netdrm":
        return oracle_net(inp)
    if k == "rbmult":
        return oracle_rbmult(inp["seed"])
    if k == "rbchk":
        return oracle_rbchk(inp["case"])
    if k == "coordchk":
        return oracle_coordchk(inp)
    if k == "cbtf0":
        return oracle_cbtf0(inp)
    if k == "netdrm-reorder-probe":
        return probe_net_reorder_spec(inp["spec"])
    if k == "cbcheck-nomodes-probe":
        return [dict(f, family="cbcheck-no-modal-dof-raises-ValueError" if "raises-ValueError" in f["family"] else f["family"],
                     input=inp) for f in oracle_cbcheck(inp["spec"])]
    if k == "cbcheck":
        return oracle_cbcheck(inp["spec"])
    if k == "cbcheck-noreorder-probe":
        return [dict(f, family="cbcheck-noreorder-bset-not-leading", input=inp) for f in oracle_cbcheck(inp["spec"])]
    if k == "cgmass":
        return oracle_cgmass(inp)
    if k == "rbgeom":
        return oracle_geom(inp)
    if k == "rbgeom_uset":
        return oracle_uset(uset_case_from_input(inp))
    if k == "cbreorder":
        return oracle_reorder(inp)
    if k == "cbconvert":
        return oracle_convert(inp)
    if k == "cbtf":
        return oracle_cbtf(inp["seed"])
    raise Infra("unknown replay kind %r" % k)


def search(ctx, hints):
    fails = []
    # 1. hints: cbcheck disagreements carry their spec; the direct streams below regenerate the
    #    correspondence inputs (same salts), so every other hint input is evaluated there
    specs = [h["input"]["spec"] for h in hints if isinstance(h.get("input"), dict) and "spec" in h["input"]][:40]
    seen = set()
    rng = ctx.np_rng(6)
    for spec in specs + cbcheck_specs(ctx, rng, ctx.pick(60, 400)):
        key = json.dumps(spec, sort_keys=True)
        if key in seen:
            continue
        seen.add(key)
        case_cond = build_case(spec)["red"]["cond"]
        if case_cond > 1e8:
            ctx.skip("oracle: structure outside conditioning domain")
            continue
        fails += oracle_cbcheck(spec)
        ctx.count("oracle:cbcheck-" + spec["variant"])
    rng = ctx.np_rng(1)
    for c in cgmass_cases(ctx, rng, ctx.pick(300, 3000)):
        t = c["truth"]
        fails += oracle_cgmass(dict(m=c["m"], masses=[float(x) for x in t["masses"]], d=t["d"], J=t["J"]))
        ctx.count("oracle:cgmass")
    rng = ctx.np_rng(12)
    for i in range(ctx.pick(150, 1500)):
        ng = int(rng.integers(1, 7))
        L = 10 ** rng.uniform(-1, 3)
        fails += oracle_geom(dict(grids=(rng.uniform(-1, 1, (ng, 3)) * L).tolist(), ref=(rng.uniform(-1, 1, 3) * L).tolist(),
                                  new=(rng.uniform(-1, 1, 3) * L).tolist()))
        ctx.count("oracle:rbgeom")
    rng = ctx.np_rng(3)
    for c in uset_cases(ctx, rng, ctx.pick(250, 2500)):
        fails += oracle_uset(c)
        ctx.count("oracle:rbgeom_uset")
    rng = ctx.np_rng(4)
    for c in reorder_cases(ctx, rng, ctx.pick(200, 2000)):
        fails += oracle_reorder(c)
        ctx.count("oracle:cbreorder")
    rng = ctx.np_rng(5)
    for c in conv_cases(ctx, rng, ctx.pick(100, 1000)):
        fails += oracle_convert({k: c[k] for k in ("lt", "b", "conv")})
        ctx.count("oracle:cbconvert")
    for i in range(ctx.pick(60, 600)):
        fails += oracle_cbtf([ctx.seed, 77, i])
        ctx.count("oracle:cbtf")
    rng = ctx.np_rng(7)
    for c in eig_cases(rng, ctx.pick(40, 400)):
        if c["massless"] and np.linalg.cond(c["k"][np.ix_(c["massless"], c["massless"])]) > 1e6:
            continue
        fails += oracle_solve_eig(c)
        ctx.count("oracle:solve_eig")
    rng = ctx.np_rng(8)
    for c in rbdisp_cases(rng, ctx.pick(150, 1500)):
        fails += oracle_rbdisp(c)
        ctx.count("oracle:rbdispchk")
    rng = ctx.np_rng(9)
    for c in net_cases(rng, ctx.pick(40, 300)):
        fails += oracle_net(c)
        ctx.count("oracle:mk_net_drms")
    for i in range(ctx.pick(60, 600)):
        fails += oracle_rbmult([ctx.seed, 55, i])
        ctx.count("oracle:rbmultchk")
    rng = ctx.np_rng(15)
    for c in coordchk_cases(rng, ctx.pick(40, 300)):
        if build_case(c["spec"])["red"]["cond"] > 1e8:
            continue
        fails += oracle_coordchk(c)
        ctx.count("oracle:cbcoordchk")
    rng = ctx.np_rng(14)
    for c in rbchk_cases(rng, ctx.pick(80, 600), bad_safe=True):
        fails += oracle_rbchk(c)
        ctx.count("oracle:rbmultchk-exact")
    rng = ctx.np_rng(11)
    for c in cbtf0_cases(rng, ctx.pick(60, 600)):
        fails += oracle_cbtf0(c)
        ctx.count("oracle:cbtf-static")
    for i in range(ctx.pick(10, 50)):
        f, kind = probe_net_reorder([ctx.seed, 98, i])
        fails += f[:1]
        ctx.count("oracle:probe-netdrm-reorder-%s-%s" % (kind, "fails" if f else "holds"))
    for i in range(ctx.pick(2, 6)):
        f = probe_emfilt([ctx.seed, 96, i])
        fails += f[:1]
        ctx.count("oracle:probe-cbcheck-emfilt-" + ("fails" if f else "holds"))
    for i in range(ctx.pick(3, 12)):
        f = probe_nomodes([ctx.seed, 97, i])
        fails += f[:1]
        ctx.count("oracle:probe-cbcheck-nomodes-" + ("fails" if f else "holds"))
    nprobe = 0
    for i in range(ctx.pick(12, 60)):
        f, spec = probe_noreorder([ctx.seed, 99, i])
        fails += f[:1]
        nprobe += 1
        ctx.count("oracle:probe-noreorder-" + ("fails" if f else "holds"))
    famseen = {}
    for f in fails:
        if famseen.setdefault(f["family"], 0) < 2:
            ctx.fail(f["family"], f["what"], f["input"], f["observed"], f["required"])
        famseen[f["family"]] += 1
    ctx.extra["oracle_failures_by_family"] = famseen


def replay(ctx, data):
    f = data.get("failure")
    if not f:
        return None
    res = _run_kind(f["input"])
    same = [r for r in res if r["family"] == f["family"]]
    return (same or res or [None])[0]
